#!/usr/bin/env python3
"""Print a markdown table of seeded changes and which check catches them (from seeded/*/meta.json)."""
import json, os, re
V = '/verif/seeded'
print('| Seeded | Property | What the change needs in order to manifest (agent\'s words, abridged) | Result of `tools/mutcheck.sh` |')
print('|---|---|---|---|')
for sid in sorted(os.listdir(V)):
    mp = os.path.join(V, sid, 'meta.json')
    if not os.path.exists(mp): 
        print('| %s | %s | (not yet run against a check) | - |' % (sid, sid.split('-')[0])); continue
    m = json.load(open(mp))
    txt = m.get('breaks_and_needs') or (m.get('breaks', '') + ' NEEDS: ' + m.get('needs', ''))
    txt = re.sub(r'\s+', ' ', txt)[:330].replace('|', '/')
    hist = m.get('history', [])
    if 'detected' in m:
        res = 'caught' if m['detected'] else 'MISSED'
        if len(hist) > 1 and not hist[0]['detected'] and m['detected']: res = 'missed at first, caught after strengthening'
        v = (m.get('violation_lines') or [''])[0]
        if 'no-failing-input-found' in v: res += ' (proof/tie broken, no failing input found)'
    else:
        res = m.get('detected_by', '')[:200]
    print('| %s | %s | %s | %s |' % (sid, m.get('property', ''), txt, res))
