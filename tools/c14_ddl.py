"""C14, declared-key census (implementation side): every key a model declares must be enforced.

For a fixed grid of declarations - unique attributes (Required / Optional, int / str), composite_key over scalars and over a
reference, composite primary keys (also containing a relationship), keys declared on a SUBCLASS (single-table inheritance),
the link table of a many-to-many relationship - the check
  (1) reads the schema SQLite actually holds (pragma table_info / index_list / index_info) and demands a PRIMARY KEY / UNIQUE
      constraint over exactly the declared columns, and
  (2) behaves: one session commits an object, a second session creates another object with the same key values and commits;
      the second commit must raise and the table must be unchanged (and the pair with a NULL component must be accepted).
This is the part of C14 the session model takes on trust ("the tables Pony creates carry the constraints").

Script protocol (vlib.run_impl): {"cases": [name...] | null} -> {"results": [{"case", "ok", "detail"}]}
"""
import json, os, sqlite3, sys, tempfile, shutil, warnings

warnings.simplefilter('ignore')
from pony import orm
from pony.orm import core


def uniq_sets(con, table):
    """column sets with a PRIMARY KEY / UNIQUE constraint"""
    out = set()
    pk = tuple(sorted(r[1] for r in con.execute('pragma table_info("%s")' % table).fetchall() if r[5]))
    if pk: out.add(pk)
    for ix in con.execute('pragma index_list("%s")' % table).fetchall():
        if ix[2]: out.add(tuple(sorted(r[2] for r in con.execute('pragma index_info("%s")' % ix[1]).fetchall())))
    return out


# each case: define(db) -> (entities dict, [(table, declared column set, maker_a, maker_dup, maker_nullvariant|None)])
def case_unique_attrs(db):
    class A(db.Entity):
        r = orm.Required(int, unique=True)
        o = orm.Optional(int, unique=True)
        s = orm.Optional(str, unique=True)
    return [('A', ('r',), lambda: A(r=1), lambda: A(r=1), None),
            ('A', ('o',), lambda: A(r=2, o=5), lambda: A(r=3, o=5), lambda: (A(r=4), A(r=5))),
            ('A', ('s',), lambda: A(r=6, s='x'), lambda: A(r=7, s='x'), None)]


def case_composite_key(db):
    class P(db.Entity):
        cs = orm.Set('C')
    class C(db.Entity):
        a = orm.Required(int)
        b = orm.Optional(str)
        p = orm.Optional(P)
        orm.composite_key(a, b)
        orm.composite_key(a, p)
    return [('C', ('a', 'b'), lambda: C(a=1, b='x'), lambda: C(a=1, b='x'), lambda: (C(a=2), C(a=2))),
            ('C', ('a', 'p'), lambda: C(a=3, b='k', p=P.get(id=1) or P(id=1)), lambda: C(a=3, b='l', p=P.get(id=1)), None)]


def case_composite_pk(db):
    class K(db.Entity):
        a = orm.Required(int)
        b = orm.Required(str)
        orm.PrimaryKey(a, b)
    return [('K', ('a', 'b'), lambda: K(a=1, b='x'), lambda: K(a=1, b='x'), None)]


def case_composite_pk_with_relationship(db):
    class S(db.Entity):
        marks = orm.Set('M')
    class M(db.Entity):
        s = orm.Required(S)
        n = orm.Required(int)
        orm.PrimaryKey(s, n)
    return [('M', ('n', 's'), lambda: M(s=S.get(id=1) or S(id=1), n=1), lambda: M(s=S.get(id=1), n=1), None)]


def case_subclass_keys(db):
    class B(db.Entity):
        x = orm.Required(int, unique=True)
    class D(B):
        y = orm.Optional(int, unique=True)
        z = orm.Optional(int)
        w = orm.Optional(str)
        orm.composite_key(z, w)
    class DD(D):
        v = orm.Optional(str, unique=True)
    return [('B', ('x',), lambda: B(x=1), lambda: D(x=1), None),
            ('B', ('y',), lambda: D(x=2, y=7), lambda: D(x=3, y=7), lambda: (D(x=4), D(x=5))),
            ('B', ('w', 'z'), lambda: D(x=6, z=1, w='q'), lambda: DD(x=7, z=1, w='q'), None),
            ('B', ('v',), lambda: DD(x=8, v='u'), lambda: DD(x=9, v='u'), None)]


def case_m2m_link_table(db):
    class L(db.Entity):
        rs = orm.Set('R', table='lr')
    class R(db.Entity):
        ls = orm.Set(L)
    return [('lr', ('l', 'r'), None, None, None)]


CASES = {'unique-attrs': case_unique_attrs, 'composite-key': case_composite_key, 'composite-pk': case_composite_pk,
         'composite-pk-with-relationship': case_composite_pk_with_relationship, 'subclass-keys': case_subclass_keys,
         'm2m-link-table': case_m2m_link_table}


def dump(path, table):
    con = sqlite3.connect(path)
    try: return sorted(map(repr, con.execute('select * from "%s"' % table).fetchall()))
    finally: con.close()


def run_case(name, tmpdir):
    path = os.path.join(tmpdir, name + '.sqlite')
    if os.path.exists(path): os.remove(path)
    db = orm.Database('sqlite', path, create_db=True)
    keys = CASES[name](db)
    db.generate_mapping(create_tables=True)
    problems = []
    con = sqlite3.connect(path)
    try:
        for table, cols, mk, dup, nullv in keys:
            table = table.lower() if table == 'lr' else table
            have = uniq_sets(con, table)
            if tuple(sorted(cols)) not in have:
                problems.append('table %s: no PRIMARY KEY / UNIQUE constraint over %r (constraints: %s)' % (table, cols, sorted(have)))
    finally:
        con.close()
    for table, cols, mk, dup, nullv in keys:
        if mk is None: continue
        try:
            with orm.db_session: mk()
        except Exception as e:
            problems.append('%s%r: creating the first object failed: %s' % (table, cols, type(e).__name__)); continue
        before = dump(path, table)
        try:
            with orm.db_session: dup()
            problems.append('%s%r: a second object with the same key values was committed; rows %s' % (table, cols, dump(path, table)))
        except Exception as e:
            if dump(path, table) != before:
                problems.append('%s%r: the duplicate raised %s but the table changed' % (table, cols, type(e).__name__))
        if nullv is not None:
            try:
                with orm.db_session: nullv()
            except Exception as e:
                problems.append('%s%r: two objects with a NULL key component were refused (%s)' % (table, cols, type(e).__name__))
    try: db.disconnect()
    except Exception: pass
    return {'case': name, 'ok': not problems, 'detail': '; '.join(problems)}


def main():
    payload = json.load(sys.stdin)
    names = payload.get('cases') or sorted(CASES)
    tmpdir = tempfile.mkdtemp(prefix='c14-ddl-')
    out = []
    try:
        for n in names:
            try: out.append(run_case(n, tmpdir))
            except Exception as e:
                import traceback
                out.append({'case': n, 'ok': False, 'detail': 'harness error: ' + traceback.format_exc()[-800:]})
    finally:
        shutil.rmtree(tmpdir, ignore_errors=True)
    sys.stdout.write('\n@@JSON@@' + json.dumps({'results': out}))


if __name__ == '__main__':
    main()
