"""C01/C02 - ordering (coq/Model/C01Order.v): select((p.id, <proj>) for p in P [if <filt>]).order_by(k1, desc(k2), ..., p.id) over the single
entity of c01_lib; keys are scalar expressions of c01_lib (value typed), the primary key is always the last key so that the order is total."""
import functools
import vlib, c01_lib as L
from vlib import Failure

ORDER_HEADER = ('Require Import PonyV.Base.PyBase PonyV.Model.C01Expr PonyV.Model.C01Sql PonyV.Model.C01Translate PonyV.Model.C01Eqb '
                'PonyV.Model.C01Safe PonyV.Model.C01Query PonyV.Model.C01Aggr PonyV.Model.C01Order.\nOpen Scope Z_scope.\n')
QVS_EQB = '(fix eq (a b : list qv) := match a, b with [], [] => true | x :: a1, y :: b1 => qv_eqb x y && eq a1 b1 | _, _ => false end)'
ID_KEY = (('attr', 'id'), False)


def order_src(keys):
    return ', '.join(('desc(%s)' % L.src(e)) if d else L.src(e) for e, d in keys)


def qsrc(filt, keys, proj):
    return 'select(%s for p in P%s).order_by(%r)' % ('(p.id, %s)' % L.src(proj) if proj is not None else 'p.id', '' if filt is None else ' if ' + L.src(filt), order_src(keys))


def keys_coq(keys):
    return '[%s]' % '; '.join('(%s, %s)' % (L.coq(e), 'true' if d else 'false') for e, d in keys)


def make_query(P, filt, keys, proj, params):
    from pony import orm
    src = '%s for p in P%s' % ('(p.id, %s)' % L.src(proj) if proj is not None else 'p.id', '' if filt is None else ' if ' + L.src(filt))
    q = orm.select(src, L.query_globals(P, params))
    ns = {'desc': orm.desc, 'coalesce': orm.coalesce, 'between': orm.between, 'q': q}
    for i, v in params.items(): ns['x%d' % i] = v
    return eval('q.order_by(%r)' % order_src(keys), ns)


def order_term(order):
    out = []
    for o in order:
        if o[0] == 'DESC' and len(o) == 2: out.append('(%s, true)' % L.qx(o[1]))
        else: out.append('(%s, false)' % L.qx(o))
    return '[%s]' % '; '.join(out)


def translate(provider, filt, keys, proj, params):
    from pony import orm
    db, P = L.get_db(provider)
    with orm.db_session:
        q = make_query(P, filt, keys, proj, params)
        t = q._translator
        if t.sqlquery.from_ast[0] != 'FROM' or len(t.sqlquery.from_ast) != 2 or t.distinct: raise L.Unmodelled('not a plain ordered query')
        conds = '[%s]' % '; '.join(L.qx(c) for c in t.conditions)
        col = L.qx(t.expr_columns[1]) if proj is not None else None
        return order_term(t.order), conds, col, q.get_sql(), L.strip_ast([t.conditions, t.order, t.expr_columns])


def run(real, filt, keys, proj, params, raw=False):
    orm = real.orm
    with orm.db_session:
        q = make_query(real.P, filt, keys, proj, params)
        if raw:
            sql, arguments, _, _ = q._construct_sql_and_arguments()
            return [tuple(r) for r in real.db._exec_sql(sql, arguments).fetchall()], sql
        return [r if isinstance(r, tuple) else (r,) for r in q]


class Skip(Exception):
    pass


def _cmp(nulls_first, a, b):
    if a is None and b is None: return 0
    if a is None: return -1 if nulls_first else 1
    if b is None: return 1 if nulls_first else -1
    return (a > b) - (a < b)


def reference(filt, keys, proj, params, rows, nulls_first=True):
    """[(id, value)] of the comprehension sorted by the key values, None keys where the dialect puts NULL."""
    kept = []
    for row in rows:
        try:
            if filt is not None and 'zero-division' in L.hazards(filt, row, params): raise Skip()
            if filt is None or L.keeps(filt, row, params, False):
                kv = []
                for e, d in keys:
                    if 'zero-division' in L.hazards(e, row, params): raise Skip()
                    kv.append(L.ref(e, row, params, False))
                if proj is not None and 'zero-division' in L.hazards(proj, row, params): raise Skip()
                kept.append((kv, (row['id'],) + ((L.ref(proj, row, params, False),) if proj is not None else ())))
        except L.RefError:
            raise Skip()
    def cmp(x, y):
        for (e, d), a, b in zip(keys, x[0], y[0]):
            c = _cmp(nulls_first, a, b)
            if d: c = -c
            if c: return c
        return 0
    return [r for _, r in sorted(kept, key=functools.cmp_to_key(cmp))]


HANDMADE = [
    (None, [(('attr', 'a'), False)], None), (None, [(('attr', 'a'), True)], None), (None, [(('attr', 's'), False), (('attr', 'b'), True)], ('attr', 's')),
    (('cmp', '>', ('attr', 'r'), ('int', 0)), [(('arith', '+', ('attr', 'a'), ('attr', 'b')), True)], ('attr', 'a')),
    (None, [(('attr', 'f'), True), (('attr', 'u'), False)], None), (None, [(('neg', ('attr', 'a')), False)], None),
    (None, [(('coalesce', (('attr', 'a'), ('int', 0))), False), (('attr', 'g'), True)], None),
    (None, [(('concat', ('attr', 's'), ('str', 'a')), False)], None),
]


def gen_queries(ctx, n):
    rng = ctx.rng
    g = L.Gen(rng)
    out = [(f, k + [ID_KEY], p, {}) for f, k, p in HANDMADE]
    while len(out) < n + len(HANDMADE):
        g.reset()
        keys = [(g.value(rng.choice(L.VT), rng.choice((1, 1, 2, 3)), True), rng.random() < 0.4) for _ in range(rng.choice((1, 1, 2, 3)))]
        filt = g.filter_expr(rng.choice((2, 3))) if rng.random() < 0.5 else None
        proj = g.value(rng.choice(L.VT), rng.choice((1, 2)), True) if rng.random() < 0.3 else None
        out.append((filt, keys + [(('attr', 'id'), rng.random() < 0.2)], proj, dict(g.params)))
    return out


def env_list(real):
    return '[%s]' % '; '.join('mkenv %s PARAMS' % real.names[i] for i in sorted(real.rows))


def order_cases(ctx, queries, real):
    """ORDER BY list + conditions + column on four providers; the ordered rows real SQLite returns vs sql_order_rows."""
    import c01_harness as H
    exprs, meta, dis, nontriv = [], [], [], set()
    dist = {'order_lists': 0, 'sqlite_result_lists': 0, 'translator_raises': 0}
    for filt, keys, proj, params in queries:
        for prov in ('sqlite', 'postgres', 'mysql', 'oracle'):
            if prov == 'oracle' and any(v == '' for v in params.values()): continue
            inp = {'provider': prov, 'query': qsrc(filt, keys, proj), 'params': params}
            try:
                order, conds, col, sql, dump = translate(prov, filt, keys, proj, params)
            except L.Unmodelled as ex:
                dis.append({'what': 'ordered query outside the modelled shapes: %s' % ex, 'input': inp}); continue
            except Exception as ex:
                dist['translator_raises'] += 1
                dis.append({'what': 'the real translator raised on a typed ordered query', 'input': inp, 'impl': '%s: %s' % (type(ex).__name__, str(ex)[:200])}); continue
            d = L.DN[prov]
            m = dict(inp, impl=dump)
            e = 'ookeys_eqb (tr_order %s %s) %s && oqxs_eqb %s (Some %s)' % (d, keys_coq(keys), order, '(tr_filter %s %s)' % (d, L.coq(filt)) if filt is not None else '(Some [])', conds)
            if proj is not None: e += ' && oqx_eqb (tr_project %s %s) (Some %s)' % (d, L.coq(proj), col)
            exprs.append(e); meta.append(dict(m, mode='order-list')); dist['order_lists'] += 1
            nontriv.add((prov, qsrc(filt, keys, proj)))
            if prov == 'sqlite':
                try:
                    rows, sql = run(real, filt, keys, proj, params, raw=True)
                except Exception as ex:
                    dis.append({'what': 'real SQLite raised on an ordered query', 'input': inp, 'impl': '%s: %s' % (type(ex).__name__, ex)}); continue
                got = '[%s]' % '; '.join(H.coq_qv(r[-1]) for r in rows)
                exprs.append('(let PARAMS := %s in %s (sql_order_rows DSqlite %s %s %s %s) %s)' % (
                    L._coq_fn(list(params.items())), QVS_EQB, order, conds, col if proj is not None else '(QCol 0)', env_list(real), got))
                meta.append(dict(m, mode='order-rows', impl=rows, sql=sql)); dist['sqlite_result_lists'] += 1
    return exprs, meta, dis, nontriv, dist


def classify(filt, keys, proj, params, rows):
    import c01_harness as H
    for e, mode in [(filt, 'filter')] + [(k, 'project') for k, _ in keys] + [(proj, 'project')]:
        if e is None: continue
        for row in rows:
            key = H.classify(e, row, params, mode)
            try:
                differs = (L.keeps(e, row, params, False) != L.keeps(e, row, params, True)) if mode == 'filter' else (L.ref(e, row, params, False) != L.ref(e, row, params, True))
            except L.RefError:
                differs = False
            if differs or not key.startswith('unlisted'): return key
    return 'unlisted:order'


def check_query(real, filt, keys, proj, params):
    import c01_harness as H
    rows = [real.rows[i] for i in sorted(real.rows)]
    try:
        want = reference(filt, keys, proj, params, rows, nulls_first=True)
    except Skip:
        return None
    got = run(real, filt, keys, proj, params)
    if len(got) == len(want) and all(len(g) == len(w) and all(H.same_value(a, b) for a, b in zip(g, w)) for g, w in zip(got, want)): return None
    return got, want


def order_failure(filt, keys, proj, params, rows, got, want):
    what = '%s with %s over %d rows: Pony gives %r, the sorted comprehension (None first, as SQLite sorts NULL) gives %r' % (
        qsrc(filt, keys, proj), {('x%d' % i): v for i, v in sorted(params.items())}, len(rows), got[:8], want[:8])
    return Failure(classify(filt, keys, proj, params, rows), what, {'order': {
        'filt': L.to_json(filt) if filt is not None else None, 'keys': [[L.to_json(e), d] for e, d in keys], 'proj': L.to_json(proj) if proj is not None else None,
        'params': {str(i): v for i, v in params.items()}, 'rows': [{k: v for k, v in r.items() if k != 'id'} for r in rows]}})


def order_search(ctx, queries, real, real_factory, max_per_key=1):
    failures, seen, evals, nontriv = [], {}, 0, set()
    dist = {'queries': 0, 'pony_raises': {}, 'failing_queries_by_key': seen}
    rows = [real.rows[i] for i in sorted(real.rows)]
    for filt, keys, proj, params in queries:
        dist['queries'] += 1
        try:
            r = check_query(real, filt, keys, proj, params)
        except Exception as ex:
            n = type(ex).__name__; dist['pony_raises'][n] = dist['pony_raises'].get(n, 0) + 1; continue
        evals += len(rows)
        if r is None:
            nontriv.add(qsrc(filt, keys, proj)); continue
        key = classify(filt, keys, proj, params, rows)
        seen[key] = seen.get(key, 0) + 1
        if seen[key] <= max_per_key:
            cur = list(rows); i = 0
            while i < len(cur) and len(cur) > 2:
                cand = cur[:i] + cur[i + 1:]
                try: rr = check_query(real_factory(cand), filt, keys, proj, params)
                except Exception: rr = None
                if rr is not None and classify(filt, keys, proj, params, cand) == key: cur = cand
                else: i += 1
            rr = check_query(real_factory(cur), filt, keys, proj, params) or r
            failures.append(order_failure(filt, keys, proj, params, cur, rr[0], rr[1]))
    return evals, failures, nontriv, dist


def replay_order(d, real_factory):
    filt = L.from_json(d['filt']) if d['filt'] is not None else None
    keys = [(L.from_json(e), bool(s)) for e, s in d['keys']]
    proj = L.from_json(d['proj']) if d['proj'] is not None else None
    params = {int(k): v for k, v in d['params'].items()}
    real = real_factory(d['rows'])
    try:
        r = check_query(real, filt, keys, proj, params)
    except Exception:
        return None
    if r is None: return None
    return order_failure(filt, keys, proj, params, [real.rows[i] for i in sorted(real.rows)], r[0], r[1])
