"""Correspondence and search machinery shared by the C01 and C02 plugins (and used by C05 for its query generator).

Ties (every case is one Coq boolean evaluated by vm_compute inside coqc, see run_bools):
  structural   real translator (sqlite / postgres / mysql / oracle mock-up databases)  vs  tr_filter / tr_project
  semantic     real SQLite executing the SQL text the real builder produced             vs  qeval DSqlite of that AST
  reference    tools/c01_lib.ref (real Python operators + the stated None rules)        vs  reval false / reval true
               and c01_lib.ref vs CPython's eval of the query source on None-free rows
Search (property oracle): the query runs through real Pony on an in-memory SQLite database; every returned row is
compared with c01_lib.ref over the same row.
"""
import json, sqlite3
import vlib, c01_lib as L
from vlib import Failure

HEADER = ('Require Import PonyV.Base.PyBase PonyV.Model.C01Expr PonyV.Model.C01Sql PonyV.Model.C01Translate PonyV.Model.C01Eqb '
          'PonyV.Model.C01Safe PonyV.Model.C01Query PonyV.Model.C01Like PonyV.Model.C01LikeEqb.\nOpen Scope Z_scope.\n')

PROVIDERS = ('sqlite', 'postgres', 'mysql', 'oracle')


def run_bools(ctx, exprs, chunk=500, name='cases', prelude='', jobs=8, header=None):
    """exprs: list of Coq bool terms. Returns the list of indexes whose value is not true."""
    chunks = []
    header = (HEADER if header is None else header) + prelude
    for i in range(0, len(exprs), chunk):
        part = exprs[i:i + chunk]
        chunks.append('Definition cases : list bool := [\n' + ';\n'.join(part) + '].\nEval vm_compute in (failing cases).\n')
    if not chunks: return []
    outs = vlib.coq_eval_many(ctx, header, chunks, name=name, jobs=jobs)
    bad = []
    for k, out in enumerate(outs):
        vals = vlib.parse_eval_outputs(out)
        assert len(vals) == 1, out[-500:]
        body = vals[0].split(':')[0].strip()
        assert body.startswith('['), body
        inner = body.strip('[]').strip()
        if inner:
            for tok in inner.split(';'):
                bad.append(k * chunk + int(tok.strip().replace('%nat', '')))
    return bad


# ---------------------------------------------------------------------------------------------- generated inputs

def generated_exprs(ctx, n_random, n_enum, n_depth3, ext=False):
    """[(expr, params, origin)] - deterministic for a given ctx.seed."""
    rng = ctx.rng
    out = []
    base, P = L.enum_small()
    picked = base if n_enum >= len(base) else [base[i] for i in sorted(rng.sample(range(len(base)), n_enum))]
    for e in picked:
        out.append((e, {i: P[i] for i in L.params_of(e)}, 'enum2'))
    for e in L.enum_depth3(rng, base, n_depth3):
        out.append((e, {i: P[i] for i in L.params_of(e)}, 'enum3'))
    g = L.Gen(rng, ext=ext)
    for _ in range(n_random):
        g.reset()
        d = rng.choice((2, 3, 3, 4, 4, 5))
        e = g.filter_expr(d) if rng.random() < 0.55 else g.value(rng.choice(L.VT), d, True)
        out.append((e, dict(g.params), 'random'))
    return out


def oracle_skips(e, params):
    """Oracle stores '' as NULL, so a str parameter '' reaches the translator as None: outside the model's typing."""
    return any(params[i] == '' for i in L.params_of(e))


# ---------------------------------------------------------------------------------------------- structural tie

HANDMADE = [
    # (expr, params): shapes the generators rarely hit; mixed bool/int coercions, flattening, double negation
    (('arith', '+', ('attr', 'f'), ('int', 1)), {}),
    (('cmp', '==', ('attr', 'f'), ('int', 1)), {}),
    (('cmp', '==', ('attr', 'a'), ('bool', True)), {}),
    (('cmp', '<', ('attr', 'f'), ('attr', 'g')), {}),
    (('not', ('not', ('attr', 'a'))), {}),
    (('not', ('not', ('cmp', '<', ('attr', 'a'), ('int', 1)))), {}),
    (('not', ('not', ('and', ('attr', 'a'), ('attr', 's')))), {}),
    (('and', ('and', ('attr', 'a'), ('attr', 'f')), ('or', ('attr', 's'), ('or', ('attr', 'g'), ('attr', 'b')))), {}),
    (('or', ('or', ('attr', 'a'), ('attr', 'f')), ('and', ('attr', 's'), ('and', ('attr', 'g'), ('attr', 'b')))), {}),
    (('not', ('in', False, ('attr', 'a'), (('int', 1), ('int', 2)))), {}),
    (('not', ('cmp', 'is', ('attr', 'a'), ('none',))), {}),
    (('not', ('cmp', '==', ('param', 0, None), ('attr', 's'))), {0: None}),
    (('not', ('if', ('attr', 's'), ('attr', 'f'), ('attr', 'g'))), {}),
    (('not', ('coalesce', (('attr', 'f'), ('attr', 'f')))), {}),
    (('not', ('if', ('cmp', '>', ('attr', 'r'), ('int', 1)), ('attr', 'r'), ('attr', 'r'))), {}),
    (('not', ('len', ('attr', 'u'))), {}),
    (('not', ('neg', ('attr', 'r'))), {}),
    (('not', ('concat', ('attr', 'u'), ('attr', 'u'))), {}),
    (('len', ('concat', ('attr', 's'), ('str', 'x'))), {}),
    (('minmax', True, (('attr', 'a'), ('attr', 'b'), ('int', 1))), {}),
    (('coalesce', (('attr', 'a'), ('attr', 'b'), ('int', 0))), {}),
    (('if', ('attr', 'f'), ('attr', 'a'), ('attr', 'b')), {}),
]

# typed by Pony but outside `ty_of` (mixed bool/int branches): the model must still describe the AST (findings of C02 use them)
HANDMADE_UNTYPED = [
    (('if', ('attr', 's'), ('attr', 'f'), ('attr', 'a')), {}),
    (('coalesce', (('attr', 'f'), ('attr', 'a'))), {}),
    (('minmax', False, (('attr', 'a'), ('attr', 'f'), ('int', 3))), {}),
    (('arith', '+', ('attr', 'f'), ('attr', 'g')), {}),
    (('neg', ('attr', 'f')), {}),
    (('cmp', '==', ('attr', 'a'), ('str', 'x')), {}),
]


def structural_cases(ctx, inputs, providers=PROVIDERS):
    """-> (coq bool terms, meta, disagreements, nontrivial keys, distribution)"""
    exprs, meta, dis, nontriv = [], [], [], set()
    dist = {'filter': 0, 'project': 0, 'translator_raises': 0, 'skipped_oracle_empty_string_param': 0}
    for e, params, origin in inputs:
        t = L.ty_of(e)
        modes = ['filter'] if t == 'cond' else (['filter', 'project'] if ctx.rng.random() < 0.5 else ['project'])
        for prov in providers:
            if prov == 'oracle' and oracle_skips(e, params):
                dist['skipped_oracle_empty_string_param'] += 1; continue
            db, P = L.get_db(prov)
            nullable = {k: L.attr_nullable(P, k) for k in L.ATTRS}
            ce = L.coq(e, nullable)
            for mode in modes:
                try:
                    if mode == 'filter':
                        ast = L.translate_filter(prov, e, params)
                        real = '(Some [%s])' % '; '.join(L.qx(c) for c in ast)
                        exprs.append('oqxs_eqb (tr_filter %s %s) %s' % (L.DN[prov], ce, real))
                    else:
                        ast = L.translate_project(prov, e, params)
                        real = '(Some %s)' % L.qx(ast)
                        exprs.append('oqx_eqb (tr_project %s %s) %s' % (L.DN[prov], ce, real))
                    meta.append({'provider': prov, 'mode': mode, 'query': L.src(e), 'params': params, 'impl': L.strip_ast(ast), 'origin': origin})
                    dist[mode] += 1
                    if L.depth(e) >= 2: nontriv.add((prov, mode, L.src(e)))
                except L.Unmodelled as ex:
                    dis.append({'what': 'the real translator produced an AST node outside the modelled fragment: %s' % ex,
                                'input': {'provider': prov, 'query': L.src(e), 'params': params}})
                except Exception as ex:
                    dist['translator_raises'] += 1
                    # the model must say "raises" as well
                    exprs.append(('oqxs_eqb (tr_filter %s %s) None' if mode == 'filter' else 'oqx_eqb (tr_project %s %s) None') % (L.DN[prov], ce))
                    meta.append({'provider': prov, 'mode': mode, 'query': L.src(e), 'params': params,
                                 'impl': 'raises %s: %s' % (type(ex).__name__, str(ex)[:200]), 'origin': origin})
    return exprs, meta, dis, nontriv, dist


def like_inputs(ctx, n_random):
    """[(like tree, params)]: the small exhaustive scope + random haystack expressions / needle shapes."""
    out = list(L.like_sweep())
    g = L.Gen(ctx.rng)
    for _ in range(n_random):
        g.reset()
        hay = g.value('str', ctx.rng.choice((1, 2, 3)), True)
        shape = ctx.rng.choice(('literal', 'param', 'attr', 'expr'))
        if shape == 'literal': needle = ('str', ctx.rng.choice(L.LIKE_POOL))
        elif shape == 'param':
            needle = g.new_param('str'); g.params[needle[1]] = ctx.rng.choice(L.LIKE_POOL)
        elif shape == 'attr': needle = ('attr', ctx.rng.choice(('u', 's')))
        else: needle = g.value('str', 2, True)
        out.append((('like', ctx.rng.choice(('startswith', 'endswith', 'contains')), ctx.rng.random() < 0.4, hay, needle), dict(g.params)))
    return out


def like_cases(ctx, inputs, real, providers=PROVIDERS):
    """Structural tie of StringMixin._like on the four providers (like_of vs the real condition AST), semantic tie of the LIKE
    matcher (lcond_eval DSqlite of the real AST vs the rows real SQLite keeps), and py_like vs Python's str methods."""
    from pony import orm
    exprs, meta, dis, nontriv = [], [], [], set()
    dist = {'structural': 0, 'sqlite_rows': 0, 'python_str_methods': 0, 'translator_raises': 0}
    for num, (e, params) in enumerate(inputs):
        for prov in providers:
            if prov == 'oracle' and oracle_skips(e, params): continue
            db, P = L.get_db(prov)
            nullable = {k: L.attr_nullable(P, k) for k in L.ATTRS}
            try:
                conds = L.translate_filter(prov, e, params)
                if len(conds) != 1: raise L.Unmodelled('%d conditions' % len(conds))
                exprs.append('olcond_eqb %s (Some %s)' % (L.like_model_term(prov, e, nullable), L.lcond(conds[0])))
                meta.append({'provider': prov, 'mode': 'like-structural', 'query': L.src(e), 'params': params, 'impl': L.strip_ast(conds)})
                dist['structural'] += 1; nontriv.add((prov, L.src(e)))
            except L.Unmodelled as ex:
                dis.append({'what': '_like produced an AST outside the modelled shapes: %s' % ex, 'input': {'provider': prov, 'query': L.src(e), 'params': params}})
            except Exception as ex:
                dist['translator_raises'] += 1
                exprs.append('olcond_eqb %s None' % L.like_model_term(prov, e, nullable))
                meta.append({'provider': prov, 'mode': 'like-structural', 'query': L.src(e), 'params': params, 'impl': 'raises %s' % type(ex).__name__})
        # semantic: the rows real SQLite keeps vs the matcher on the real AST (every third input in the quick tier)
        if not ctx.thorough and num % 3: continue
        try:
            kept, conds, sql = real.raw_filter(e, params)
            if len(conds) == 1:
                lc = L.lcond(conds[0])
                for i, row in real.rows.items():
                    exprs.append('(otv_code (lcond_eval DSqlite (encenv DSqlite %s) %s) =? %d)%%Z' % (L.coq_env(row, params, real.names[i]), lc, 1 if i in kept else 0) if i in kept
                                 else 'negb (otv_code (lcond_eval DSqlite (encenv DSqlite %s) %s) =? 1)%%Z' % (L.coq_env(row, params, real.names[i]), lc))
                    meta.append({'mode': 'like-sqlite', 'query': L.src(e), 'params': params, 'row': row, 'sql': sql, 'impl_kept': i in kept})
                    dist['sqlite_rows'] += 1
        except (L.Unmodelled, Exception) as ex:
            dis.append({'what': 'LIKE query failed on real SQLite: %s' % ex, 'input': {'query': L.src(e), 'params': params}})
    # py_like vs Python
    for n in L.LIKE_POOL:
        for s_ in ('a!b', 'a!', '!', 'ab', 'a%b', 'a_b', '', 'b!a', 'aab'):
            for kind, fn in (('KStarts', s_.startswith(n)), ('KEnds', s_.endswith(n)), ('KContains', n in s_)):
                exprs.append('Bool.eqb (py_like %s %s %s) %s' % (kind, L.cstr(n), L.cstr(s_), 'true' if fn else 'false'))
                meta.append({'mode': 'py_like', 'query': '%s %s %r %r' % (kind, 'of', n, s_), 'impl': fn}); dist['python_str_methods'] += 1
    return exprs, meta, dis, nontriv, dist


# ---------------------------------------------------------------------------------------------- real SQLite

class RealDb(object):
    """An in-memory SQLite database with the table filled from a list of row dicts (id assigned 1..n)."""
    def __init__(self, rows):
        from pony import orm
        self.orm = orm
        self.db, self.P = L.fresh_real_db()
        self.rows = {}
        with orm.db_session:
            for r in rows:
                o = self.P(**{k: v for k, v in r.items() if k != 'id'})
                o.flush()
                self.rows[o.id] = dict(r, id=o.id)
        self.names = {i: 'ROW%d' % i for i in self.rows}

    def prelude(self):
        return ''.join('Definition %s : nat -> pyv := %s.\n' % (self.names[i], L.coq_rowfn(r)) for i, r in sorted(self.rows.items()))

    def raw_project(self, e, params):
        """[(id, raw SQLite value)] for select((p.id, e) for p in P), bypassing Pony's converters; + the AST and SQL text."""
        orm = self.orm
        with orm.db_session:
            q = orm.select('(p.id, %s) for p in P' % L.src(e), L.query_globals(self.P, params))
            ast = q._translator.expr_columns[1]
            sql, arguments, _, _ = q._construct_sql_and_arguments()
            cur = self.db._exec_sql(sql, arguments)
            return [tuple(r) for r in cur.fetchall()], ast, sql

    def raw_filter(self, e, params):
        """ids kept by select(p.id for p in P if e) + the conditions and SQL text."""
        orm = self.orm
        with orm.db_session:
            q = orm.select('p.id for p in P if %s' % L.src(e), L.query_globals(self.P, params))
            conds = list(q._translator.conditions)
            sql, arguments, _, _ = q._construct_sql_and_arguments()
            cur = self.db._exec_sql(sql, arguments)
            return sorted(r[0] for r in cur.fetchall()), conds, sql

    def pony_project(self, e, params):
        orm = self.orm
        with orm.db_session:
            return list(orm.select('(p.id, %s) for p in P' % L.src(e), L.query_globals(self.P, params)))

    def pony_filter(self, e, params):
        orm = self.orm
        with orm.db_session:
            return sorted(orm.select('p.id for p in P if %s' % L.src(e), L.query_globals(self.P, params)))

    def pony_distinct(self, e, params):
        orm = self.orm
        with orm.db_session:
            q = orm.select('%s for p in P' % L.src(e), L.query_globals(self.P, params))
            return list(q), bool(q._translator.distinct)


def coq_qv(v):
    if v is None: return 'NullV'
    if isinstance(v, bool): return '(IntV %d)' % int(v)
    if isinstance(v, int): return '(IntV %s)' % vlib.cz(v)
    if isinstance(v, str): return '(StrV %s)' % L.cstr(v)
    if isinstance(v, float) and v == int(v): return '(IntV %s)' % vlib.cz(int(v))
    raise ValueError('no qv form for %r' % (v,))


def semantic_cases(ctx, real, inputs):
    """Real SQLite on the builder's SQL text vs qeval DSqlite on the translator's AST, per row."""
    exprs, meta, dis, nontriv = [], [], [], set()
    dist = {'project_rows': 0, 'filter_rows': 0, 'sqlite_raises': 0}
    for e, params, origin in inputs:
        t = L.ty_of(e)
        try:
            if t == 'cond' or ctx.rng.random() < 0.3:
                kept, conds, sql = real.raw_filter(e, params)
                cq = '[%s]' % '; '.join(L.qx(c) for c in conds)
                for i, row in real.rows.items():
                    exprs.append('Bool.eqb (where_truth DSqlite (encenv DSqlite %s) %s) %s' % (L.coq_env(row, params, real.names[i]), cq, 'true' if i in kept else 'false'))
                    meta.append({'mode': 'filter', 'query': L.src(e), 'params': params, 'row': row, 'sql': sql, 'impl_kept': i in kept})
                    dist['filter_rows'] += 1
            if t != 'cond' or ctx.rng.random() < 0.5:
                got, ast, sql = real.raw_project(e, params)
                cq = L.qx(ast)
                for i, raw in got:
                    row = real.rows[i]
                    exprs.append('qv_eqb (qeval DSqlite (encenv DSqlite %s) %s) %s' % (L.coq_env(row, params, real.names[i]), cq, coq_qv(raw)))
                    meta.append({'mode': 'project', 'query': L.src(e), 'params': params, 'row': row, 'sql': sql, 'impl_value': raw})
                    dist['project_rows'] += 1
            nontriv.add(L.src(e))
        except L.Unmodelled as ex:
            dis.append({'what': 'AST node outside the modelled fragment: %s' % ex, 'input': {'query': L.src(e), 'params': params}})
        except ValueError as ex:
            dis.append({'what': 'SQLite returned a value outside the modelled value domain: %s' % ex, 'input': {'query': L.src(e), 'params': params}})
        except Exception as ex:
            dist['sqlite_raises'] += 1
            dis.append({'what': 'real SQLite / Pony raised on a typed query', 'input': {'query': L.src(e), 'params': params},
                        'impl': '%s: %s' % (type(ex).__name__, str(ex)[:300])})
    return exprs, meta, dis, nontriv, dist


def reference_cases(ctx, real, ids, inputs):
    """c01_lib.ref vs Coq reval (both readings), and c01_lib.ref vs CPython eval where no None is involved."""
    exprs, meta, dis = [], [], []
    dist = {'ref_vs_coq': 0, 'ref_vs_cpython': 0, 'python_raises': 0}
    for e, params, origin in inputs:
        ce = L.coq(e)
        for rid in ids:
            row = real.rows[rid]
            for k3 in (False, True):
                try:
                    v = L.ref(e, row, params, k3)
                except L.RefError:
                    dist['python_raises'] += 1; continue
                if isinstance(v, float): continue           # a / b with b not dividing a: outside the value domain
                if L.hazards(e, row, params) & {'zero-division', 'truediv-of-ints-is-integer-division'}: continue
                exprs.append('pyv_eqb (reval %s %s %s) %s' % ('true' if k3 else 'false', L.coq_env(row, params, real.names[rid]), ce, L.coq_pyv(v)))
                meta.append({'mode': 'reference', 'k3': k3, 'query': L.src(e), 'params': params, 'row': row, 'impl': v})
                dist['ref_vs_coq'] += 1
            if L.none_free(e, row, params) and not (L.hazards(e, row, params) & {'zero-division'}):
                try:
                    want = L.plain_python(e, row, params)
                    got = L.ref(e, row, params, False)
                except (ZeroDivisionError, L.RefError):
                    continue
                dist['ref_vs_cpython'] += 1
                same = (bool(got) == bool(want)) if L.ty_of(e) == 'cond' else (got == want)      # 3 == 3.0, 3.5 == 3.5
                if not same:
                    dis.append({'what': 'the reference interpreter differs from CPython on a None-free row',
                                'input': {'query': L.src(e), 'params': params, 'row': row}, 'impl': repr(want), 'model': repr(got)})
    return exprs, meta, dis, dist


# ---------------------------------------------------------------------------------------------- search

KNOWN_HAZARD_KEYS = ('floordiv-truncates-toward-zero', 'mod-takes-sign-of-dividend', 'truediv-of-ints-is-integer-division')


def has_cond_operand_cmp(e):
    """A comparison one of whose operands is itself a comparison / and / or / not / in (search-only shapes)."""
    if e[0] == 'cmpc': return True
    return any(has_cond_operand_cmp(c) for c in L.children(e))


def null_string_not_in(e, row, params):
    """`x not in s` with s None somewhere in e (translated as NOT LIKE ... OR s IS NULL, unlike `not (x in s)`)."""
    if e[0] == 'like' and e[1] == 'contains' and e[2]:
        try:
            if L.ref(e[3], row, params, True) is None: return True
        except L.RefError:
            pass
    return any(null_string_not_in(c, row, params) for c in L.children(e))


def classify(e, row, params, mode):
    """Finding key of a failing (expression, row): the specific operator class responsible."""
    hz = L.hazards(e, row, params)
    for k in KNOWN_HAZARD_KEYS:
        if k in hz: return k
    if has_cond_operand_cmp(e): return 'comparison-operand-is-condition-unparenthesised'
    if null_string_not_in(e, row, params): return 'string-not-in-keeps-null-rows'
    try:
        if mode == 'filter':
            a, b = L.keeps(e, row, params, False), L.keeps(e, row, params, True)
        else:
            a, b = L.ref(e, row, params, False), L.ref(e, row, params, True)
        if a != b: return 'not-over-truth-test-of-null-value'
    except L.RefError:
        return 'zero-division'
    kinds = sorted(k.split(':')[0] if k.startswith('cmp:') else k for k in L.kinds_of(e) if k not in ('attr', 'int', 'str', 'bool', 'param', 'none'))
    return 'unlisted:%s:%s' % (mode, '+'.join(sorted(set(kinds)))[:80])


def check_one(real, e, params, mode):
    """Run one query on real Pony/SQLite; -> list of (row, got, want) mismatches (rows where Python raises are skipped)."""
    bad = []
    if mode == 'filter':
        kept = set(real.pony_filter(e, params))
        for i, row in real.rows.items():
            try: want = L.keeps(e, row, params, False)
            except L.RefError: continue
            if 'zero-division' in L.hazards(e, row, params): continue
            if (i in kept) != want: bad.append((row, i in kept, want))
    else:
        got = dict(real.pony_project(e, params))
        for i, row in real.rows.items():
            try: want = L.ref(e, row, params, False)
            except L.RefError: continue
            if 'zero-division' in L.hazards(e, row, params): continue
            g = got.get(i, '<row missing>')
            if not same_value(g, want): bad.append((row, g, want))
    return bad


def same_value(g, w):
    if isinstance(w, bool) or isinstance(g, bool): return g == w and type(g) is type(w) or (g is None and w is None)
    if isinstance(w, float): return isinstance(g, (int, float)) and float(g) == w and not (isinstance(g, int) and w != int(w))
    return g == w and (type(g) is type(w) or g is None)


def shrink(real_factory, e, params, row, mode, key):
    """Greedy shrinking: smaller expression with the same failure key on the single row."""
    cur = e
    for _ in range(40):
        for c in L.shrink_candidates(cur):
            t = L.ty_of_ext(c)
            if t is None or not L.wf(c): continue
            if mode == 'project' and t == 'cond' and L.ty_of_ext(cur) != 'cond': continue
            try:
                one = real_factory([row])
                m = 'filter' if mode == 'filter' else 'project'
                bad = check_one(one, c, params, m)
            except Exception:
                continue
            if bad and classify(c, row, params, m) == key:
                cur = c; break
        else:
            break
    return cur


def make_failure(e, params, row, mode, got, want, key, via='pony-on-sqlite'):
    r = {k: v for k, v in row.items() if k != 'id'}
    what = 'select(%s for p in P%s) with %s on row %s: Pony gives %r, Python gives %r' % (
        'p' if mode == 'filter' else L.src(e), ' if ' + L.src(e) if mode == 'filter' else '',
        {('x%d' % i): v for i, v in sorted(params.items())}, r, got, want)
    return Failure(key, what, {'expr': L.to_json(e), 'params': {str(i): v for i, v in params.items()}, 'row': r, 'mode': mode, 'via': via})


def search_sqlite(ctx, inputs, rows, deep, max_per_key=1):
    """End-to-end oracle on real SQLite. -> (evaluations, failures, nontrivial set, distribution)"""
    real = RealDb(rows)
    failures, seen, evals, nontriv = [], {}, 0, set()
    dist = {'queries': 0, 'rows_compared': 0, 'distinct_checks': 0, 'pony_raises': {}, 'failing_rows_by_key': seen}
    for e, params, origin in inputs:
        t = L.ty_of_ext(e)
        modes = ['filter'] if t == 'cond' else ['project', 'filter']
        if t == 'cond' and ctx.rng.random() < 0.4: modes.append('project')
        any_bad = False
        for mode in modes:
            dist['queries'] += 1
            try:
                bad = check_one(real, e, params, mode)
                any_bad = any_bad or bool(bad)
            except Exception as ex:
                name = type(ex).__name__
                dist['pony_raises'][name] = dist['pony_raises'].get(name, 0) + 1
                any_bad = True
                continue        # "a query Pony cannot translate raises an error instead of returning different rows"
            evals += len(real.rows); dist['rows_compared'] += len(real.rows)
            if not bad: nontriv.add((mode, L.src(e)))
            for row, got, want in bad:
                key = classify(e, row, params, mode)
                seen[key] = seen.get(key, 0) + 1
                if seen[key] <= max_per_key:
                    small = shrink(lambda rs: RealDb(rs), e, params, row, mode, key) if (deep or not key.startswith('unlisted')) else e
                    if small is not e:
                        one = RealDb([row]); b2 = check_one(one, small, params, mode)
                        if b2: row, got, want = b2[0]
                    failures.append(make_failure(small, params, row, mode, got, want, key))
        # DISTINCT: select(e for p in P) must be the set of Python values when every row agreed
        if t != 'cond' and not any_bad:
            try:
                got, distinct = real.pony_distinct(e, params)
                vals = []
                ok = True
                for i, row in real.rows.items():
                    if L.hazards(e, row, params): ok = False; break
                    vals.append(L.ref(e, row, params, False))
                if ok and L.ty_of_ext(e) in L.VT:
                    dist['distinct_checks'] += 1
                    want = set(vals) if distinct else None
                    if distinct and (len(got) != len(set(got)) or set(got) != want):
                        failures.append(Failure('unlisted:distinct', 'select(%s for p in P): DISTINCT result %r is not the set of Python values %r' % (L.src(e), sorted(got, key=repr)[:10], sorted(want, key=repr)[:10]),
                                                {'expr': L.to_json(e), 'params': {str(i): v for i, v in params.items()}, 'row': None, 'mode': 'distinct'}))
                    if not distinct and sorted(got, key=repr) != sorted(vals, key=repr):
                        failures.append(Failure('unlisted:bag', 'select(%s for p in P): result is not the list of Python values' % L.src(e),
                                                {'expr': L.to_json(e), 'params': {str(i): v for i, v in params.items()}, 'row': None, 'mode': 'distinct'}))
            except (L.RefError, Exception):
                pass
    return evals, failures, nontriv, dist


def replay_sqlite(data):
    e = L.from_json(data['expr'])
    params = {int(k): v for k, v in data['params'].items()}
    mode = data['mode']
    if mode == 'distinct' or data.get('row') is None: return None
    row = dict(data['row'])
    real = RealDb([row])
    try:
        bad = check_one(real, e, params, mode)
    except Exception as ex:
        return None
    if not bad: return None
    r, got, want = bad[0]
    return make_failure(e, params, r, mode, got, want, classify(e, r, params, mode))


# ---------------------------------------------------------------------------------------------- re-execution with a warm translator cache
# The SAME query text executed repeatedly on one Database with different values of the external variables that the translator folds into the
# SQL (string slice bounds: Query._get_translator pins them in fixed_param_values and must re-translate when they change). Every warm
# execution is compared with Python's evaluation over the rows.

REEXEC_FORMS = [
    ('(p.id, p.u[:x0]) for p in P', lambda r, x0, x1: r['u'][:x0], None),
    ('(p.id, p.u[x0:]) for p in P', lambda r, x0, x1: r['u'][x0:], None),
    ('(p.id, p.u[x0:x1]) for p in P', lambda r, x0, x1: r['u'][x0:x1], None),
    ('(p.id, p.u[x0]) for p in P if len(p.u) > 2', lambda r, x0, x1: r['u'][x0], lambda r, x0, x1: len(r['u']) > 2),
    ('(p.id, p.u) for p in P if p.u[x0:] == x2', lambda r, x0, x1: r['u'], lambda r, x0, x1: r['u'][x0:] == 'b'),
    ('(p.id, p.u[:x0] + p.u[x1:]) for p in P', lambda r, x0, x1: r['u'][:x0] + r['u'][x1:], None),
]
REEXEC_VALUES = [(1, 2), (2, 3), (0, 1), (1, 3), (2, 2), (0, 3)]
REEXEC_ROWS = [dict(r, u=u) for r, u in zip(L.standard_rows()[:5], ('abc', 'ab', 'abcb', 'bab', 'cab'))]


def reexec_run(form, values, real=None):
    """-> first (step, values, got, want) where a warm execution differs from Python, else None."""
    real = real or RealDb(REEXEC_ROWS)
    src, val, keep = REEXEC_FORMS[form]
    orm = real.orm
    for step, (x0, x1) in enumerate(values):
        with orm.db_session:
            got = sorted(orm.select(src, {'P': real.P, 'x0': x0, 'x1': x1, 'x2': 'b'}))
        want = sorted((i, val(r, x0, x1)) for i, r in real.rows.items() if keep is None or keep(r, x0, x1))
        if got != want: return step, (x0, x1), got, want
    return None


def reexec_failure(form, values, res):
    step, (x0, x1), got, want = res
    what = 'select(%s) executed %d times on one Database with x0, x1 = %s: execution %d (x0=%r, x1=%r) returns %r, Python evaluates %r' % (
        REEXEC_FORMS[form][0], len(values), list(values), step + 1, x0, x1, got[:4], want[:4])
    return Failure('unlisted:reexecution-with-changed-external-values', what, {'reexec': {'form': form, 'values': [list(v) for v in values]}})


def reexec_search(ctx):
    evals, failures = 0, []
    for form in range(len(REEXEC_FORMS)):
        values = list(REEXEC_VALUES)
        ctx.rng.shuffle(values)
        res = reexec_run(form, values)
        evals += len(values) * len(REEXEC_ROWS)
        if res is not None:
            # shrink to the two executions involved
            for a in range(res[0]):
                pair = [values[a], values[res[0]]]
                r2 = reexec_run(form, pair)
                if r2 is not None: values, res = pair, r2; break
            failures.append(reexec_failure(form, values, res))
    return evals, failures


def replay_reexec(d):
    values = [tuple(v) for v in d['values']]
    res = reexec_run(d['form'], values)
    return None if res is None else reexec_failure(d['form'], values, res)
