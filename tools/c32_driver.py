"""C32 implementation driver: every operation x object status x how the session ended x strict x context, on SQLite.

Runs in a fresh interpreter (vlib.run_impl) or in-process.  Input  {"cases": [case, ...]}  (or {"all": true}),
case = {"op", "status", "ending", "strict", "ctx"}.  Output: one observation per case:

    {"case":…, "setup": "ok" | "<why the scenario could not be built>",
     "result": ["exc", <class enum>, <message head>] | ["value", <canonical>],
     "db_changed": bool, "obj_changed": bool, "sql": [statements executed during the attempt],
     "before": <canonical visible object state>, "after": …}
"""
import json, sys, sqlite3

from pony import orm
from pony.orm import core

OPS = [
    # name, kind          kind: 'mut' = must be refused; 'read' = loaded value must stay readable;
    #                            'load' = needs the database -> must be refused
    ('attr_get_loaded', 'read'), ('attr_get_ref', 'read'), ('attr_get_lazy_unloaded', 'load'), ('attr_get_pk', 'read'),
    ('attr_set', 'mut'), ('attr_set_same', 'mut'), ('attr_set_ref', 'mut'), ('attr_set_unique', 'mut'),
    ('json_item_set', 'mut'),
    ('set_assign', 'mut'), ('set_add', 'mut'), ('set_remove', 'mut'), ('set_clear', 'mut'), ('set_create', 'mut'),
    ('set_iadd', 'mut'), ('set_isub', 'mut'),
    ('m2m_add', 'mut'), ('m2m_remove', 'mut'), ('m2m_clear', 'mut'),
    ('set_is_empty', 'collread'), ('set_count', 'collread'), ('set_len', 'collread'), ('set_bool', 'collread'),
    ('set_contains', 'collread'), ('set_iter', 'collread'), ('set_copy', 'collread'),
    ('m2m_is_empty', 'collread'), ('m2m_count', 'collread'), ('m2m_contains', 'collread'), ('m2m_iter', 'collread'),
    ('set_load', 'load'),
    ('obj_load', 'load'), ('obj_load_attr', 'load'),
    ('obj_delete', 'mut'), ('obj_set', 'mut'), ('obj_set_empty', 'mut'), ('obj_flush', 'mut'),
    ('to_dict', 'read'), ('to_dict_collections', 'collread'),
]
OP_KIND = dict(OPS)
# object status when the session ends (coll = whether the collections of the object were loaded in that session)
STATUSES = ['loaded', 'loaded_coll', 'loaded_partial', 'created', 'created_noconn', 'inserted', 'modified', 'modified_json', 'updated',
            'marked_to_delete', 'deleted', 'cancelled']
ENDINGS = ['commit', 'rollback', 'exception', 'commit_failed']
CTXS = ['outside', 'new_session']


def make_db():
    db = orm.Database('sqlite', ':memory:')
    class G(db.Entity):
        id = orm.PrimaryKey(int)
        name = orm.Required(str)
        code = orm.Optional(int, unique=True)
        note = orm.Optional(str, lazy=True)
        data = orm.Optional(orm.Json)
        boss = orm.Optional('S', reverse='boss_of')
        items = orm.Set('S', reverse='g')
        tags = orm.Set('T')
    class S(db.Entity):
        id = orm.PrimaryKey(int)
        name = orm.Required(str)
        g = orm.Optional(G, reverse='items')
        boss_of = orm.Optional(G, reverse='boss')
    class T(db.Entity):
        id = orm.PrimaryKey(int)
        name = orm.Required(str)
        code = orm.Optional(int, unique=True)
        gs = orm.Set(G)
    class T2(T):        # T is polymorphic: Set.copy of g.tags goes through T._load_many_
        pass
    db.generate_mapping(create_tables=True)
    return db


DB = None

def get_db():
    global DB
    if DB is None: DB = make_db()
    return DB


def reset(db):
    with orm.db_session:
        for t in ('g_t', 's', 't', 'g'):
            db.execute('delete from %s' % t)
        G, S, T = db.G, db.S, db.T
        g1 = G(id=1, name='g1', code=11, note='n1', data={'k': 1})
        g2 = G(id=2, name='g2', code=12, note='n2', data={'k': 2})
        s1 = S(id=1, name='s1', g=g1); s2 = S(id=2, name='s2', g=g1); s3 = S(id=3, name='s3')
        g1.boss = s3
        t1 = T(id=1, name='t1', code=7); t2 = T(id=2, name='t2', code=8)
        g1.tags.add(t1)


def snapshot(db):
    with orm.db_session:
        out = {}
        for t in ('g', 's', 't', 'g_t'):
            out[t] = sorted(map(list, db.select('select * from %s' % t)), key=repr)
        return out


def canon(v):
    if isinstance(v, core.Entity): return '%s#%r' % (type(v).__name__, v._pkval_ if v._pkval_ is not None else 'new')
    if isinstance(v, (set, frozenset, list, tuple)): return sorted((canon(x) for x in v), key=repr)
    if isinstance(v, dict): return {str(k): canon(x) for k, x in sorted(v.items(), key=lambda kv: str(kv[0]))}
    if isinstance(v, core.SetInstance): return 'SetInstance'
    if isinstance(v, (int, str, bool, type(None))): return v
    if hasattr(v, 'get_untracked'): return canon(v.get_untracked())
    return repr(type(v).__name__)


def obj_state(obj):
    """Visible snapshot of a (possibly detached) object, read without going through descriptors."""
    vals = obj._vals_
    if vals is None: return {'status': obj._status_, 'vals': None}
    d = {}
    for attr, v in vals.items():
        if attr.is_collection:
            if v is None: continue
            else:
                # an empty, not fully loaded SetData without counters carries no information: same as unloaded
                if not v and not v.is_fully_loaded and v.count is None and not v.added and not v.removed: continue
                else: d[attr.name] = {'items': canon(set(v)), 'full': bool(v.is_fully_loaded), 'count': v.count}
        else: d[attr.name] = canon(v)
    return {'status': obj._status_, 'vals': d}


def raw_state(obj):
    """State of the object as SessionCache.close sees it (Model/C32Close.v): every _vals_ entry, collections as (items, full)."""
    vals = obj._vals_
    d = None
    if vals is not None:
        d = {}
        for attr, v in vals.items():
            if attr.is_collection:
                if v is None: continue
                d[attr.name] = {'items': canon(set(v)), 'full': bool(v.is_fully_loaded)}
            else: d[attr.name] = {'scalar': canon(v)}
    return {'cls': type(obj).__name__, 'vals': d, 'has_db': obj._dbvals_ is not None, 'cache': obj._session_cache_ is not None}


CLOSES = []
_orig_close = core.SessionCache.close

def _recording_close(cache, rollback=True):
    objs = sorted(cache.objects, key=lambda o: (type(o).__name__, repr(o._pkval_))) if cache.objects is not None else []
    CLOSES.append({'connected': cache.connection is not None, 'objs': objs, 'pre': [raw_state(o) for o in objs]})
    return _orig_close(cache, rollback)

core.SessionCache.close = _recording_close       # observation only (in this driver process, not in /repo)


EXC = ['DatabaseSessionIsOver', 'OperationWithDeletedObjectError', 'TransactionError', 'AssertionError', 'AttributeError',
       'TypeError', 'KeyError', 'ConstraintError', 'UnrepeatableReadError', 'CacheIndexError', 'TransactionIntegrityError',
       'CommitException', 'OptimisticCheckError', 'ValueError', 'NotImplementedError']

def exc_enum(e):
    n = type(e).__name__
    return n if n in EXC else 'Other:' + n


class Boom(Exception): pass


def build(db, status, ending, strict):
    """Run the first session; return (objects dict, why-not) after it is over."""
    G, S, T = db.G, db.S, db.T
    keep = {}
    def body():
        noconn = status == 'created_noconn'
        if not noconn:
            # operands first: every query below this block would flush pending changes and alter the status under test
            keep['s3'] = S[3]; keep['s2'] = S[2]; keep['t1'] = T[1]; keep['t2'] = T[2]
            keep['t2'].name; keep['s3'].name; keep['s2'].name; keep['t1'].name
        if status in ('loaded', 'loaded_coll', 'loaded_partial', 'modified', 'modified_json', 'updated', 'marked_to_delete', 'deleted'):
            g = G[1]; s = S[1]
            g.name; s.name; s.g; s.boss_of
            if status == 'loaded_coll':
                list(g.items); list(g.tags); g.boss
            if status == 'loaded_partial':
                keep['s2'] in g.items; keep['t1'] in g.tags        # partially loaded collections
            if status == 'modified_json':       # the Json attribute itself was changed in place (twice) in the session: its bit is set in _wbits_
                s.name = 's1-mod'; g.data['k'] = 2; g.data['k'] = 3
            if status in ('modified', 'updated'):
                g.name = 'g1-mod'; s.name = 's1-mod'
                if status == 'updated': orm.flush()
            if status in ('marked_to_delete', 'deleted'):
                g.boss = None
                for x in list(g.items): x.g = None
                g.tags.clear()
                g.delete(); s.delete()
                if status == 'deleted': orm.flush()
        elif status in ('created', 'inserted', 'cancelled', 'created_noconn'):
            g = G(id=5, name='g5', code=15, note='n5', data={'k': 5})
            s = S(id=5, name='s5', g=g)
            t = T(id=5, name='t5'); g.tags.add(t)
            if noconn:
                keep['s3'] = S(id=6, name='s6'); keep['s2'] = s; keep['t1'] = t; keep['t2'] = T(id=6, name='t6')
            if status == 'inserted': orm.flush()
            if status == 'cancelled':
                g.tags.clear(); s.delete(); g.delete(); t.delete()
        else: raise ValueError(status)
        keep['g'] = g; keep['s'] = s
        if ending == 'rollback': orm.rollback()
        elif ending == 'exception': raise Boom()
        elif ending == 'commit_failed':
            T(id=9, name='dup', code=7 if status not in ('marked_to_delete', 'deleted') else 8)   # unique violation at commit
    del CLOSES[:]
    try:
        with orm.db_session(strict=strict):
            body()
    except Boom:
        if ending != 'exception': return None, 'unexpected Boom'
    except Exception as e:
        if ending != 'commit_failed': return None, 'scenario raised %s: %s' % (type(e).__name__, str(e)[:120])
    else:
        if ending == 'commit_failed': return None, 'commit did not fail'
        if ending == 'exception': return None, 'exception swallowed'
    keep['_close'] = [{'connected': c['connected'], 'strict': strict,
                       'objects': [{'pre': pre, 'post': raw_state(o)} for o, pre in zip(c['objs'], c['pre'])]} for c in CLOSES]
    del CLOSES[:]
    return keep, 'ok'


def perform(db, op, o):
    G, S, T = db.G, db.S, db.T
    g, s, s2, s3, t1, t2 = o['g'], o['s'], o['s2'], o['s3'], o['t1'], o['t2']
    if op == 'attr_get_loaded': return s.name
    if op == 'attr_get_ref': return s.g
    if op == 'attr_get_lazy_unloaded': return g.note
    if op == 'attr_get_pk': return s.id
    if op == 'attr_set': s.name = 'changed'; return None
    if op == 'attr_set_same': s.name = s._vals_[S.name] if s._vals_ else 's1'; return None
    if op == 'attr_set_ref': s.g = None; return None
    if op == 'attr_set_unique': g.code = 99; return None
    if op == 'json_item_set': g.data['k'] = 42; return None
    if op == 'set_assign': g.items = [s3]; return None
    if op == 'set_add': g.items.add(s3); return None
    if op == 'set_remove': g.items.remove(s2); return None
    if op == 'set_clear': g.items.clear(); return None
    if op == 'set_create': g.items.create(id=77, name='s77'); return None
    if op == 'set_iadd': g.items += [s3]; return None
    if op == 'set_isub': g.items -= [s2]; return None
    if op == 'm2m_add': g.tags.add(t2); return None
    if op == 'm2m_remove': g.tags.remove(t1); return None
    if op == 'm2m_clear': g.tags.clear(); return None
    if op == 'set_is_empty': return g.items.is_empty()
    if op == 'set_count': return g.items.count()
    if op == 'set_len': return len(g.items)
    if op == 'set_bool': return bool(g.items)
    if op == 'set_contains': return s2 in g.items
    if op == 'set_iter': return sorted(x.id for x in g.items)
    if op == 'set_copy': return g.items.copy()
    if op == 'm2m_is_empty': return g.tags.is_empty()
    if op == 'm2m_count': return g.tags.count()
    if op == 'm2m_contains': return t1 in g.tags
    if op == 'm2m_iter': return sorted(x.id for x in g.tags)
    if op == 'set_load': g.items.load(); return None
    if op == 'obj_load': g.load(); return None
    if op == 'obj_load_attr': g.load('note'); return None
    if op == 'obj_delete': s.delete(); return None
    if op == 'obj_set': s.set(name='changed'); return None
    if op == 'obj_set_empty': s.set(); return None
    if op == 'obj_flush': s.flush(); return None
    if op == 'to_dict': return s.to_dict()
    if op == 'to_dict_collections': return g.to_dict(with_collections=True)
    raise ValueError(op)


def run_case(case):
    db = get_db()
    reset(db)
    objs, why = build(db, case['status'], case['ending'], bool(case['strict']))
    out = {'case': case, 'setup': why}
    if objs is None: return out
    watched = [objs['g'], objs['s'], objs['s2'], objs['s3'], objs['t1'], objs['t2']]
    before_db = snapshot(db)
    before = [obj_state(x) for x in watched]
    sql = []
    def attempt():
        con = db.provider.pool.con if getattr(db.provider.pool, 'con', None) is not None else None
        try:
            v = perform(db, case['op'], objs)
            return ['value', canon(v)]
        except Exception as e:
            return ['exc', exc_enum(e), str(e)[:100]]
        except AssertionError as e:
            return ['exc', 'AssertionError', str(e)[:100]]
    con = getattr(db.provider.pool, 'con', None)
    if con is not None: con.set_trace_callback(lambda stmt: sql.append(stmt))
    try:
        if case['ctx'] == 'outside':
            res = attempt()
        else:
            try:
                with orm.db_session:
                    res = attempt()
            except Exception as e:
                res = res + ['exit-raised', exc_enum(e)]
    finally:
        if con is not None: con.set_trace_callback(None)
    after = [obj_state(x) for x in watched]
    after_db = snapshot(db)
    out.update({'close': objs['_close'], 'result': res, 'db_changed': before_db != after_db, 'obj_changed': before != after,
                'sql': [x for x in sql if not x.upper().startswith(('BEGIN', 'COMMIT', 'ROLLBACK'))][:6],
                'before': before[0] if case['op'] not in ('attr_get_loaded', 'attr_get_ref', 'attr_get_pk', 'attr_set', 'attr_set_same',
                                                          'attr_set_ref', 'obj_delete', 'obj_set', 'obj_set_empty', 'obj_flush', 'to_dict') else before[1],
                'changed_objects': [i for i in range(len(watched)) if before[i] != after[i]]})
    if before != after:
        i = out['changed_objects'][0]
        out['change'] = [before[i], after[i]]
    return out


def all_cases():
    for op, _ in OPS:
        for st in STATUSES:
            for en in ENDINGS:
                for strict in (False, True):
                    for ctx in CTXS:
                        yield {'op': op, 'status': st, 'ending': en, 'strict': strict, 'ctx': ctx}


def main():
    payload = json.load(sys.stdin)
    cases = list(all_cases()) if payload.get('all') else payload['cases']
    out = [run_case(c) for c in cases]
    sys.stdout.write('\n@@JSON@@' + json.dumps(out))


if __name__ == '__main__':
    main()
