"""C24 implementation driver: a small language of query-method chains, executed on the real Pony + in-memory SQLite,
with the property oracle = "the corresponding Python operation on R = list(q)" evaluated step by step.

A chain (JSON-able):
    {"data": <dataset name>, "base": "ent"|"a"|"name"|"pair", "where": <pred name>|None,
     "ops": [[op, arg...], ...], "term": [terminal, arg...]}
ops:        ["order", <order name>]  ["filter", <pred>]  ["where", <pred>]  ["kw", <kwpred>]  ["distinct"]  ["without_distinct"]
            ["nest", limit, offset, <pred>|None, <proj>|None]        select(x for x in q.limit(limit, offset) [if pred(x)])
            ["nestpage", pagenum, pagesize]                           select(x for x in q.page(n, size))
terminals:  ["list"] ["slice", a, b] ["limit", l, o] ["page", n, size] ["first"] ["get"] ["exists"] ["count"] ["len"]
            ["sum"] ["min"] ["max"] ["avg"] ["group_concat"] ["random", n] ["delete", bulk]

check_chain(chain) executes the chain and returns a list of Mismatch(step, cls, detail): every step is judged against the
real result of the previous query.  Exceptions of the implementation are mapped to their class name.
"""
import itertools, json

DATASETS = {
    'empty': [],
    'one': [('a', 1, None)],
    'dups': [('b', 3, None), ('a', 1, 5), ('a', 2, 5), ('c', 1, None), ('b', 7, 2)],
    'uniq': [('d', 4, 1), ('a', 9, 2), ('c', 2, 3), ('b', 6, None), ('e', 0, 5), ('f', 5, 6)],
    'same': [('a', 2, 1), ('a', 2, 1), ('a', 2, 1)],
    'seven': [('c', 3, 1), ('a', 3, 2), ('b', 1, 3), ('c', 2, 4), ('a', 1, 5), ('b', 2, 6), ('a', 3, 7)],
}

_dbs = {}

def get_db(name):
    if name in _dbs: return _dbs[name]
    from pony import orm
    db = orm.Database('sqlite', ':memory:')
    class P(db.Entity):
        name = orm.Required(str)
        a = orm.Required(int)
        b = orm.Optional(int)
    db.generate_mapping(create_tables=True)
    with orm.db_session:
        for n, a, b in DATASETS[name]: P(name=n, a=a, b=b)
    _dbs[name] = (db, P)
    return _dbs[name]


# ---------------------------------------------------------------------------------------------- vocabulary

BASES = {'ent': 'p for p in P', 'a': 'p.a for p in P', 'name': 'p.name for p in P', 'pair': '(p.name, p.a) for p in P'}
FIELDS = {'ent': ('name', 'a', 'id'), 'a': ('a',), 'name': ('name',), 'pair': ('name', 'a')}

def field(kind, item, f):
    if kind == 'ent': return getattr(item, f)
    if kind == 'pair': return item[('name', 'a').index(f)]
    return item

#            name: (field, python predicate on the field value, source template with {v} = the expression for the field)
PREDS = {
    'a>1': ('a', lambda v: v > 1, '{v} > 1'),
    'a<=2': ('a', lambda v: v <= 2, '{v} <= 2'),
    'a>100': ('a', lambda v: v > 100, '{v} > 100'),
    'a!=3': ('a', lambda v: v != 3, '{v} != 3'),
    'name!=b': ('name', lambda v: v != 'b', "{v} != 'b'"),
    'name>a': ('name', lambda v: v > 'a', "{v} > 'a'"),
}
KWPREDS = {'a=1': ('a', 1), 'a=2': ('a', 2), 'name=a': ('name', 'a')}

#            name: [(field, descending)]
ORDERS = {
    'a': [('a', False)], '-a': [('a', True)], 'name': [('name', False)], '-name': [('name', True)], 'id': [('id', False)],
    'name,id': [('name', False), ('id', False)], '-a,id': [('a', True), ('id', False)], 'a,-name': [('a', False), ('name', True)],
    'lambda a': [('a', False)], 'lambda -a': [('a', True)], 'lambda name': [('name', False)],
}

def pred_fn(kind, pname):
    f, fn, _ = PREDS[pname]
    return lambda item: fn(field(kind, item, f))

def applicable(kind, f):
    return f in FIELDS[kind]

def expr_for(kind, var, f):
    """source text of field f of loop variable var of an item of this kind"""
    if kind == 'ent': return '%s.%s' % (var, f)
    if kind == 'pair': return {'name': var + '_n', 'a': var + '_a'}[f]
    return var

def lambda_src(kind, body_of):
    if kind == 'pair': return 'lambda x_n, x_a: ' + body_of('x')
    return 'lambda x: ' + body_of('x')



# ---------------------------------------------------------------------------------------------- helper-built steps
# Steps of the kind applications write: one lambda per helper, the value is captured from the call.  Applying a helper twice gives
# two chained steps that share ONE code object and differ only in the captured value.

def _hf_ent_gt(q, n): return q.filter(lambda x: x.a > n)
def _hf_ent_ne(q, n): return q.filter(lambda x: x.a != n)
def _hf_val_gt(q, n): return q.filter(lambda x: x > n)
def _hf_val_ne(q, n): return q.filter(lambda x: x != n)
def _hf_pair_gt(q, n): return q.filter(lambda x_n, x_a: x_a > n)
def _hf_pair_ne(q, n): return q.filter(lambda x_n, x_a: x_a != n)
def _hw_p_gt(q, n): return q.where(lambda p: p.a > n)
def _hw_p_ne(q, n): return q.where(lambda p: p.a != n)
def _hw_x_ent_gt(q, n): return q.where(lambda x: x.a > n)
def _hw_x_ent_ne(q, n): return q.where(lambda x: x.a != n)
def _hw_x_val_gt(q, n): return q.where(lambda x: x > n)
def _hw_x_val_ne(q, n): return q.where(lambda x: x != n)
def _ho_ent(q, k): return q.order_by(lambda x: x.a * k)
def _ho_val(q, k): return q.order_by(lambda x: x * k)

HPRED = {'gt': lambda n: (lambda v: v > n), 'ne': lambda n: (lambda v: v != n)}


def apply_helper(st, op):
    """['hfilter'|'hwhere', 'gt'|'ne', n]  /  ['horder', k]   (k = 1 | -1) -> (query, expectation)"""
    kind, name = st.kind, op[0]
    if not applicable(kind, 'a'): raise Unsupported(name)
    if name == 'horder':
        if kind == 'pair': raise Unsupported(name)
        q = (_ho_ent if kind == 'ent' else _ho_val)(st.q, op[1])
        return q, ('order', [('a', op[1] < 0)])
    which, n = op[1], op[2]
    if name == 'hfilter':
        fn = {('ent', 'gt'): _hf_ent_gt, ('ent', 'ne'): _hf_ent_ne, ('a', 'gt'): _hf_val_gt, ('a', 'ne'): _hf_val_ne,
              ('pair', 'gt'): _hf_pair_gt, ('pair', 'ne'): _hf_pair_ne}[(kind, which)]
    else:
        if st.var == 'p': fn = {'gt': _hw_p_gt, 'ne': _hw_p_ne}[which]
        elif st.varkind == 'ent': fn = {'gt': _hw_x_ent_gt, 'ne': _hw_x_ent_ne}[which]
        elif st.varkind == 'a': fn = {'gt': _hw_x_val_gt, 'ne': _hw_x_val_ne}[which]
        else: raise Unsupported(name)
    pv = HPRED[which](n)
    return fn(st.q, n), ('filter', lambda item: pv(field(kind, item, 'a')))


class Unsupported(Exception):
    """the chain is not expressible for this item kind (generator error, not a finding)"""


def canon(kind, item):
    if item is None: return None
    if kind == 'ent': return ['P', item.id]
    if kind == 'pair': return list(item)
    return item

def canon_list(kind, items):
    return [canon(kind, x) for x in items]

def exc_name(e):
    return 'EXC:' + type(e).__name__


class State(object):
    """a real query plus what the oracle needs to know about it"""
    def __init__(self, q, kind, var, ordered, src_desc):
        self.q = q; self.kind = kind; self.var = var; self.ordered = ordered; self.desc = src_desc
        self.explicit_distinct = None
        self.nested = False
        self.varkind = kind          # kind of the query's loop variable (differs from kind after a projecting nest)
        self.history = []            # names of the ops applied so far


def build_base(P, chain):
    from pony import orm
    kind = chain['base']
    src = BASES[kind]
    if chain.get('where'):
        f, _, tmpl = PREDS[chain['where']]
        src += ' if ' + tmpl.format(v='p.' + f)
    q = orm.select(src, {'P': P})
    return State(q, kind, 'p', False, 'select(%s)' % src)


def sort_key(kind, order):
    def key(item):
        out = []
        for f, desc in order:
            v = field(kind, item, f)
            out.append(v)
        return out
    return key

def is_sorted(kind, items, order):
    """non-strict lexicographic sortedness with per-term direction"""
    def cmp(x, y):
        for f, desc in order:
            vx, vy = field(kind, x, f), field(kind, y, f)
            if vx == vy: continue
            return (vx < vy) != desc
        return True
    return all(cmp(items[i], items[i + 1]) for i in range(len(items) - 1))


def multiset(kind, items):
    return sorted(json.dumps(canon(kind, x), sort_keys=True) for x in items)


class Mismatch(object):
    def __init__(self, step, cls, detail, st=None, op=None):
        self.step = step; self.cls = cls; self.detail = detail
        self.op = op                  # the op / terminal (list) that was judged
        self.info = None if st is None else {'kind': st.kind, 'ordered': st.ordered, 'explicit': st.explicit_distinct,
                                            'nested': st.nested, 'history': list(st.history)}
    def __repr__(self): return 'Mismatch(%s, %s, %s)' % (self.step, self.cls, self.detail)


def apply_op(P, st, op):
    """returns (new State, python expectation function R -> ('list'|'multiset'|'set+..', value) or None)"""
    from pony import orm
    global desc
    from pony.orm import desc          # string lambdas are evaluated in this frame's globals/locals: keep `desc` = pony's desc
    kind = st.kind
    name = op[0]
    if name == 'order':
        oname = op[1]
        order = ORDERS[oname]
        for f, _ in order:
            if not applicable(kind, f): raise Unsupported(oname)
        if oname.startswith('lambda'):
            f, dsc = order[0]
            body = lambda v: ('desc(%s)' if dsc else '%s') % expr_for(kind, v, f)
            if kind == 'ent': q = st.q.order_by('lambda x: ' + body('x'))
            else: q = st.q.order_by(lambda_src(kind, body))
        elif kind == 'ent':
            args = [orm.desc(getattr(P, f)) if dsc else getattr(P, f) for f, dsc in order]
            q = st.q.order_by(*args)
        else:
            nums = []
            for f, dsc in order:
                i = FIELDS[kind].index(f) + 1
                nums.append(-i if dsc else i)
            q = st.q.order_by(*nums)
        new = State(q, kind, st.var, True, st.desc + '.order_by(%s)' % oname)
        new.explicit_distinct = st.explicit_distinct; new.nested = st.nested
        return new, ('order', order)
    if name in ('filter', 'where'):
        f, fn, tmpl = PREDS[op[1]]
        if not applicable(kind, f): raise Unsupported(op[1])
        if name == 'filter':
            if kind == 'ent': src = 'lambda x: ' + tmpl.format(v='x.' + f)
            else: src = lambda_src(kind, lambda v: tmpl.format(v=expr_for(kind, v, f)))
            q = st.q.filter(src)
        else:
            # where(): original names of the query
            if st.var == 'p': src = tmpl.format(v='p.' + f)
            else: src = tmpl.format(v=expr_for(st.varkind, 'x', f))
            q = st.q.where(src)
        new = State(q, kind, st.var, st.ordered, st.desc + '.%s(%s)' % (name, op[1]))
        new.explicit_distinct = st.explicit_distinct; new.nested = st.nested
        return new, ('filter', pred_fn(kind, op[1]))
    if name in ('hfilter', 'hwhere', 'horder'):
        q, exp = apply_helper(st, op)
        new = State(q, kind, st.var, True if name == 'horder' else st.ordered, st.desc + '.%s(%s)' % (name, ', '.join(map(str, op[1:]))))
        new.explicit_distinct = st.explicit_distinct; new.nested = st.nested
        return new, exp
    if name == 'kw':
        f, val = KWPREDS[op[1]]
        if kind != 'ent': raise Unsupported('kw')
        q = st.q.filter(**{f: val})
        new = State(q, kind, st.var, st.ordered, st.desc + '.filter(%s)' % op[1])
        new.explicit_distinct = st.explicit_distinct; new.nested = st.nested
        return new, ('filter', lambda item: getattr(item, f) == val)
    if name in ('distinct', 'without_distinct'):
        q = st.q.distinct() if name == 'distinct' else st.q.without_distinct()
        new = State(q, kind, st.var, st.ordered, st.desc + '.%s()' % name)
        new.explicit_distinct = (name == 'distinct'); new.nested = st.nested
        return new, (name,)
    if name in ('nest', 'nestpage'):
        if name == 'nest':
            limit, offset, pname, proj = op[1], op[2], op[3], op[4]
            qr = st.q.limit(limit, offset)
            lo = 0 if offset is None else offset
            window = lambda R: R[lo:] if limit is None else R[lo:lo + limit]
            label = 'limit(%s, %s)' % (limit, offset)
        else:
            n, size = op[1], op[2]
            pname, proj = None, None
            qr = st.q.page(n, size)
            window = lambda R: R[(n - 1) * size: n * size]
            label = 'page(%s, %s)' % (n, size)
        if kind == 'pair': target, elt = 'x_n, x_a', '(x_n, x_a)'
        else: target, elt = 'x', 'x'
        newkind = kind
        if proj:
            if kind != 'ent': raise Unsupported('proj')
            elt = 'x.' + proj; newkind = {'a': 'a', 'name': 'name'}[proj]
        src = '%s for %s in QR' % (elt, target)
        pf = None
        if pname:
            f, fn, tmpl = PREDS[pname]
            if not applicable(kind, f): raise Unsupported(pname)
            src += ' if ' + tmpl.format(v=expr_for(kind, 'x', f))
            pf = pred_fn(kind, pname)
        q = orm.select(src, {'QR': qr})
        new = State(q, newkind, 'x', st.ordered, 'select(%s | QR = %s.%s)' % (src, st.desc, label))
        new.nested = True
        new.varkind = kind
        return new, ('nest', window, pf, (lambda it: getattr(it, proj)) if proj else None, kind)
    raise ValueError(op)


def judge_op(st_prev, R_prev, st_new, R_new, exp):
    """compare list(q') with the Python operation on R = list(q). returns (ok, class-suffix, expected-canonical)"""
    kind, nk = st_prev.kind, st_new.kind
    tag = exp[0]
    if tag == 'order':
        order = exp[1]
        if multiset(nk, R_new) != multiset(kind, R_prev):
            return False, 'not-a-permutation', sorted(multiset(kind, R_prev))
        if not is_sorted(nk, R_new, order):
            return False, 'not-sorted', None
        return True, '', None
    if tag == 'filter':
        want = [x for x in R_prev if exp[1](x)]
        if st_prev.ordered:
            return canon_list(nk, R_new) == canon_list(kind, want), 'wrong-rows', canon_list(kind, want)
        return multiset(nk, R_new) == multiset(kind, want), 'wrong-rows', canon_list(kind, want)
    if tag == 'distinct':
        seen, want = set(), []
        for x in R_prev:
            k = json.dumps(canon(kind, x))
            if k not in seen: seen.add(k); want.append(x)
        if st_prev.ordered:
            return canon_list(nk, R_new) == canon_list(kind, want), 'wrong-rows', canon_list(kind, want)
        return multiset(nk, R_new) == multiset(kind, want), 'wrong-rows', canon_list(kind, want)
    if tag == 'without_distinct':
        # cannot be computed from R alone: same set of rows, at least as many
        ok = set(multiset(nk, R_new)) == set(multiset(kind, R_prev)) and len(R_new) >= len(R_prev)
        return ok, 'wrong-rows', None
    if tag == 'nest':
        window, pf, proj, pkind = exp[1], exp[2], exp[3], exp[4]
        want = window(list(R_prev))
        if pf: want = [x for x in want if pf(x)]
        if proj: want = [proj(x) for x in want]
        if st_prev.ordered:
            return canon_list(nk, R_new) == canon_list(nk, want), 'wrong-rows', canon_list(nk, want)
        # an unordered limited subquery: any window of the right size would do; judge the size and membership only
        ok = len(R_new) == len(want) and set(multiset(nk, R_new)) <= set(multiset(nk, [proj(x) for x in R_prev] if proj else R_prev))
        return ok, 'wrong-rows', canon_list(nk, want)
    raise ValueError(tag)


def run_list(q):
    try:
        return list(q), None
    except Exception as e:
        return None, exc_name(e)


def py_terminal(kind, R, term):
    """the Python operation on R; returns a canonical value"""
    t = term[0]
    if t in ('list', 'len'): return canon_list(kind, R) if t == 'list' else len(R)
    if t == 'slice': return canon_list(kind, R[term[1]:term[2]])
    if t == 'limit':
        l, o = term[1], term[2]
        lo = 0 if o is None else o
        return canon_list(kind, R[lo:] if l is None else R[lo:lo + l])
    if t == 'page': return canon_list(kind, R[(term[1] - 1) * term[2]: term[1] * term[2]])
    if t == 'first': return canon(kind, R[0]) if R else None
    if t == 'get':
        if not R: return None
        if len(R) > 1: return 'EXC:MultipleObjectsFoundError'
        return canon(kind, R[0])
    if t == 'exists': return bool(R)
    if t == 'count': return len(R)
    if t == 'sum': return sum(R)
    if t == 'min': return min(R) if R else None
    if t == 'max': return max(R) if R else None
    if t == 'avg': return [sum(R), len(R)] if R else None          # exact: compared as a fraction
    if t == 'group_concat': return ','.join(str(x) for x in R) if R else None
    raise ValueError(t)


def real_terminal(st, term):
    kind, q = st.kind, st.q
    t = term[0]
    try:
        if t == 'list': return canon_list(kind, list(q))
        if t == 'len': return len(q)
        if t == 'slice': return canon_list(kind, q[term[1]:term[2]])
        if t == 'limit': return canon_list(kind, list(q.limit(term[1], term[2])))
        if t == 'page': return canon_list(kind, list(q.page(term[1], term[2])))
        if t == 'first': return canon(kind, q.first())
        if t == 'get': return canon(kind, q.get())
        if t == 'exists': return q.exists()
        if t == 'count': return q.count()
        if t == 'sum': return q.sum()
        if t == 'min': return q.min()
        if t == 'max': return q.max()
        if t == 'avg':
            v = q.avg()
            return v if v is None else ['float', v]
        if t == 'group_concat': return q.group_concat()
    except Exception as e:
        return exc_name(e)
    raise ValueError(t)


def terminal_applicable(kind, term):
    t = term[0]
    if t in ('sum', 'avg'): return kind == 'a'
    if t in ('min', 'max', 'group_concat'): return kind in ('a', 'name')
    if t == 'delete': return kind == 'ent'
    return True


def check_chain(chain, want_trace=False):
    """Execute the chain. Returns (mismatches, trace). Raises Unsupported for chains outside the vocabulary."""
    from pony import orm
    db, P = get_db(chain['data'])
    mism, trace = [], []
    with orm.db_session:
        try:
            st = build_base(P, chain)
            R, err = run_list(st.q)
            if err:
                mism.append(Mismatch('base', 'base:' + err, st.desc)); return mism, trace
            # ground truth for the base query: the Python comprehension over all objects
            allp = sorted(P.select()[:], key=lambda p: p.id)
            kind = st.kind
            proj = {'ent': lambda p: p, 'a': lambda p: p.a, 'name': lambda p: p.name, 'pair': lambda p: (p.name, p.a)}[kind]
            keep = (lambda p: True) if not chain.get('where') else (lambda p: PREDS[chain['where']][1](getattr(p, PREDS[chain['where']][0])))
            truth = [proj(p) for p in allp if keep(p)]
            if kind != 'ent':      # Pony's documented automatic DISTINCT for attribute projections
                truth_ms = sorted(set(multiset(kind, truth)))
            else:
                truth_ms = multiset(kind, truth)
            if multiset(kind, R) != truth_ms:
                mism.append(Mismatch('base', 'base:wrong-rows', {'got': canon_list(kind, R), 'want_multiset': truth_ms}))
            trace.append({'query': st.desc, 'R': canon_list(kind, R)})
            for i, op in enumerate(chain.get('ops', [])):
                try:
                    new, exp = apply_op(P, st, op)
                except Unsupported:
                    raise
                except Exception as e:          # the implementation refused / crashed while building the query
                    mism.append(Mismatch(i, '%s:%s' % (op_class(st, op), exc_name(e)), {'query': st.desc, 'op': op, 'error': str(e)[:200]}, st, op)); return mism, trace
                if op[0] not in ('nest', 'nestpage'): new.varkind = st.varkind
                new.history = st.history + [op[0]]
                Rn, err = run_list(new.q)
                if err:
                    mism.append(Mismatch(i, '%s:%s' % (op_class(st, op), err), new.desc, st, op)); return mism, trace
                ok, suffix, want = judge_op(st, R, new, Rn, exp)
                trace.append({'query': new.desc, 'R': canon_list(new.kind, Rn)})
                if not ok:
                    mism.append(Mismatch(i, '%s:%s' % (op_class(st, op), suffix),
                                         {'query': new.desc, 'got': canon_list(new.kind, Rn), 'want': want, 'R_before': canon_list(st.kind, R)}, st, op))
                st, R = new, Rn
            term = chain.get('term')
            if term:
                if not terminal_applicable(st.kind, term): raise Unsupported(term[0])
                m = judge_terminal(P, st, R, term)
                if m: mism.append(m)
        finally:
            orm.rollback()
    return mism, trace


def qclass(st):
    """coarse description of the query a method is applied to (part of the finding key)"""
    parts = [st.kind]
    parts.append('ordered' if st.ordered else 'unordered')
    if st.explicit_distinct is True: parts.append('distinct()')
    if st.explicit_distinct is False: parts.append('without_distinct()')
    if st.nested: parts.append('over-limited-subquery')
    return '/'.join(parts)


def op_class(st, op):
    name = op[0]
    if name == 'nest':
        extra = []
        if op[3]: extra.append('if')
        if op[4]: extra.append('proj')
        name = 'nest' + ('+' + '+'.join(extra) if extra else '')
    if name == 'kw': name = 'filter'
    return '%s@%s' % (name, qclass(st))


def judge_terminal(P, st, R, term):
    from pony import orm
    kind = st.kind
    t = term[0]
    cls = '%s@%s' % (t, qclass(st))
    if t == 'random':
        n = term[1]
        try:
            got = list(st.q.random(n))
        except Exception as e:
            return Mismatch('term', cls + ':' + exc_name(e), st.desc, st, term)
        ms_all = multiset(kind, R)
        ms_got = multiset(kind, got)
        pool = list(ms_all)
        ok = len(got) == min(n, len(R))
        for x in ms_got:
            if x in pool: pool.remove(x)
            else: ok = False
        if not ok:
            return Mismatch('term', cls + ':not-a-sample', {'query': st.desc, 'n': n, 'got': canon_list(kind, got), 'R': canon_list(kind, R)}, st, term)
        return None
    if t == 'delete':
        bulk = term[1]
        before = sorted(p.id for p in P.select()[:])
        ids = [p.id for p in R]
        try:
            n = st.q.delete(bulk=bulk)
            orm.flush()
        except Exception as e:
            return Mismatch('term', cls + ':' + exc_name(e), st.desc, st, term)
        after = sorted(row[0] for row in P._database_.execute('select id from P').fetchall())
        want_after = sorted(set(before) - set(ids))
        if after != want_after or n != len(ids):
            return Mismatch('term', cls + (':bulk' if bulk else ':plain') + ':wrong-rows-deleted',
                            {'query': st.desc, 'selected': ids, 'returned': n, 'remaining': after, 'want_remaining': want_after}, st, term)
        return None
    got = real_terminal(st, term)
    want = py_terminal(kind, R, term)
    if t == 'first' and not st.ordered:
        # an unordered query: first() orders by all result columns; the Python counterpart is min(R)
        if kind == 'ent': want = canon(kind, min(R, key=lambda p: p.id)) if R else None
        else: want = canon(kind, min(R)) if R else None
    if t == 'avg' and isinstance(got, list) and want is not None:
        ok = abs(got[1] * want[1] - want[0]) < 1e-9 * max(1, abs(want[0]))
    elif t == 'group_concat' and isinstance(got, str) and want is not None and not st.ordered:
        ok = sorted(got.split(',')) == sorted(want.split(','))       # no order to honour
    else:
        ok = got == want
    if not ok:
        if isinstance(got, str) and got.startswith('EXC:') and want != got: cls += ':' + got
        else: cls += ':wrong-value'
        return Mismatch('term', cls, {'query': st.desc, 'term': term, 'got': got, 'want': want, 'R': canon_list(kind, R)}, st, term)
    return None


# ---------------------------------------------------------------------------------------------- finding keys

AGGR = ('count', 'sum', 'min', 'max', 'avg', 'group_concat')

def classify(m):
    """Finding key of a mismatch: the root-cause class when the mismatch has exactly the shape of a recorded defect,
    otherwise 'unlisted:<fine-grained class>' (which the runner reports as a VIOLATION)."""
    info, op, cls = m.info, m.op, m.cls
    if info is None or op is None: return 'unlisted:' + cls
    name = {'hfilter': 'filter', 'hwhere': 'where', 'horder': 'order'}.get(op[0], op[0])
    suffix = cls.split(':', 1)[1] if ':' in cls else ''
    nested = info['nested']
    projection = info['kind'] != 'ent'
    if name in ('nest', 'nestpage'):
        has_if = name == 'nest' and op[3] is not None
        has_proj = name == 'nest' and op[4] is not None
        if suffix == 'wrong-rows':
            if has_if: return 'limited-subquery-filter-applied-before-limit'
            if has_proj: return 'limited-subquery-distinct-applied-before-limit'
            if info['explicit'] is not None and projection: return 'limited-subquery-drops-explicit-distinct-flag'
        return 'unlisted:' + cls
    if nested:
        if name in ('filter', 'where', 'kw') and suffix == 'wrong-rows': return 'limited-subquery-filter-applied-before-limit'
        if name == 'order' and suffix == 'not-a-permutation': return 'limited-subquery-order-applied-before-limit'
        if name in ('distinct', 'without_distinct') and suffix == 'wrong-rows': return 'limited-subquery-distinct-applied-before-limit'
        if name in AGGR and suffix == 'EXC:AssertionError': return 'limited-subquery-aggregate-AssertionError'
        if name == 'first' and suffix == 'wrong-value': return 'limited-subquery-order-applied-before-limit'
        if name == 'random' and suffix == 'not-a-sample': return 'limited-subquery-order-applied-before-limit'
        # otherwise (e.g. q.limit(None, None): no actual window) the query is judged like any other
    auto_distinct_on = projection and not info['ordered'] and info['explicit'] is None
    if name == 'order' and suffix == 'not-a-permutation' and auto_distinct_on: return 'order_by-drops-automatic-distinct'
    if name == 'random' and suffix == 'not-a-sample' and auto_distinct_on: return 'random-drops-automatic-distinct'
    if name in ('sum', 'avg') and suffix == 'wrong-value' and projection and (info['explicit'] is True or auto_distinct_on):
        return 'sum-avg-group_concat-ignore-query-distinct'
    if name == 'group_concat' and suffix == 'wrong-value' and projection and isinstance(m.detail.get('got'), str) and isinstance(m.detail.get('want'), str):
        if sorted(m.detail['got'].split(',')) == sorted(m.detail['want'].split(',')):
            if info['ordered']: return 'group_concat-ignores-order_by'
        elif info['explicit'] is True or auto_distinct_on: return 'sum-avg-group_concat-ignore-query-distinct'
    return 'unlisted:' + cls
