"""Session-history fuzzer, model side: evaluates PonyV.Model.SessionCheck.check_history by vm_compute inside coqc.

check_histories(ctx, histories, chunk=40) -> [(code, index)] per history
    code 0 = every compared result and dump agrees; 100 + site = agreed up to a dirty step (model flags an incomplete undo / known
    defect site / assertion site, comparison stops there); 9 = the schema is not wf_schema; 2 = agreed up to a step the model declines (outside the modelled domain); 3 = result mismatch at op
    `index`; 4 = committed-rows mismatch after op `index` (index = len(ops): the final dump).
model_trace(ctx, history) -> text          the model's per-op results and dumps, as printed by Coq (diagnosis only)
"""
import re
import vlib
import session_fuzz as sf

HEADER = ('Require Import PonyV.Model.SessionBase PonyV.Model.SessionDb PonyV.Model.Session PonyV.Model.SessionCheck.\n'
          'Open Scope nat_scope.\n')


def case_term(h):
    return '(let sch := %s in if wf_schema sch then check_history sch %s %s %s else (9, 0))' % (
        sf.coq_schema(h['schema']), sf.coq_ops(h['ops']), sf.coq_results(h['results']), sf.coq_dumps(h['dumps']))


def check_histories(ctx, histories, chunk=40, jobs=8):
    chunks = []
    for i in range(0, len(histories), chunk):
        part = histories[i:i + chunk]
        chunks.append('Definition cases : list (nat * nat) := [\n' + ';\n'.join(case_term(h) for h in part) + '].\nEval vm_compute in cases.\n')
    outs = vlib.coq_eval_many(ctx, HEADER, chunks, name='sess', jobs=jobs)
    res = []
    for out in outs:
        vals = vlib.parse_eval_outputs(out)
        assert len(vals) == 1, out[-800:]
        pairs = re.findall(r'\(\s*(\d+)(?:%nat)?\s*,\s*(\d+)(?:%nat)?\)', vals[0])
        res += [(int(a), int(b)) for a, b in pairs]
    assert len(res) == len(histories), (len(res), len(histories))
    return res


def model_trace(ctx, h):
    text = HEADER + ('Definition sch := %s.\nDefinition ops := %s.\n'
                     'Eval vm_compute in (trace sch (init_sess sch) ops).\nEval vm_compute in (model_dumps sch (init_sess sch) ops).\n'
                     % (sf.coq_schema(h['schema']), sf.coq_ops(h['ops'])))
    out = vlib.coq_eval(ctx, text, name='trace')
    return vlib.parse_eval_outputs(out)
