"""Session-history fuzzer, model side: evaluates PonyV.Model.SessionCheck.check_history by vm_compute inside coqc.

check_histories(ctx, histories, chunk=40) -> [(code, index)] per history
    code 0 = every compared result and dump agrees; 100 + site = agreed up to a dirty step (model flags an incomplete undo / known
    defect site / assertion site, comparison stops there); 9 = the schema is not wf_schema; 2 = agreed up to a step the model declines (outside the modelled domain); 3 = result mismatch at op
    `index`; 4 = committed-rows mismatch after op `index` (index = len(ops): the final dump).
model_trace(ctx, history) -> text          the model's per-op results and dumps, as printed by Coq (diagnosis only)
"""
import re, threading
import vlib
import session_fuzz as sf

HEADER = ('Require Import PonyV.Model.SessionBase PonyV.Model.SessionDb PonyV.Model.Session PonyV.Model.SessionCheck.\n'
          'Open Scope nat_scope.\n')


def case_term(h):
    return '(let sch := %s in if wf_schema sch then check_history sch %s %s %s else (9, 0))' % (
        sf.coq_schema(h['schema']), sf.coq_ops(h['ops']), sf.coq_results(h['results']), sf.coq_dumps(h['dumps']))


_RETRY_MARKS = ('inconsistent assumptions', 'unable to locate library', 'cannot find a physical path', 'cannot find library', 'corrupted compiled library',
                'is not a valid compiled library', 'bad magic number')
_remake_lock = threading.Lock()


def _stale_library(msg):
    m = msg.lower()
    return any(x in m for x in _RETRY_MARKS)


def coq_eval_robust(ctx, text, name, timeout=900):
    """vlib.coq_eval, robust against a concurrent rebuild of the session cone: scratch files are compiled outside the runner's lock, so another
    check (or a builder) re-making Model/Session*.vo in the meantime makes coqc fail with "compiled library ... makes inconsistent assumptions"
    (or a missing / half-written .vo).  Then: wait for the lock, re-make the cone of Model/SessionCheck.vo, retry (twice at most)."""
    for attempt in range(3):
        try:
            return vlib.coq_eval(ctx, text, name, timeout)
        except RuntimeError as e:
            if attempt == 2 or not _stale_library(str(e)): raise
            with _remake_lock:
                ok, log = vlib.make_targets(['Model/SessionCheck.vo'])       # takes vlib.CoqLock itself, i.e. waits for a running make
            if not ok: raise RuntimeError('re-making Model/SessionCheck.vo failed:\n' + log[-3000:])


def coq_eval_many_robust(ctx, header, chunks, name, jobs=8, timeout=900):
    from concurrent.futures import ThreadPoolExecutor
    def one(i_c):
        return coq_eval_robust(ctx, header + i_c[1], '%s%d' % (name, i_c[0]), timeout)
    with ThreadPoolExecutor(max_workers=jobs) as ex:
        return list(ex.map(one, enumerate(chunks)))


def check_histories(ctx, histories, chunk=40, jobs=8):
    chunks = []
    for i in range(0, len(histories), chunk):
        part = histories[i:i + chunk]
        chunks.append('Definition cases : list (nat * nat) := [\n' + ';\n'.join(case_term(h) for h in part) + '].\nEval vm_compute in cases.\n')
    outs = coq_eval_many_robust(ctx, HEADER, chunks, name='sess', jobs=jobs)
    res = []
    for out in outs:
        vals = vlib.parse_eval_outputs(out)
        assert len(vals) == 1, out[-800:]
        pairs = re.findall(r'\(\s*(\d+)(?:%nat)?\s*,\s*(\d+)(?:%nat)?\)', vals[0])
        res += [(int(a), int(b)) for a, b in pairs]
    assert len(res) == len(histories), (len(res), len(histories))
    return res


def model_trace(ctx, h):
    text = HEADER + ('Definition sch := %s.\nDefinition ops := %s.\n'
                     'Eval vm_compute in (trace sch (init_sess sch) ops).\nEval vm_compute in (model_dumps sch (init_sess sch) ops).\n'
                     % (sf.coq_schema(h['schema']), sf.coq_ops(h['ops'])))
    out = coq_eval_robust(ctx, text, name='trace')
    return vlib.parse_eval_outputs(out)
