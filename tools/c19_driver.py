"""Implementation driver for C19 / C17 / C35: runs real Pony sessions on a file-backed SQLite database with
DB-API faults injected from outside (no source hooks).

The module global `pony.orm.dbproviders.sqlite.sqlite` is replaced by a proxy whose connect() returns a wrapper
connection.  While the controller is *armed* every DB-API call (connect, cursor, execute, executemany, commit,
rollback, close) gets the next call index; the call raises sqlite3.OperationalError *instead of being performed*
when its index is in the fault set; the wrapper records the driver-call trace together with the state of
provider.transaction_lock and of the connection's real `in_transaction` flag at the time of the call.

stdin : {"mode": "sessions" | "threads" | "crash_child" | "crash_read" | "sql_text" | "pg", ...}
stdout: "\n@@JSON@@" + json
"""
import json, os, queue, shutil, sqlite3, sys, tempfile, threading, time, traceback

REAL_SQLITE = sqlite3


class Ctl(object):
    def __init__(self):
        self.reset()
    def reset(self):
        self.armed = False
        self.n = 0                # next call index (sessions mode: one thread)
        self.faults = set()
        self.per_thread = False   # threads mode: call indexes, fault sets and connection ids are per thread
        self.n_by = {}
        self.faults_by = {}
        self.con_by = {}
        self.trace = []           # [kind, stmt, con, ok, lock, dbtxn, thread]
        self.next_con = 0
        self.cons = {}            # id -> wrapper
        self.provider = None
        self.last_idx = {}
        self.real_failures = []   # call indexes (positions in the trace) at which the real driver raised by itself
        self.lock_events = []     # protocol violations seen by the instrumented provider lock
        self.crash_at = None      # os._exit(9) when this call index is reached (C17 real crashes)
        self.crash_kind = 'before'
        self.mutex = threading.Lock()
    def lock_state(self):
        p = self.provider
        try: return bool(p.transaction_lock.locked()) if p is not None else False
        except Exception: return False

CTL = Ctl()


class InjectedFault(sqlite3.OperationalError):
    pass


def classify(sql):
    s = ' '.join(sql.strip().split())
    u = s.upper()
    if u.startswith('PRAGMA FOREIGN_KEYS = TRUE'): return 'fk_on'
    if u.startswith('PRAGMA FOREIGN_KEYS = FALSE'): return 'fk_off'
    if u.startswith('PRAGMA FOREIGN_KEYS'): return 'fk_get'
    if u.startswith('PRAGMA CASE_SENSITIVE_LIKE'): return 'cslike'
    if u.startswith('BEGIN IMMEDIATE'): return 'begin'
    if u.startswith('BEGIN'): return 'begin_other'
    if u.startswith('SELECT'): return 'select'
    if u.startswith(('INSERT', 'UPDATE', 'DELETE', 'REPLACE')): return 'write'
    if u.startswith(('CREATE', 'DROP', 'ALTER')): return 'write'
    if u.startswith('COMMIT'): return 'commit_stmt'
    if u.startswith('ROLLBACK'): return 'rollback_stmt'
    return 'other'


def sqlinfo(sql, args):
    try:
        a = list(args[0]) if args and isinstance(args[0], (list, tuple)) else (dict(args[0]) if args and isinstance(args[0], dict) else None)
        json.dumps(a)
    except Exception:
        a = None
    return [' '.join(sql.split()), a]


def tname():
    return threading.current_thread().name


def gate(kind, stmt, con, sqlinfo=None):
    """Called before every DB-API call. Returns normally if the call must be performed."""
    c = CTL
    if not c.armed: return
    with c.mutex:
        if c.per_thread:
            t = tname()
            k = c.n_by.get(t, 0)
            c.n_by[t] = k + 1
            fail = k in c.faults_by.get(t, ())
            newid = c.con_by.get(t, 0)
        else:
            k = c.n
            c.n += 1
            fail = k in c.faults
            newid = c.next_con
        real = con.real if con is not None else None
        try: dbtxn = bool(real.in_transaction) if real is not None else False
        except Exception: dbtxn = False
        c.trace.append([kind, stmt, con.cid if con is not None else newid, not fail, c.lock_state(), dbtxn, tname(), sqlinfo])
        c.last_idx[tname()] = len(c.trace) - 1
    if c.crash_at is not None and k == c.crash_at and c.crash_kind == 'before':
        os._exit(9)
    if fail:
        raise InjectedFault('injected fault at DB-API call %d (%s %s)' % (k, kind, stmt))
    return k


def real_failure():
    """the real driver call raised by itself (e.g. 'database is locked'): the recorded call did not succeed"""
    c = CTL
    if not c.armed: return
    with c.mutex:
        i = c.last_idx.get(tname())
        if i is not None and c.trace[i][3]:
            c.trace[i][3] = False
            c.real_failures.append(i)


def guarded(fn, *a, **kw):
    try: return fn(*a, **kw)
    except Exception:
        real_failure()
        raise


def after(k):
    c = CTL
    if c.armed and c.crash_at is not None and k == c.crash_at and c.crash_kind == 'after':
        os._exit(9)


class CurWrap(object):
    def __init__(self, con, real):
        self.__dict__['con'] = con
        self.__dict__['real'] = real
    def execute(self, sql, *args):
        k = gate('execute', classify(sql), self.con, sqlinfo(sql, args))
        r = guarded(self.real.execute, sql, *args)
        after(k)
        return self
    def executemany(self, sql, *args):
        k = gate('executemany', classify(sql), self.con, sqlinfo(sql, [[list(x) for x in args[0]]] if args else []))
        guarded(self.real.executemany, sql, *args)
        after(k)
        return self
    def __iter__(self): return iter(self.real)
    def __getattr__(self, name): return getattr(self.real, name)
    def __setattr__(self, name, value): setattr(self.real, name, value)


class ConWrap(object):
    def __init__(self, real, cid):
        self.__dict__['real'] = real
        self.__dict__['cid'] = cid
        self.__dict__['closes'] = 0
        self.__dict__['statements'] = []      # real statement trace (set_trace_callback)
        real.set_trace_callback(self._trace)
    def _trace(self, sql):
        if CTL.armed: self.statements.append(' '.join(sql.split()))
    def cursor(self, *a, **kw):
        gate('cursor', '', self)
        return CurWrap(self, self.real.cursor(*a, **kw))
    def execute(self, sql, *args):
        k = gate('execute', classify(sql), self, sqlinfo(sql, args))
        r = guarded(self.real.execute, sql, *args)
        after(k)
        return CurWrap(self, r)
    def executemany(self, sql, *args):
        k = gate('executemany', classify(sql), self)
        r = self.real.executemany(sql, *args)
        after(k)
        return CurWrap(self, r)
    def commit(self):
        k = gate('commit', '', self)
        guarded(self.real.commit)
        after(k)
    def rollback(self):
        k = gate('rollback', '', self)
        guarded(self.real.rollback)
        after(k)
    def close(self):
        self.__dict__['closes'] += 1          # counted even when the call is made to fail
        try:
            gate('close', '', self)
        finally:
            # a close() that reports an error still gives the handle up (Pool.drop has already forgotten the connection and
            # CPython would finalise it); keeping it open here would only make this harness hold the file lock itself
            self.real.close()
    def __getattr__(self, name): return getattr(self.real, name)
    def __setattr__(self, name, value): setattr(self.real, name, value)


class SqliteProxy(object):
    def connect(self, *args, **kwargs):
        gate('connect', '', None)
        real = REAL_SQLITE.connect(*args, **kwargs)
        with CTL.mutex:
            if CTL.per_thread:
                t = tname()
                cid = CTL.con_by.get(t, 0)
                CTL.con_by[t] = cid + 1
                key = (t, cid)
            else:
                cid = CTL.next_con
                CTL.next_con += 1
                key = cid
        w = ConWrap(real, cid)
        CTL.cons[key] = w
        return w
    def __getattr__(self, name): return getattr(REAL_SQLITE, name)


def install_proxy():
    import pony.orm.dbproviders.sqlite as ps
    if not isinstance(ps.sqlite, SqliteProxy):
        ps.sqlite = SqliteProxy()


class BodyError(Exception):
    pass


def exc_enum(e):
    if e is None: return 'none'
    n = type(e).__name__
    if isinstance(e, InjectedFault): return 'EDrv'          # raw driver error that escaped wrap_dbapi_exceptions
    return {'OperationalError': 'EDb', 'CommitException': 'ECommit', 'RollbackException': 'ERollback',
            'PartialCommitException': 'EPartial', 'BodyError': 'EBody', 'AssertionError': 'EAssert',
            'ConnectionClosedError': 'EConnClosed', 'RuntimeError': 'ERuntime'}.get(n, 'Other:' + n)


# ---------------------------------------------------------------------------------------------- database fixture

SCHEMA = [
    'CREATE TABLE "T" ("id" INTEGER PRIMARY KEY AUTOINCREMENT, "v" INTEGER NOT NULL, "name" TEXT UNIQUE, "a" INTEGER, "b" INTEGER, '
    'CONSTRAINT "unq_t__a_b" UNIQUE ("a", "b"))',
    'CREATE TABLE "U" ("id" INTEGER PRIMARY KEY AUTOINCREMENT)',
    'CREATE TABLE "T_U" ("t" INTEGER NOT NULL REFERENCES "T" ("id") ON DELETE CASCADE, "u" INTEGER NOT NULL REFERENCES "U" ("id") ON DELETE CASCADE, PRIMARY KEY ("t", "u"))',
    'CREATE INDEX "idx_t_u" ON "T_U" ("u")',
    'CREATE TABLE "W" ("id" INTEGER PRIMARY KEY AUTOINCREMENT, "t" INTEGER UNIQUE NOT NULL REFERENCES "T" ("id") ON DELETE CASCADE)',
]


def create_file(path, rows=6):
    """T rows 1..rows (v = 0, name = 'n<id>', composite key (a, b) = (id, 10*id)); U rows 1..3; one link (1, 1)"""
    con = sqlite3.connect(path)
    for sql in SCHEMA: con.execute(sql)
    con.executemany('INSERT INTO "T" ("id", "v", "name", "a", "b") VALUES (?, 0, ?, ?, ?)', [(i, 'n%d' % i, i, 10 * i) for i in range(1, rows + 1)])
    con.executemany('INSERT INTO "U" ("id") VALUES (?)', [(i,) for i in (1, 2, 3)])
    con.execute('INSERT INTO "T_U" ("t", "u") VALUES (1, 1)')
    con.executemany('INSERT INTO "W" ("id", "t") VALUES (?, ?)', [(i, i) for i in range(1, rows + 1)])
    con.commit(); con.close()


def make_db(path, rows=6, prefill=True, **bind_kwargs):
    """File DB with entities T (id, v, unique name, composite key (a, b), many-to-many us) and U. Returns (db, T); db.U is the other entity."""
    from pony import orm
    if prefill and not os.path.exists(path):
        create_file(path, rows)
    db = orm.Database()
    class T(db.Entity):
        _table_ = 'T'
        id = orm.PrimaryKey(int, auto=True)
        v = orm.Required(int)
        name = orm.Optional(str, unique=True, nullable=True)
        a = orm.Optional(int)
        b = orm.Optional(int)
        orm.composite_key(a, b)
        us = orm.Set('U')
        w = orm.Optional('W')
    class W(db.Entity):
        _table_ = 'W'
        id = orm.PrimaryKey(int, auto=True)
        t = orm.Required(T)
    class U(db.Entity):
        _table_ = 'U'
        id = orm.PrimaryKey(int, auto=True)
        ts = orm.Set(T)
    db.bind('sqlite', path, create_db=False, **bind_kwargs)
    db.generate_mapping(create_tables=False, check_tables=False)
    return db, T


def session_kwargs(shape):
    return {'opt': {}, 'imm': {'immediate': True}, 'ser': {'serializable': True}, 'ddl': {'ddl': True},
            'nonopt': {'optimistic': False}}[shape]


def run_op(db, T, op, arg):
    from pony import orm
    if op == 'select': db.select('id from T where id < 0', {}, {})
    elif op == 'load': T[arg]
    elif op == 'loadu': db.U[arg]
    elif op == 'link': T[arg[0]].us.add(db.U[arg[1]])
    elif op == 'unlink': T[arg[0]].us.remove(db.U[arg[1]])
    elif op == 'forupd': T.get_for_update(id=arg)
    elif op == 'forupd_u': T.get_for_update(name='n%d' % arg)
    elif op == 'forupd_c': T.get_for_update(a=arg, b=10 * arg)
    elif op == 'loadw': db.W[arg]
    elif op == 'forupd_r': db.W.get_for_update(t=T[arg])          # one-to-one, the side that has the column
    elif op == 'forupd_rt': T.get_for_update(w=db.W[arg])         # one-to-one, the side without a column
    elif op == 'qforupd': orm.select('t for t in T if t.id == x', {'T': T, 'x': arg}).for_update()[:]
    elif op == 'new': T(v=arg)
    elif op == 'set': T[arg].v = T[arg].v + 100
    elif op == 'del': T[arg].delete()
    elif op == 'flush': orm.flush()
    elif op == 'rawwrite': db.execute('insert into T (v) values (%d)' % arg, {}, {})
    elif op == 'rawupdate': db.execute('update T set v = v + 1000 where id = %d' % arg, {}, {})
    elif op == 'ddlwrite': db.execute('create table if not exists X%d (a integer)' % arg, {}, {})
    elif op == 'commit': orm.commit()
    elif op == 'rollback': orm.rollback()
    elif op == 'dbcommit': db.commit()
    elif op == 'dbrollback': db.rollback()
    elif op == 'getconn': db.get_connection()
    elif op == 'raise': raise BodyError('body')
    else: raise ValueError(op)


LOCK_AFTER_OP = []


def run_body(db, T, shape, ops):
    """One db_session. Returns (exception enum that left the session, per-op outcomes)."""
    from pony import orm
    outcomes = []
    exc = None
    del LOCK_AFTER_OP[:]
    try:
        with orm.db_session(**session_kwargs(shape)):
            for op, catch, arg in ops:
                try:
                    run_op(db, T, op, arg)
                    outcomes.append('ok'); LOCK_AFTER_OP.append(CTL.lock_state())
                except BaseException as e:
                    outcomes.append(exc_enum(e)); LOCK_AFTER_OP.append(CTL.lock_state())
                    if not catch: raise
    except BaseException as e:
        exc = e
    return exc_enum(exc), outcomes


def read_rows(path):
    con = sqlite3.connect(path)
    try:
        return [list(r) for r in con.execute('select id, v from T order by id')]
    finally:
        con.close()


def read_links(path):
    con = sqlite3.connect(path)
    try:
        return [list(r) for r in con.execute('select t, u from T_U order by t, u')]
    finally:
        con.close()


def observe_after(db):
    """State after the session: lock, pool, cache registry, per-connection close counts."""
    from pony.orm import core
    p = db.provider
    pool_con = p.pool.con
    return {
        'lock': bool(p.transaction_lock.locked()),
        'prelock': bool(p.pre_transaction_lock.locked()),
        'pool': None if pool_con is None else getattr(pool_con, 'cid', -1),
        'closes': {str(cid): w.closes for cid, w in sorted(CTL.cons.items())},
        'db2cache_empty': not core.local.db2cache,
        'db_session_none': core.local.db_session is None,
        'counter': core.local.db_context_counter,
    }


def follow_up(db, T, same_thread=True, timeout=120.0):
    """A following immediate write session; 'ok' | 'timeout' | exception name. Run in this or in another thread."""
    from pony import orm
    if db.provider.transaction_lock.locked():
        return 'timeout'          # nobody is running any more and the lock is held: the session would wait forever (seen, not timed)
    res = {}
    def work():
        try:
            with orm.db_session(immediate=True):
                db.execute('update T set v = v where id = 1', {}, {})
                fk = db.select('PRAGMA foreign_keys', {}, {}) if False else None
            res['r'] = 'ok'
        except BaseException as e:
            res['r'] = 'exc:' + type(e).__name__
    if same_thread:
        # even in the same thread run it under a watchdog: a lock left held would deadlock this process
        done = threading.Event()
        holder = {}
        # the session must run in THIS thread (thread-local pool); use a timer that releases a stuck lock
        def watchdog():
            if not done.wait(timeout):
                holder['timeout'] = True
                try:
                    db.provider.transaction_lock.quiet = True
                    db.provider.transaction_lock.release()
                except Exception: pass
        th = threading.Thread(target=watchdog, daemon=True); th.start()
        work(); done.set(); th.join()
        if holder.get('timeout'): return 'timeout'
        return res.get('r', 'none')
    th = threading.Thread(target=work, daemon=True, name='follow')
    th.start(); th.join(timeout)
    if th.is_alive():
        try:
            db.provider.transaction_lock.quiet = True
            db.provider.transaction_lock.release()      # unblock it so that the process can end
        except Exception: pass
        th.join(2.0)
        return 'timeout'
    return res.get('r', 'none')


def pool_pragmas(db):
    """foreign_keys / case_sensitive_like state of the pooled connection of this thread, read outside any session."""
    con = db.provider.pool.con
    if con is None: return None
    real = getattr(con, 'real', con)
    try:
        fk = real.execute('PRAGMA foreign_keys').fetchone()[0]
        cs = real.execute("select 'a' like 'A'").fetchone()[0]      # 0 when case_sensitive_like = true
        return {'fk': int(fk), 'case_sensitive_like': int(not cs)}
    except Exception as e:
        return {'error': type(e).__name__}


# ---------------------------------------------------------------------------------------------- mode: sessions

def run_session_case(case, workdir):
    """case: {shape, start: pooled|none|fresh, ops: [[op, catch, arg]], faults: [k], more: further [shape, ops] sessions}
    start = pooled: the connection made by Database.bind() sits in this thread's pool; none: this thread connected before and
    disconnected; fresh: the sessions run in a new thread, whose pool has never connected."""
    from pony.orm import core
    path = os.path.join(workdir, 'c%d.sqlite' % case.get('n', 0))
    if os.path.exists(path): os.remove(path)
    CTL.reset()
    reader = case.get('reader')          # a second, plain sqlite3 connection keeps a read transaction open: the session's COMMIT fails for real
    ext = case.get('ext_writer')         # ANOTHER PROCESS holds BEGIN IMMEDIATE (a real cross-process write lock) during the first session
    db, T = make_db(path, **({'timeout': 0.05} if (reader or ext) else {}))
    CTL.provider = db.provider
    db.provider.transaction_lock = OwnedLock()
    db.provider.pre_transaction_lock = OwnedLock()
    start = case.get('start', 'pooled')
    if start in ('none', 'fresh'):
        db.disconnect()
        CTL.cons.clear(); CTL.next_con = 0
    else:
        assert db.provider.pool.con is not None and db.provider.pool.con.cid == 0
        CTL.next_con = 1
    rows0 = read_rows(path)
    links0 = read_links(path)
    CTL.faults = set(case.get('faults', []))
    CTL.n = 0
    out = {'sessions': []}
    sessions = [[case['shape'], case['ops']]] + list(case.get('more', []))

    helper = {}
    def start_helper():
        r1, w1 = os.pipe(); r2, w2 = os.pipe()
        pid = os.fork()
        if pid == 0:
            try:
                os.close(r1); os.close(w2)
                c = sqlite3.connect(path, timeout=5.0, isolation_level=None)
                c.execute('BEGIN IMMEDIATE'); c.execute('insert into T (v) values (777)')
                os.write(w1, b'r')
                os.read(r2, 1)                      # wait until the parent says go
                c.execute('COMMIT'); c.close()
                os.write(w1, b'c')
                os._exit(0)
            except BaseException:
                os._exit(5)
        os.close(w1); os.close(r2)
        helper.update(pid=pid, r=r1, w=w2)
        assert os.read(r1, 1) == b'r'
    def finish_helper():
        if helper.get('pid'):
            os.write(helper['w'], b'g')
            helper['committed'] = os.read(helper['r'], 1) == b'c'
            _, st = os.waitpid(helper['pid'], 0)
            helper['status'] = os.WEXITSTATUS(st) if os.WIFEXITED(st) else -1
            helper['pid'] = None

    def in_thread():
        rcon = None
        if ext: start_helper()
        if reader:
            rcon = sqlite3.connect(path)
            rcon.execute('BEGIN'); rcon.execute('select count(*) from T').fetchall()
        CTL.armed = True
        try:
            for si, (shape, ops) in enumerate(sessions):
                if rcon is not None and reader == 'first' and si == 1:
                    rcon.rollback(); rcon.close(); rcon = None
                if ext and si == 1: finish_helper()
                if case.get('disconnect_after_first') and si == 1:
                    try: db.disconnect(); out['disconnect'] = 'ok'
                    except BaseException as e: out['disconnect'] = exc_enum(e)
                    out['disconnect_calls'] = CTL.n
                exc, outcomes = run_body(db, T, shape, ops)
                out['sessions'].append({'exc': exc, 'outcomes': outcomes, 'lock_after': CTL.lock_state(), 'calls': CTL.n, 'lock_after_op': list(LOCK_AFTER_OP)})
        finally:
            CTL.armed = False
            if rcon is not None:
                rcon.rollback(); rcon.close()
            if ext:
                finish_helper()
                out['ext_writer'] = {'committed': helper.get('committed'), 'status': helper.get('status')}
        out['after'] = observe_after(db)
        out['pragmas'] = pool_pragmas(db)
        out['hung'] = bool(out['after']['lock'] or not out['after']['db2cache_empty'])
        if out['hung']:
            out['follow_same'] = 'skipped'
        else:
            out['follow_same'] = follow_up(db, T, same_thread=True, timeout=case.get('timeout', 120.0))
        # tidy this thread
        try:
            core.local.db2cache.clear(); core.local.db_context_counter = 0; core.local.db_session = None
            db.provider.pool.disconnect()
        except Exception:
            pass

    # watchdog: a session that deadlocks on the provider lock (it can only be this thread's own earlier acquire) is reported,
    # and the lock is released from outside so that the process can go on
    finished = threading.Event()
    dead = {}
    def watchdog():
        if finished.wait(case.get('timeout', 120.0)): return
        dead['deadlock'] = True
        while not finished.wait(0.2):
            for lk in (db.provider.transaction_lock, db.provider.pre_transaction_lock):
                lk.quiet = True
                try: lk.release()
                except Exception: pass
    wd = threading.Thread(target=watchdog, daemon=True); wd.start()
    try:
        if start == 'fresh':
            th = threading.Thread(target=in_thread, name='fresh', daemon=True)
            th.start(); th.join(case.get('timeout', 120.0) + 30.0)
            if th.is_alive():
                return {'harness_error': 'session thread did not finish (deadlock)', 'deadlock': True}
        else:
            in_thread()
    finally:
        finished.set()
    if dead:
        for w in CTL.cons.values():
            try: w.real.close()
            except Exception: pass
        return {'harness_error': 'the session blocked on the provider lock for more than %.0f s (deadlock); trace so far: %r' % (case.get('timeout', 120.0), [t[:4] for t in CTL.trace][-8:]), 'deadlock': True}
    out['trace'] = [t[:6] for t in CTL.trace]
    out['lock_events'] = list(CTL.lock_events)
    out['real_failures'] = list(CTL.real_failures)
    out['writes'] = [[i, t[7]] for i, t in enumerate(CTL.trace) if t[0] in ('execute', 'executemany') and t[1] == 'write']
    out['statements'] = {str(cid): w.statements for cid, w in sorted(CTL.cons.items())}
    out['rows_after'] = read_rows(path)
    out['rows_before'] = rows0
    out['links_after'] = read_links(path)
    out['links_before'] = links0
    out['follow_other'] = follow_up(db, T, same_thread=False, timeout=case.get('timeout', 120.0))
    for w in CTL.cons.values():
        try: w.real.close()
        except Exception: pass
    try: os.remove(path)
    except OSError: pass
    return out


# ---------------------------------------------------------------------------------------------- mode: threads

class SelfDeadlock(BaseException):
    pass


class OwnedLock(object):
    """threading.Lock with an owner: records a release of the unlocked lock (threading.Lock raises RuntimeError there) and a
    release by a thread that is not the one that acquired it (threading.Lock allows it: the holder loses its lock silently)"""
    def __init__(self):
        self._l = threading.Lock()
        self.owner = None
        self.quiet = False
    def acquire(self, blocking=True, timeout=-1):
        if blocking and self._l.locked() and self.owner == tname():
            # the thread that holds the lock asks for it again: it would wait for itself forever (seen, not timed)
            CTL.lock_events.append(['self-deadlock', tname()])
            raise SelfDeadlock('the session thread blocks on the provider lock it holds itself')
        ok = self._l.acquire(blocking, timeout)
        if ok: self.owner = tname()
        return ok
    def release(self):
        if not self.quiet:
            if not self._l.locked(): CTL.lock_events.append(['release-of-unlocked-lock', tname()])
            elif self.owner != tname(): CTL.lock_events.append(['release-by-non-owner', tname(), self.owner])
        self.owner = None
        self._l.release()
    def locked(self): return self._l.locked()
    def __enter__(self): self.acquire(); return self
    def __exit__(self, *a): self.release()


class SchedLock(object):
    """Replacement for provider.transaction_lock / pre_transaction_lock under the deterministic scheduler: a thread that
    finds the lock held registers as a waiter, tells the controller, and sleeps until the controller wakes it (which it
    does only when the lock is free and every other thread is idle), so the interleaving is fully determined by the schedule."""
    def __init__(self, name, notify):
        self._l = threading.Lock()
        self.name = name
        self.notify = notify
        self.waiters = []           # [(thread name, Event)] FIFO
        self.abort = False
    def acquire(self, blocking=True, timeout=-1):
        while True:
            if self._l.acquire(False):
                self.owner = tname()
                return True
            if not blocking: return False
            ev = threading.Event()
            self.waiters.append((tname(), ev))
            self.notify(tname(), self.name)
            ev.wait()
            if self.abort: raise RuntimeError('scheduler aborted while waiting for %s' % self.name)
    def release(self):
        if not self.abort:
            if not self._l.locked(): CTL.lock_events.append(['release-of-unlocked-lock', tname(), self.name])
            elif getattr(self, 'owner', None) != tname(): CTL.lock_events.append(['release-by-non-owner', tname(), getattr(self, 'owner', None), self.name])
        self.owner = None
        self._l.release()
    def locked(self): return self._l.locked()
    def __enter__(self): self.acquire(); return self
    def __exit__(self, *a): self.release()


class Worker(object):
    def __init__(self, name, db, T, results, with_sem=False):
        self.with_sem = with_sem      # `with db_session:` semantics: an exception in the body ends the body; the exit rolls back
        self.aborted = False
        self.name = name
        self.q = queue.Queue()
        self.db, self.T = db, T
        self.results = results
        self.cm = None
        self.th = threading.Thread(target=self.loop, name=name, daemon=True)
        self.th.start()
    def loop(self):
        from pony import orm
        while True:
            cmd = self.q.get()
            if cmd is None: return
            seq, op, arg = cmd
            # keep the session structure valid when earlier steps of this thread were skipped (it was blocked)
            if (op == 'enter' and self.cm is not None) or (op != 'enter' and self.cm is None):
                self.results.put(('done', self.name, seq, 'noop'))
                continue
            if self.with_sem and self.aborted:
                if op in ('exit', 'exit_if_open'): op = 'exit_exc'
                elif op != 'exit_exc':
                    self.results.put(('done', self.name, seq, 'noop'))
                    continue
            try:
                if op == 'enter':
                    self.aborted = False
                    self.cm = orm.db_session(**session_kwargs(arg))
                    self.cm.__enter__()
                elif op in ('exit', 'exit_if_open'):
                    cm, self.cm = self.cm, None
                    cm.__exit__(None, None, None)
                elif op == 'exit_exc':
                    cm, self.cm = self.cm, None
                    e = BodyError('body')
                    cm.__exit__(BodyError, e, None)
                else:
                    run_op(self.db, self.T, op, arg)
                out = 'ok'
            except BaseException as e:
                out = exc_enum(e)
                if op not in ('enter', 'exit', 'exit_exc', 'exit_if_open'): self.aborted = True
            if op == 'exit_exc' and out == 'ok' and self.with_sem: out = 'rolled-back'
            self.results.put(('done', self.name, seq, out))


def run_thread_case(case, workdir):
    """case: {threads: n, steps: [[thread, op, arg]], faults: {thread: [k]}}.  Steps are issued strictly in order, one at a
    time.  A step whose thread finds the provider lock held is recorded 'blocked'; it is completed (recorded again, with its
    real outcome) as soon as a later step has freed the lock.  Steps addressed to a thread that is still blocked are skipped."""
    from pony.orm import core
    path = os.path.join(workdir, 't%d.sqlite' % case.get('n', 0))
    if os.path.exists(path): os.remove(path)
    CTL.reset()
    db, T = make_db(path)
    db.disconnect()
    CTL.cons.clear()
    CTL.provider = db.provider
    CTL.per_thread = True
    CTL.faults_by = {'w%s' % t: set(v) for t, v in case.get('faults', {}).items()}
    results = queue.Queue()
    notify = lambda thread, lockname: results.put(('blocked', thread, lockname, None))
    txn_lock = SchedLock('txn', notify)
    pre_lock = SchedLock('pre', notify)
    db.provider.transaction_lock = txn_lock
    db.provider.pre_transaction_lock = pre_lock
    workers = {i: Worker('w%d' % i, db, T, results, bool(case.get('with_sem'))) for i in range(case['threads'])}
    hard = case.get('timeout', 180.0)      # backstop only: blocking is observed on the lock, never inferred from a timeout
    effective = []              # [thread, op, arg, outcome, lock_after]
    pending = {}                # thread -> (op, arg) of its blocked step
    failed = [None]

    def wait_for(thread):
        """next event of `thread`: ('done', outcome) or ('blocked', lockname)"""
        while True:
            try: ev = results.get(timeout=hard)
            except queue.Empty:
                failed[0] = 'hard timeout waiting for thread %s' % thread
                return ('timeout', None)
            if ev[1] != 'w%d' % thread:
                failed[0] = 'unexpected event %r while waiting for thread %s' % (ev, thread)
                return ('timeout', None)
            if ev[0] == 'done': return ('done', ev[3])
            return ('blocked', ev[2])

    def settle():
        """wake waiters of free locks, one at a time, until nothing can move"""
        progress = True
        while progress and not failed[0]:
            progress = False
            for lk in (pre_lock, txn_lock):
                if lk.waiters and not lk.locked():
                    name, ev = lk.waiters.pop(0)
                    t = int(name[1:])
                    ev.set()
                    kind, val = wait_for(t)
                    if kind == 'done':
                        op, arg = pending.pop(t)
                        effective.append([t, op, arg, val, txn_lock.locked()])
                    progress = True
                    break

    CTL.armed = True
    try:
        for t, op, arg in case['steps']:
            if failed[0]: break
            if t in pending:
                effective.append([t, op, arg, 'skipped', txn_lock.locked()])
                continue
            workers[t].q.put((len(effective), op, arg))
            kind, val = wait_for(t)
            if kind == 'done':
                effective.append([t, op, arg, val, txn_lock.locked()])
            elif kind == 'blocked':
                pending[t] = (op, arg)
                effective.append([t, op, arg, 'blocked', txn_lock.locked()])
            settle()
        # drain: steps of blocked threads were skipped, so close whatever is still open (a correct implementation always gets there)
        for _round in range(4 * case['threads'] + 4):
            if failed[0]: break
            todo = [t for t in sorted(workers) if t not in pending and workers[t].cm is not None]
            if not todo and not pending: break
            if not todo: break
            for t in todo:
                workers[t].q.put((len(effective), 'exit_if_open', 0))
                kind, val = wait_for(t)
                if kind == 'done':
                    effective.append([t, 'exit_if_open', 0, val, txn_lock.locked()])
                elif kind == 'blocked':
                    pending[t] = ('exit_if_open', 0)
                    effective.append([t, 'exit_if_open', 0, 'blocked', txn_lock.locked()])
                settle()
    finally:
        CTL.armed = False
    out = {'effective': effective, 'still_blocked': sorted(pending), 'failed': failed[0], 'lock_events': list(CTL.lock_events),
           'lock_after': bool(txn_lock.locked()), 'prelock_after': bool(pre_lock.locked())}
    # let everything finish so that the process can end
    for lk in (pre_lock, txn_lock):
        lk.abort = True
        for name, ev in lk.waiters: ev.set()
    for w in workers.values(): w.q.put(None)
    for w in workers.values(): w.th.join(2.0)
    out['threads_alive'] = sum(1 for w in workers.values() if w.th.is_alive())
    out['traces'] = {str(i): [e[:6] for e in CTL.trace if e[6] == 'w%d' % i] for i in range(case['threads'])}
    out['global_trace'] = [[int(e[6][1:])] + e[:6] for e in CTL.trace if e[6].startswith('w')]
    out['closes'] = {'%s:%d' % k: w.closes for k, w in sorted(CTL.cons.items())}
    try: out['rows_after'] = read_rows(path)
    except Exception as e: out['rows_after'] = 'error:' + type(e).__name__
    for w in CTL.cons.values():
        try: w.real.close()
        except Exception: pass
    try: os.remove(path)
    except OSError: pass
    return out


# ---------------------------------------------------------------------------------------------- mode: crash (C17)

def crash_child(payload):
    """Runs one write program on payload['path'] and os._exit(9)s when DB-API call `crash_at` is reached
    (before the call, or after it returned)."""
    install_proxy()
    CTL.reset()
    db, T = make_db(payload['path'], prefill=False)
    CTL.provider = db.provider
    db.disconnect()                         # start = 'none': the session makes its own connection (call 0)
    CTL.cons.clear(); CTL.next_con = 0
    CTL.crash_at = payload.get('crash_at')
    CTL.crash_kind = payload.get('crash_kind', 'before')
    CTL.faults = set(payload.get('faults', []))
    CTL.armed = True
    exc, outcomes = run_body(db, T, payload['shape'], payload['ops'])
    CTL.armed = False
    return {'exc': exc, 'outcomes': outcomes, 'calls': CTL.n, 'trace': [t[:6] for t in CTL.trace]}


def crash_batch(payload, workdir):
    """For every case: a fresh database file, a forked child process that runs the write program on it and dies with
    os._exit(9) when DB-API call `crash_at` is reached (before it is made); this process then reads the file, which it has
    never had open.  Nothing of Pony is bound in this process before the fork."""
    from pony import orm        # import only (no Database is created in this process), so that the children need not re-import
    import pony.orm.dbproviders.sqlite
    outs = []
    template = os.path.join(workdir, 'template.sqlite')
    create_file(template)
    # warm Pony's caches (entity setup, SQL generation) once in this process, on a throw-away file: a forked child then spends its
    # time on the program only.  The connections are closed again and no session is open when the children are forked.
    warm = os.path.join(workdir, 'warm.sqlite')
    shutil.copyfile(template, warm)
    install_proxy(); CTL.reset()
    wdb, WT = make_db(warm, prefill=False)
    run_body(wdb, WT, 'opt', [['select', False, 0], ['load', False, 2], ['loadu', False, 2], ['link', False, [2, 2]], ['new', False, 1], ['rawwrite', False, 2],
                               ['rawupdate', False, 3], ['commit', False, 0], ['load', False, 1], ['loadu', False, 1], ['unlink', False, [1, 1]], ['flush', False, 0], ['rollback', False, 0]])
    wdb.disconnect()
    for w in CTL.cons.values():
        try: w.real.close()
        except Exception: pass
    CTL.reset()
    import gc
    gc.collect(); gc.freeze()          # keep the children from copying the whole heap (copy-on-write) in their first collection
    cases = list(enumerate(payload['cases']))
    outs = [None] * len(cases)
    width = int(payload.get('parallel', 6))
    def start(n, case):
        path = os.path.join(workdir, 'k%d.sqlite' % n)
        for suffix in ('', '-journal', '-wal', '-shm'):
            if os.path.exists(path + suffix): os.remove(path + suffix)
        shutil.copyfile(template, path)
        pid = os.fork()
        if pid == 0:
            try:
                gc.disable()
                crash_child(dict(case, path=path))
                os._exit(0)
            except BaseException:
                os._exit(7)
        return {'n': n, 'pid': pid, 'path': path, 'deadline': time.time() + float(case.get('timeout', 300.0))}
    def finish(job, status):
        n, path = job['n'], job['path']
        if status is None:
            outs[n] = {'harness_error': 'child did not finish', 'timeout': True}
        else:
            try:
                outs[n] = {'status': status, 'rows': read_rows(path), 'links': read_links(path), 'hot_journal_seen': os.path.exists(path + '-journal')}
            except Exception as e:
                outs[n] = {'harness_error': 'cannot read the database after the crash: %s: %s' % (type(e).__name__, e), 'status': status}
        for suffix in ('', '-journal'):
            try: os.remove(path + suffix)
            except OSError: pass
    running = []
    while cases or running:
        while cases and len(running) < width:
            n, case = cases.pop(0)
            running.append(start(n, case))
        still = []
        for job in running:
            wpid, st = os.waitpid(job['pid'], os.WNOHANG)
            if wpid == job['pid']:
                finish(job, os.WEXITSTATUS(st) if os.WIFEXITED(st) else -os.WTERMSIG(st))
            elif time.time() > job['deadline']:
                try: os.kill(job['pid'], 9)
                except OSError: pass
                os.waitpid(job['pid'], 0)
                finish(job, None)
            else:
                still.append(job)
        running = still
        if running: time.sleep(0.003)
    return outs


# ---------------------------------------------------------------------------------------------- mode: sql_text (C35)

def sql_text_cases(payload):
    sys.path.insert(0, os.path.dirname(os.path.abspath(__file__)))
    import vlib
    from pony import orm
    out = []
    for prov in payload['providers']:
        db = vlib.mock_database(prov)
        class T(db.Entity):
            _table_ = 'T'
            id = orm.PrimaryKey(int, auto=True)
            v = orm.Required(int)
        db.generate_mapping(check_tables=False)
        for form in payload['forms']:
            for nowait in (False, True):
                for skip in (False, True):
                    for fu in (False, True):
                        if not fu and (nowait or skip): continue
                        rec = {'provider': prov, 'form': form, 'for_update': fu, 'nowait': nowait, 'skip_locked': skip}
                        try:
                            with orm.db_session:
                                if form == 'query':
                                    q = orm.select('t for t in T if t.v > 1', {'T': T})
                                elif form == 'query_order':
                                    q = orm.select('t for t in T if t.v > 1', {'T': T}).order_by('t.id')
                                elif form == 'query_limit':
                                    q = orm.select('t for t in T if t.v > 1', {'T': T}).order_by('t.id')
                                if form in ('query', 'query_order', 'query_limit'):
                                    if fu: q = q.for_update(nowait=nowait, skip_locked=skip)
                                    if form == 'query_limit':
                                        sql = q._construct_sql_and_arguments(limit=2)[0]
                                    else:
                                        sql = q.get_sql()
                                elif form == 'get':
                                    db.sql = None
                                    if fu: T.get_for_update(id=1, nowait=nowait, skip_locked=skip)
                                    else: T.get(id=1)
                                    sql = db.sql
                            rec['sql'] = sql
                        except Exception as e:
                            rec['error'] = '%s: %s' % (type(e).__name__, e)
                        out.append(rec)
    return out


# ---------------------------------------------------------------------------------------------- mode: pg (C17, PostgreSQL autocommit switching)

class FakePgCursor(object):
    description = [('id',)]
    rowcount = 1
    lastrowid = 1
    def __init__(self, con): self.con = con
    def execute(self, sql, args=None):
        u = ' '.join(sql.split()).upper()
        kind = ('set_serializable' if u.startswith('SET TRANSACTION ISOLATION LEVEL SERIALIZABLE') else 'discard' if u.startswith('DISCARD ALL')
                else 'select' if u.startswith('SELECT') else 'write' if u.startswith(('INSERT', 'UPDATE', 'DELETE')) else 'other:' + u[:30])
        ok = self.con.call('execute:' + kind)
        if not self.con._ac: self.con.dtx = True          # psycopg2 sends BEGIN first, also when the statement then fails
        if not ok: self.con.fail()
    def fetchone(self): return None
    def fetchmany(self, n=None): return []
    def fetchall(self): return []


class FakePgConnection(object):
    """stands in for a psycopg2 connection: records every call together with `autocommit` and whether a transaction is open;
    the calls whose index is in ctl['faults'] raise psycopg2.ProgrammingError (should_reconnect is False for it)"""
    def __init__(self, ctl, ac0):
        self.__dict__['ctl'] = ctl
        self.__dict__['_ac'] = ac0
        self.__dict__['dtx'] = False
        self.__dict__['server_version'] = 90600
    def call(self, what):
        c = self.ctl
        if not c['armed']:
            return True
        k = c['n']; c['n'] += 1
        ok = k not in c['faults']
        c['events'].append([what, ok, self._ac, self.dtx])
        return ok
    def fail(self):
        import psycopg2
        raise psycopg2.ProgrammingError('injected')
    @property
    def autocommit(self): return self._ac
    def __setattr__(self, k, v):
        if k == 'autocommit':
            if self.ctl['armed']: self.ctl['events'].append(['autocommit:%s' % bool(v), True, self._ac, self.dtx])
            if self.dtx: self.ctl['bad'] = True
            self.__dict__['_ac'] = bool(v)
        else: self.__dict__[k] = v
    def set_client_encoding(self, enc): pass
    def cursor(self): return FakePgCursor(self)
    def commit(self):
        if self.call('commit'): self.dtx = False
        else: self.fail()
    def rollback(self):
        if self.call('rollback'): self.dtx = False
        else: self.fail()
    def close(self):
        ok = self.call('close'); self.dtx = False
        if not ok: self.fail()


def pg_cases(payload):
    """Real Database / PGProvider.set_transaction_mode / PGPool.release / SessionCache code on a recording, fault-injecting stub connection."""
    sys.path.insert(0, os.path.dirname(os.path.abspath(__file__)))
    import vlib, types
    from pony import orm
    vlib.stub_modules()
    from pony.orm.dbproviders.postgres import PGPool
    outs = []
    for case in payload['cases']:
        ctl = {'armed': False, 'n': 0, 'faults': set(case.get('faults', [])), 'events': [], 'bad': False}
        fake = types.SimpleNamespace(connect=lambda *a, **k: FakePgConnection(ctl, False))
        db = orm.Database('postgres', pony_pool_mockup=PGPool(fake))     # the real Database / PGProvider / PGPool on the stub driver
        ctl['armed'] = True
        excs = []
        for shape, ops, fail in case['sessions']:
            try:
                with orm.db_session(**session_kwargs(shape)):
                    for op, catch in ops:
                        try:
                            if op == 'select': db.select('select id from t', {}, {})
                            elif op == 'write': db.execute('insert into t (v) values (1)', {}, {})
                            elif op == 'commit': orm.commit()
                            elif op == 'rollback': orm.rollback()
                        except Exception:
                            if not catch: raise
                    if fail: raise BodyError('body')
                excs.append('none')
            except BaseException as e:
                excs.append(exc_enum(e))
        ctl['armed'] = False
        from pony.orm import core
        outs.append({'events': ctl['events'], 'excs': excs, 'bad': bool(ctl['bad']), 'db2cache_empty': not core.local.db2cache})
    return outs


def main():
    payload = json.load(sys.stdin)
    kill = threading.Timer(float(payload.get('total_timeout', 1200)), lambda: os._exit(3)); kill.daemon = True; kill.start()
    mode = payload['mode']
    res = None
    if mode == 'crash_child':
        res = crash_child(payload)
    elif mode == 'crash_read':
        res = {'rows': read_rows(payload['path'])}
    elif mode == 'sql_text':
        res = sql_text_cases(payload)
    elif mode == 'pg':
        res = pg_cases(payload)
    elif mode == 'crash_batch':
        workdir = tempfile.mkdtemp(prefix='c17-', dir=payload.get('tmp') or None)
        try: res = crash_batch(payload, workdir)
        finally: shutil.rmtree(workdir, ignore_errors=True)
    else:
        install_proxy()
        workdir = tempfile.mkdtemp(prefix='c19-', dir=payload.get('tmp') or None)
        try:
            outs = []
            slow = int(payload.get('slow_so_far', 0))
            for n, case in enumerate(payload['cases']):
                case['n'] = n
                if slow >= int(payload.get('max_hung', 12)):
                    outs.append({'harness_error': 'skipped: too many hung sessions before this case', 'skipped': True})
                    continue
                try:
                    if mode == 'sessions':
                        o = run_session_case(case, workdir)
                        if o.get('deadlock') or o.get('hung') or o.get('follow_other') == 'timeout' or any(e[0] == 'self-deadlock' for e in o.get('lock_events', [])): slow += 1
                        outs.append(o)
                    elif mode == 'threads':
                        o = run_thread_case(case, workdir)
                        if o.get('failed'): slow += 1
                        outs.append(o)
                    else: raise ValueError(mode)
                except Exception as e:
                    outs.append({'harness_error': '%s: %s\n%s' % (type(e).__name__, e, traceback.format_exc()[-1500:])})
            res = outs
        finally:
            shutil.rmtree(workdir, ignore_errors=True)
    sys.stdout.write('\n@@JSON@@' + json.dumps(res))
    sys.stdout.flush()
    os._exit(0)      # never hang on a stray thread


if __name__ == '__main__':
    main()
