#!/bin/bash
# tools/confirm_seeded.sh seeded/<id>   -- confirm a seeded change in a scratch worktree:
#   demo passes on the original tree, fails with the patch; the repo's test suite gives the baseline result with the patch.
set -u
D=$(readlink -f "$1")
W=$(mktemp -d /tmp/confirm-XXXXXX)
git -C /repo worktree add -q --detach "$W/repo" HEAD || exit 2
cd "$W/repo"
run_demo() { cp "$D/demo.py" "$W/repo/demo.py"; ( cd "$W/repo" && PYTHONPATH="$W/repo" PYTHONHASHSEED=0 timeout 600 /venv/bin/python demo.py > "$W/demo.out" 2>&1 ); echo $?; }
ORIG=$(run_demo)
git apply "$D/patch.diff" || { echo "patch does not apply"; git -C /repo worktree remove --force "$W/repo"; rm -rf "$W"; exit 2; }
MUT=$(run_demo); tail -3 "$W/demo.out" > "$W/demo_tail.txt"
SUITE=$(cd "$W/repo" && PYTHONPATH="$W/repo" timeout 1500 /venv/bin/python -m pytest -q -p no:cacheprovider --timeout=900 -q pony 2>&1 | tail -1)
FAILS=$(cd "$W/repo" && PYTHONPATH="$W/repo" timeout 1500 /venv/bin/python -m pytest -q -p no:cacheprovider --timeout=900 -q pony 2>&1 | grep -E "^(FAILED|ERROR)" | sort | tr '\n' ';')
echo "demo_exit_original=$ORIG demo_exit_patched=$MUT"
echo "suite_with_patch: $SUITE"
echo "suite_failures: $FAILS"
git -C /repo worktree remove --force "$W/repo"; rm -rf "$W"
