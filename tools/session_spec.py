"""Logical reference state of a history, for the implementation-side oracles of C09 and C10 (used by session_impl.Runner).

This is NOT a model of Pony's cache: no statuses, no save queue, no written bits, no database values, no SetData.  The state is a
dict  spec id -> {'ent', 'pk', 'vals'}  of the objects the program can see, where vals holds scalar values and, for reference
attributes, the spec id of the target; the members of a one-to-many collection x.coll are derived: the live objects whose reverse
reference is x.  Every successful mutating operation applies its documented logical effect at once; an operation that raised leaves
the state unchanged; commit copies the state to `committed`; rollback and a failed commit copy `committed` back.

    C09  at every dump point (commit / rollback / new db_session / end) the rows read through a separate connection must be the
         rows of `committed`.
    C10  every successful read must return what the logical state says (attribute, reference, collection members, count,
         is_empty, contains, E[pk], E.get(attr=v), E.select(attr=v), E.select()).

The only implementation internals read are obj._pkval_ (to learn which AUTOINCREMENT id an object received) and object identity.
Checking stops at the first divergence of a history (later differences are consequences), and - without a report - when the program
uses a deleted object as a value (no defined logical effect).
"""

DEFAULTS = {'int': None, 'str': '', 'ref': None}


class Spec(object):
    def __init__(self, schema):
        self.S = schema['ents']
        self.committed = {}
        self.cur = {}
        self.next_id = 0
        self.by_py = {}       # id(python object) -> spec id, within one session
        self.py_of = {}       # spec id -> python object (objects whose pk is not known yet)
        self.keep = []        # keeps the python objects of by_py alive (ids must not be reused)
        self.stopped = None   # reason why checking stopped
        self.db_error = False # an operation of this session failed inside the database layer (flush / load): the transaction may hold garbage
        self.tainted = set()  # (owner, attribute) of collections from which this session removed items (remove / assign)
        self.obj_flushed = False   # an obj.flush() saved objects since the last full flush: pending added / removed sets were not reset
        self.violations = []  # (check, detail)
        self.db_error_at_commit = False

    # ---- helpers
    @staticmethod
    def clone(st):
        return {k: {'ent': o['ent'], 'pk': o['pk'], 'vals': {a: (set(v) if isinstance(v, set) else v) for a, v in o['vals'].items()}}
                for k, o in st.items()}

    def new_session(self):
        self.by_py, self.py_of, self.keep = {}, {}, []
        self.db_error = False; self.tainted = set(); self.obj_flushed = False

    def sid(self, obj, ent):
        k = self.by_py.get(id(obj))
        if k is not None: return k
        pk = obj._pkval_
        if pk is None: return None
        for k, o in self.cur.items():
            if o['ent'] == ent and o['pk'] == pk and k not in self.py_of:
                self.by_py[id(obj)] = k; self.keep.append(obj)
                return k
        return None

    def learn_pks(self):
        for k, obj in list(self.py_of.items()):
            if k not in self.cur: del self.py_of[k]; continue
            if obj._pkval_ is not None:
                self.cur[k]['pk'] = obj._pkval_
                del self.py_of[k]

    def attr(self, e, a): return self.S[e]['attrs'][a]

    def default(self, e, a):
        """Value of an attribute that was not given (or given as None): an Optional str that is (part of) a unique key is nullable and
        defaults to None, any other Optional str to ''."""
        at = self.attr(e, a)
        if at['k'] == 'str' and not at['req'] and (at['uniq'] or any(a in ck for ck in self.S[e].get('ckeys', []))): return None
        return DEFAULTS[at['k']]

    def kind(self, e, a):
        """'int' | 'str' | 'm2o' (reference, reverse is a collection) | 'o2m' (its collection) | 'm2m' | 'o2o' (stage 2: the last two)."""
        at = self.attr(e, a)
        if at['k'] in ('int', 'str'): return at['k']
        rk = self.attr(at['tgt'], at['rev'])['k']
        if at['k'] == 'ref': return 'm2o' if rk == 'set' else 'o2o'
        return 'o2m' if rk == 'ref' else 'm2m'

    def canonical(self, e, a):
        at = self.attr(e, a)
        return (e, a) < (at['tgt'], at['rev'])

    def pairs(self, st, e, a):
        """many-to-many links of the canonical side (e, a) in state st: set of (id on this side, id on the other side), live ends only."""
        return set((x, y) for x, o in st.items() if o['ent'] == e for y in (o['vals'].get(a) or ()) if y in st)

    def members(self, x, a):
        e = self.cur[x]['ent']; at = self.attr(e, a)
        if self.kind(e, a) == 'm2m':
            if self.canonical(e, a): return set(y for y in (self.cur[x]['vals'].get(a) or ()) if y in self.cur)
            return set(k for k, o in self.cur.items() if o['ent'] == at['tgt'] and x in (o['vals'].get(at['rev']) or ()))
        return set(k for k, o in self.cur.items() if o['ent'] == at['tgt'] and o['vals'].get(at['rev']) == x)

    def cascade(self, e, a):
        at = self.attr(e, a)
        return self.kind(e, a) == 'o2m' and self.attr(at['tgt'], at['rev'])['req']

    def m2m_change(self, x, a, items, add):
        e = self.cur[x]['ent']; at = self.attr(e, a)
        for b in items:
            if b not in self.cur: continue
            owner, slot, other = (x, a, b) if self.canonical(e, a) else (b, at['rev'], x)
            cur = self.cur[owner]['vals'].get(slot)
            if cur is None: cur = self.cur[owner]['vals'][slot] = set()
            if add: cur.add(other)
            else: cur.discard(other)

    def set_o2o(self, x, a, y):
        """x.a = y for a one-to-one attribute: both previous partners lose their side."""
        at = self.attr(self.cur[x]['ent'], a)
        old = self.cur[x]['vals'].get(a)
        if old is not None and old in self.cur and old != y: self.cur[old]['vals'][at['rev']] = None
        if y is not None:
            yold = self.cur[y]['vals'].get(at['rev'])
            if yold is not None and yold in self.cur and yold != x: self.cur[yold]['vals'][a] = None
            self.cur[y]['vals'][at['rev']] = x
        self.cur[x]['vals'][a] = y

    def delete(self, x):
        if x not in self.cur: return
        e = self.cur[x]['ent']
        for a, at in enumerate(self.S[e]['attrs']):
            if x not in self.cur: return
            k = self.kind(e, a)
            if k == 'o2m':
                for b in sorted(self.members(x, a)):
                    if b not in self.cur: continue
                    if self.cascade(e, a): self.delete(b)
                    else: self.cur[b]['vals'][at['rev']] = None
            elif k == 'm2m':
                self.m2m_change(x, a, list(self.members(x, a)), False)
            elif k == 'o2o':
                p = self.cur[x]['vals'].get(a)
                if p is not None and p in self.cur: self.cur[p]['vals'][at['rev']] = None
        self.cur.pop(x, None)

    def unlink(self, x, a, items):
        e = self.cur[x]['ent']; at = self.attr(e, a)
        if self.kind(e, a) == 'm2m': return self.m2m_change(x, a, items, False)
        for b in sorted(items):
            if b in self.cur and self.cur[b]['vals'].get(at['rev']) == x:
                self.tainted.add((x, a))
                if self.cascade(e, a): self.delete(b)
                else: self.cur[b]['vals'][at['rev']] = None

    def link(self, x, a, items):
        e = self.cur[x]['ent']; at = self.attr(e, a)
        if self.kind(e, a) == 'm2m': return self.m2m_change(x, a, items, True)
        for b in items:
            if b in self.cur: self.cur[b]['vals'][at['rev']] = x

    def assign(self, x, a, items):
        cur = self.members(x, a)
        self.unlink(x, a, cur - set(items))
        if x in self.cur: self.link(x, a, [b for b in items if b not in cur])

    def stop(self, why): self.stopped = why

    def bad(self, check, detail):
        # In a session whose transaction was damaged by a failed flush / load every read can be wrong (orphan rows, reset pending sets, the
        # saved_objects assertion): one root cause with an unbounded family of symptoms, keyed by the root cause and a coarse class only.
        if self.obj_flushed and check in ('c10-count', 'c10-isempty'): check += '-after-obj-flush'
        if self.db_error and not check.endswith(('-by-unsaved-object', '-after-remove', '-after-obj-flush')):
            check = 'c10-read-assertion-after-db-error' if check == 'c10-read-assertion' else 'c10-read-after-db-error'
        self.violations.append((check, detail))
        self.stopped = check

    # ---- arguments: python values of the runner -> spec values; 'dead' when a deleted / unknown object is used as a value
    def val_of(self, e, a, v, objs_of):
        """v is the op argument (None / int / str / {'h'} / {'hs'}); objs_of maps it to python objects. Returns (kind, value)."""
        at = self.attr(e, a)
        if at['k'] in ('int', 'str'):
            if isinstance(v, dict): return ('dead', None)
            return ('val', self.default(e, a) if (v is None and at['k'] == 'str') else v)
        objs = objs_of(v)
        if objs == 'bad handle': return ('dead', None)
        if at['k'] == 'ref':
            if v is None: return ('val', None)
            if not isinstance(objs, list) or len(objs) != 1: return ('dead', None)
            k = self.sid(objs[0], at['tgt'])
            return ('val', k) if k in self.cur else ('dead', None)
        if v is None: return ('dead', None)
        if not isinstance(objs, list): return ('dead', None)
        ks = [self.sid(o, at['tgt']) for o in objs]
        if any(k not in self.cur for k in ks): return ('dead', None)
        return ('set', ks)

    # ---- one operation
    def step(self, op, res, rn, cache_changed):
        """rn: the Runner (handles, ents).  Called after the implementation ran `op` with result `res`."""
        k = op[0]
        ok = res[0] != 'err'
        if k in ('commit', 'newsession', 'rollback'):
            self.db_error_at_commit = self.db_error       # for the dump check that follows
            if k != 'rollback' and ok:
                self.learn_pks()
                self.committed = self.clone(self.cur)
                self.obj_flushed = False      # commit flushed everything
            else:
                self.cur = self.clone(self.committed)
            if k != 'commit' or not ok: self.new_session()
            return
        if cache_changed:
            # the session was rolled back underneath the program (not by commit / rollback / leaving the db_session)
            self.cur = self.clone(self.committed); self.new_session()
            return
        if not ok and res[1] in ('TxnIntegrity', 'Integrity', 'Cyclic', 'Optimistic', 'Unrepeatable', 'KeyError', 'Assertion', 'Other'):
            was, self.db_error = self.db_error, True
            if k in ('read', 'count', 'isempty', 'contains') and res[1] == 'Assertion' and not self.stopped:
                self.db_error = was          # the assertion itself is judged with the state before it
                self.step_checked(op, res, rn)
                self.db_error = True
            return
        if self.stopped: return
        self.pre_unsaved = set(x for x, o in self.cur.items() if o['pk'] is None)     # objects without a primary key when the op started
        self.learn_pks()
        if k == 'flushobj': self.obj_flushed = True
        if k == 'flush': self.obj_flushed = False
        if k in ('flush', 'flushobj'): return        # no logical effect
        self.step_checked(op, res, rn)

    def step_checked(self, op, res, rn):
        k = op[0]
        ok = res[0] != 'err'
        def objs_of(v):
            if v is None or not isinstance(v, dict): return v
            hs = [v['h']] if 'h' in v else v['hs']
            if not all(0 <= h < len(rn.handles_before) for h in hs): return 'bad handle'
            return [rn.handles_before[h] for h in hs]
        H = rn.handles_before
        if k == 'new':
            if not ok: return
            e, pk, kw = op[1], op[2], op[3]
            obj = rn.handles[res[1]]
            vals, sets = {}, []
            o2o = []
            for a, at in enumerate(self.S[e]['attrs']):
                if at['k'] != 'set': vals[a] = self.default(e, a)
            for a, v in kw:
                kind, x = self.val_of(e, a, v, objs_of)
                if kind == 'dead': return self.stop('deleted object used as a value')
                if kind == 'set': sets.append((a, x))
                elif self.kind(e, a) == 'o2o': o2o.append((a, x))
                else: vals[a] = x
            x = self.next_id; self.next_id += 1
            self.cur[x] = {'ent': e, 'pk': pk, 'vals': vals}
            self.by_py[id(obj)] = x; self.keep.append(obj)
            if pk is None: self.py_of[x] = obj
            for a, y in o2o: self.set_o2o(x, a, y)
            for a, items in sets: self.link(x, a, items)
            self.learn_pks()
            return
        if k in ('getpk', 'getby', 'select', 'selectall'):
            return self.check_query(op, res, rn, objs_of)
        # ops on a handle
        h = op[1]
        if not (0 <= h < len(H)): return
        obj = H[h]; e = rn.ent_index(obj)
        x = self.sid(obj, e)
        if x is None or x not in self.cur:
            if ok and k in ('read', 'count', 'isempty', 'contains') and x is None:
                self.bad('c10-unknown-object', 'handle %d denotes %r, an object the program never successfully created or loaded' % (h, obj))
            return
        if k == 'del':
            if ok: self.delete(x)
            return
        if k == 'pk':
            if ok and self.cur[x]['pk'] is not None and res[1] != self.cur[x]['pk']:
                self.bad('c10-pk-read', 'expected %r, got %r' % (self.cur[x]['pk'], res[1]))
            return
        if k == 'setmany':
            if not ok: return
            sets, plain, o2o = [], [], []
            for a, v in op[2]:
                kind, y = self.val_of(e, a, v, objs_of)
                if kind == 'dead': return self.stop('deleted object used as a value')
                if kind == 'set': sets.append((a, y))
                elif self.kind(e, a) == 'o2o': o2o.append((a, y))
                else: plain.append((a, y))
            for a, y in plain: self.cur[x]['vals'][a] = y
            for a, y in o2o: self.set_o2o(x, a, y)
            for a, items in sets:
                if x in self.cur: self.assign(x, a, items)
            return
        a = op[2]
        if a >= len(self.S[e]['attrs']): return
        at = self.attr(e, a)
        if k == 'set':
            if not ok or at['k'] == 'set': return
            kind, y = self.val_of(e, a, op[3], objs_of)
            if kind != 'val': return self.stop('deleted object used as a value')
            if self.kind(e, a) == 'o2o': self.set_o2o(x, a, y)
            else: self.cur[x]['vals'][a] = y
            return
        if k == 'read':
            if not ok:
                if res[1] == 'Assertion': self.bad('c10-read-assertion', 'reading %r.a%d raised AssertionError' % (obj, a))
                return
            if at['k'] == 'set': return self.cmp_objs('c10-collection-read', res, self.members(x, a), rn, at['tgt'])
            want = self.cur[x]['vals'].get(a)
            if at['k'] == 'ref':
                got = None if res[0] == 'none' else self.sid(rn.handles[res[1]], at['tgt'])
                if res[0] == 'none' and want is None: return
                if res[0] == 'none' or got != want or got is None:
                    self.bad('c10-ref-read', 'a%d of %s: expected %s, got %s' % (a, self.show(x), self.show(want), 'None' if res[0] == 'none' else repr(rn.handles[res[1]])))
                return
            if res[0] != 'val' or res[1] != want or type(res[1]) is not type(want):
                self.bad('c10-attr-read', 'a%d of %s: expected %r, got %r' % (a, self.show(x), want, res[1:]))
            return
        if at['k'] != 'set': return
        if k in ('count', 'isempty', 'contains'):
            if not ok:
                if res[1] == 'Assertion': self.bad('c10-read-assertion', '%s on %r.a%d raised AssertionError' % (k, obj, a))
                return
            mem = self.members(x, a)
            if k == 'count' and res[1] != len(mem):
                self.bad('c10-count-after-remove' if (x, a) in self.tainted else 'c10-count', '%s.a%d has %d members %s, count() returned %r' % (self.show(x), a, len(mem), self.shows(mem), res[1]))
            if k == 'isempty' and res[1] != (len(mem) == 0):
                self.bad('c10-isempty', '%s.a%d has %d members, is_empty() returned %r' % (self.show(x), a, len(mem), res[1]))
            if k == 'contains':
                if not (0 <= op[3] < len(H)): return
                y = self.sid(H[op[3]], rn.ent_index(H[op[3]]))
                if y is None or y not in self.cur: return
                if res[1] != (y in mem):
                    self.bad('c10-contains', '%s in %s.a%d: expected %r, got %r' % (self.show(y), self.show(x), a, y in mem, res[1]))
            return
        if not ok: return
        items = []
        for hh in op[3]:
            if not (0 <= hh < len(H)): return
            y = self.sid(H[hh], rn.ent_index(H[hh]))
            if y is None or y not in self.cur: return self.stop('deleted object used as a value')
            if self.cur[y]['ent'] != at['tgt']: return self.stop('ill-typed item accepted')
            if y not in items: items.append(y)
        if k == 'add': self.link(x, a, items)
        elif k == 'remove': self.unlink(x, a, items)
        elif k == 'assign': self.assign(x, a, items)

    # ---- queries
    def check_query(self, op, res, rn, objs_of):
        k, e = op[0], op[1]
        ok = res[0] != 'err'
        live = lambda: [x for x, o in self.cur.items() if o['ent'] == e]
        if self.key_conflict_pending(e): return     # two objects hold one key: the flush will refuse it, queries have no defined answer
        if k == 'selectall':
            if ok: self.cmp_objs('c10-selectall', res, set(live()), rn, e)
            return
        if k == 'getpk':
            pk = op[2]
            if isinstance(pk, bool) or not isinstance(pk, int): return
            want = [x for x in live() if self.cur[x]['pk'] == pk]
            if ok:
                got = self.sid(rn.handles[res[1]], e)
                if not want or got != want[0]:
                    self.bad('c10-getpk', 'E%d[%r]: expected %s, got %r' % (e, pk, self.shows(want), rn.handles[res[1]]))
            elif res[1] == 'ObjectNotFound' and want:
                self.bad('c10-getpk', 'E%d[%r] raised ObjectNotFound, the session has %s' % (e, pk, self.shows(want)))
            return
        a, v = op[2], op[3]
        if a >= len(self.S[e]['attrs']): return
        at = self.attr(e, a)
        if at['k'] == 'set' or (at['k'] == 'str' and v is None): return
        kind, y = self.val_of(e, a, v, objs_of)
        if kind != 'val':
            return
        if isinstance(y, bool) or (at['k'] == 'int' and y is not None and not isinstance(y, int)) or (at['k'] == 'str' and not isinstance(y, str)): return
        want = set(x for x in live() if self.cur[x]['vals'].get(a) == y)
        unsaved = at['k'] == 'ref' and y is not None and y in getattr(self, 'pre_unsaved', ())      # the criterion is an object that had no primary key yet
        if k == 'select':
            if ok: self.cmp_objs('c10-select-by-unsaved-object' if unsaved else 'c10-select', res, want, rn, e)
            return
        if ok:
            if res[0] == 'none':
                if want: self.bad('c10-getby-by-unsaved-object' if unsaved else 'c10-getby', 'E%d.get(a%d=%r) returned None, the session has %s' % (e, a, v, self.shows(want)))
            else:
                got = self.sid(rn.handles[res[1]], e)
                if got not in want or len(want) != 1:
                    self.bad('c10-getby', 'E%d.get(a%d=%r) returned %r, expected %s' % (e, a, v, rn.handles[res[1]], self.shows(want)))
        elif res[1] == 'Multiple' and len(want) <= 1:
            self.bad('c10-getby', 'E%d.get(a%d=%r) raised MultipleObjectsFoundError, the session has %s' % (e, a, v, self.shows(want)))

    def key_conflict_pending(self, e):
        seen = set()
        for x, o in self.cur.items():
            if o['ent'] != e: continue
            ks = [('id', o['pk'])] if o['pk'] is not None else []
            ks += [(a, o['vals'].get(a)) for a, at in enumerate(self.S[e]['attrs']) if at['k'] in ('int', 'str') and at['uniq'] and o['vals'].get(a) is not None]
            for ck in self.S[e].get('ckeys', []):
                vs = tuple(o['vals'].get(a) for a in ck)
                if None not in vs: ks.append((tuple(ck), vs))
            for k in ks:
                if k in seen: return True
                seen.add(k)
        return False

    def cmp_objs(self, check, res, want, rn, ent):
        objs = [rn.handles[h] for h in res[1]]
        got = [self.sid(o, ent) for o in objs]
        if None in got or set(got) != set(want) or len(got) != len(set(got)):
            self.bad(check, 'expected %s, got %s' % (self.shows(want), sorted(map(repr, objs))))

    def show(self, x):
        if x is None: return 'None'
        o = self.cur.get(x)
        if o is None: return '<deleted #%d>' % x
        return 'E%d[%s]' % (o['ent'], o['pk'] if o['pk'] is not None else 'new#%d' % x)

    def shows(self, xs): return '[' + ', '.join(sorted(self.show(x) for x in xs)) + ']'

    # ---- committed rows
    def rows(self, st, has_column=None):
        out = []
        for e, ent in enumerate(self.S):
            tab = []
            for x, o in st.items():
                if o['ent'] != e: continue
                cols = []
                for a, at in enumerate(ent['attrs']):
                    if at['k'] == 'set': continue
                    if has_column is not None and not has_column(e, a): continue
                    v = o['vals'].get(a)
                    if at['k'] == 'ref' and v is not None:
                        v = st[v]['pk'] if v in st else ('<deleted #%d>' % v)
                    cols.append(v)
                tab.append([o['pk'], cols])
            tab.sort(key=lambda r: (r[0] is None, r[0]))
            out.append(tab)
        return out

    def link_rows(self, st):
        out = {}
        for e, ent in enumerate(self.S):
            for a, at in enumerate(ent['attrs']):
                if at['k'] == 'set' and self.kind(e, a) == 'm2m' and self.canonical(e, a):
                    lo, hi = sorted([(e, a), (at['tgt'], at['rev'])])
                    out['L_%d_%d_%d_%d' % (lo + hi)] = sorted((st[x]['pk'], st[y]['pk']) for x, y in self.pairs(st, e, a))
        return out

    def check_dump(self, d, links=None, has_column=None):
        """Compare the rows of a dump point with `committed`. Returns (check, detail) or None."""
        if self.stopped: return None
        want = self.rows(self.committed, has_column)
        if want == d:
            wl = self.link_rows(self.committed)
            for t in sorted(wl):
                got = [tuple(r) for r in (links or {}).get(t, [])]
                for r in got:
                    if r not in wl[t]: return self.bad_dump('c09-link-row-not-committed-by-program', 'table %s has the link %r; the program committed %r' % (t, r, wl[t]))
                for r in wl[t]:
                    if r not in got: return self.bad_dump('c09-committed-link-row-missing', 'table %s lacks the link %r the program committed; it has %r' % (t, r, got))
            return None
        for e, (tw, td) in enumerate(zip(want, d)):
            pw = {r[0]: r[1] for r in tw}; pd = {r[0]: r[1] for r in td}
            for pk in pd:
                if pk not in pw: return self.bad_dump('c09-row-not-committed-by-program', 'E%d has the row %r; the program committed %r' % (e, [pk, pd[pk]], tw))
            for pk in pw:
                if pk not in pd: return self.bad_dump('c09-committed-row-missing', 'E%d lacks the row %r the program committed; it has %r' % (e, [pk, pw[pk]], td))
            for pk in pw:
                if pw[pk] != pd[pk]: return self.bad_dump('c09-committed-value-differs', 'E%d[%r]: the program committed %r, the database has %r' % (e, pk, pw[pk], pd[pk]))
        return self.bad_dump('c09-committed-value-differs', 'expected %r, got %r' % (want, d))

    def bad_dump(self, check, detail):
        if self.db_error_at_commit: check = 'c09-committed-state-after-db-error'      # same: one root cause, many symptoms
        self.stopped = check
        return (check, detail)
