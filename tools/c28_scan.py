"""C28, Tie A: tables for coq/Gen/Mutators.v.

(1) the mutating methods of list and dict, derived from the *running* CPython: every name in dir(list) / dir(dict) is called
    with a table of argument shapes on fresh sample receivers; a name is a mutator iff some call changes its receiver;
(2) the methods that Pony's TrackedList / TrackedDict / TrackedArray wrap, read with `ast` from ormtypes.py of vlib.REPO:
    `name = tracked_method(list.name)` assignments and `def`s that delegate to a wrapped method.

Fail closed: any statement of the three class bodies (or of tracked_method) that the scan does not recognise raises
TranslateError, which the check treats like a broken proof.
"""
import ast, os, sys, copy
import vlib
from vlib import TranslateError

ORMTYPES = 'pony/orm/ormtypes.py'

# ------------------------------------------------------------------------------------------------ (1) CPython

ARG_SHAPES = [(), (0,), (1,), (2,), (-1,), ([7, 8],), (0, 7), (slice(0, 1), [7]), (slice(0, 1),), ({'k': 1},), ('a',), ('a', 1),
              ('zz', 1), ([('k', 1)],)]

def _samples(T):
    if T is list: return [[3, 1, 2], [[1], [2]], []]
    return [{'a': 1, 'b': 2}, {}]

def cpython_mutators(T):
    """names n in dir(T) such that x.n(*args) changes x for some sample x and argument shape"""
    out, readers = [], []
    for name in sorted(dir(T)):
        if name in ('__class__', '__new__', '__init_subclass__', '__subclasshook__', '__class_getitem__'):
            readers.append(name); continue
        mutates = False
        for sample in _samples(T):
            for args in ARG_SHAPES:
                x = copy.deepcopy(sample)
                before = repr(x)
                try:
                    getattr(x, name)(*copy.deepcopy(args))
                except Exception:
                    pass
                if repr(x) != before or type(x) is not T:
                    mutates = True
        (out if mutates else readers).append(name)
    return out, readers


# ------------------------------------------------------------------------------------------------ (2) ormtypes.py

READONLY_DEFS = {'__init__', '__reduce__', 'get_untracked', '__contains__'}     # defs that do not mutate the container

def _parse():
    path = os.path.join(vlib.REPO, ORMTYPES)
    try:
        src = open(path).read()
        return ast.parse(src), src
    except (IOError, SyntaxError) as e:
        raise TranslateError('cannot read/parse %s: %s' % (ORMTYPES, e))

def _find(tree, kind, name):
    for n in tree.body:
        if isinstance(n, kind) and n.name == name: return n
    raise TranslateError('%s %s not found in %s' % (kind.__name__, name, ORMTYPES))

def _calls(node):
    return [n for n in ast.walk(node) if isinstance(n, ast.Call)]

def check_tracked_method(fdef):
    """tracked_method(func) must still: convert positional and keyword arguments with TrackedValue.make(obj, attr, .),
    call func(self, *args, **kwargs), then self._changed_(), and return the result."""
    if [a.arg for a in fdef.args.args] != ['func']: raise TranslateError('tracked_method: signature changed')
    inner = [n for n in fdef.body if isinstance(n, ast.FunctionDef)]
    if len(inner) != 1: raise TranslateError('tracked_method: expected one inner function')
    f = inner[0]
    if [a.arg for a in f.args.args] != ['self'] or f.args.vararg is None or f.args.kwarg is None:
        raise TranslateError('tracked_method: inner signature changed')
    src = [ast.unparse(s) for s in f.body]
    order = []
    for i, s in enumerate(f.body):
        u = src[i]
        for c in _calls(s):
            cu = ast.unparse(c.func)
            if cu == 'TrackedValue.make' and [ast.unparse(a) for a in c.args[:2]] == ['obj', 'attr']: order.append(('make', i))
            if cu == 'func' and c.args and ast.unparse(c.args[0]) == 'self': order.append(('func', i))
            if cu == 'self._changed_' and isinstance(s, ast.Expr): order.append(('changed', i))
    kinds = [k for k, _ in order]
    if kinds.count('func') != 1 or kinds.count('changed') != 1 or kinds.count('make') < 2:
        raise TranslateError('tracked_method: body not recognised: %r' % (src,))
    pos = dict((k, i) for k, i in order)
    if not (pos['func'] < pos['changed']): raise TranslateError('tracked_method: _changed_ is not called after func')
    top_changed = [s for s in f.body if isinstance(s, ast.Expr) and ast.unparse(s) == 'self._changed_()']
    if len(top_changed) != 1: raise TranslateError('tracked_method: self._changed_() is not an unconditional statement of the wrapper')
    last = f.body[-1]
    if not (isinstance(last, ast.Return) and ast.unparse(last.value) == 'result'): raise TranslateError('tracked_method: does not return result')
    ret = fdef.body[-1]
    if not (isinstance(ret, ast.Return) and ast.unparse(ret.value) == f.name): raise TranslateError('tracked_method: does not return the wrapper')

def check_changed(cdef):
    """TrackedValue._changed_ must call obj._attr_changed_(self.attr) for a live obj; TrackedValue.make must wrap dict and list."""
    ch = [n for n in cdef.body if isinstance(n, ast.FunctionDef) and n.name == '_changed_']
    if len(ch) != 1 or 'obj._attr_changed_(self.attr)' not in ast.unparse(ch[0]):
        raise TranslateError('TrackedValue._changed_ not recognised')
    mk = [n for n in cdef.body if isinstance(n, ast.FunctionDef) and n.name == 'make']
    u = ast.unparse(mk[0]) if mk else ''
    if 'isinstance(value, dict)' not in u or 'TrackedDict(obj, attr, value)' not in u or 'isinstance(value, list)' not in u \
            or 'TrackedList(obj, attr, value)' not in u:
        raise TranslateError('TrackedValue.make not recognised')

def check_init(cdef, builtin):
    """Tracked*.__init__ must wrap every item with self.make(obj, attr, .)"""
    ini = [n for n in cdef.body if isinstance(n, ast.FunctionDef) and n.name == '__init__']
    u = ast.unparse(ini[0]) if ini else ''
    if 'TrackedValue.__init__(self, obj, attr)' not in u or 'self.make(obj, attr, val)' not in u or ('%s.__init__(self' % builtin) not in u:
        raise TranslateError('%s.__init__ not recognised' % cdef.name)

def scan_class(cdef, builtin, inherited=None, base_name=None):
    """-> (wrapped public names, aliases {name: builtin method}, readonly defs)"""
    wrapped = {}          # name -> builtin method it wraps
    deleg = {}
    readonly = []
    inherited = dict(inherited or {})
    defs = []
    for st in cdef.body:
        if isinstance(st, ast.Expr) and isinstance(st.value, ast.Constant): continue       # docstring
        if isinstance(st, ast.Pass): continue
        if isinstance(st, ast.Assign) and len(st.targets) == 1 and isinstance(st.targets[0], ast.Name):
            name = st.targets[0].id
            v = st.value
            if isinstance(v, ast.Call) and isinstance(v.func, ast.Name) and v.func.id == 'tracked_method' and len(v.args) == 1 \
                    and isinstance(v.args[0], ast.Attribute) and isinstance(v.args[0].value, ast.Name) and not v.keywords:
                if v.args[0].value.id != builtin:
                    raise TranslateError('%s.%s wraps %s' % (cdef.name, name, ast.unparse(v.args[0])))
                meth = v.args[0].attr
                if name != meth and not name.startswith('_'):
                    raise TranslateError('%s.%s wraps a different method: %s' % (cdef.name, name, ast.unparse(v.args[0])))
                wrapped[name] = meth
                continue
            raise TranslateError('%s: assignment not recognised: %s' % (cdef.name, ast.unparse(st)))
        if isinstance(st, ast.FunctionDef):
            defs.append(st); continue
        raise TranslateError('%s: statement not recognised: %s' % (cdef.name, ast.unparse(st)[:80]))
    pending = [f for f in defs if f.name not in READONLY_DEFS]
    readonly += [f.name for f in defs if f.name in READONLY_DEFS]
    progress = True
    while pending and progress:
        progress = False
        for f in list(pending):
            routed = set(n for n, m in wrapped.items()) | set(deleg) | set(n for n in inherited if n != f.name)
            target = None
            for c in _calls(f):
                fn = c.func
                if isinstance(fn, ast.Attribute) and isinstance(fn.value, ast.Name):
                    # self._update(...) from update; self.extend(...) from __iadd__: any method that goes through tracked_method
                    if fn.value.id == 'self' and fn.attr in routed and fn.attr != f.name: target = fn.attr
                    # TrackedList.append(self, item) from TrackedArray.append
                    if base_name and fn.value.id == base_name and fn.attr == f.name and fn.attr in inherited \
                            and c.args and ast.unparse(c.args[0]) == 'self': target = fn.attr
            if target is None: continue
            # the delegating call must be unconditional: a top-level statement of the def
            top = [s for s in f.body if isinstance(s, (ast.Expr, ast.Return)) and any(
                isinstance(c.func, ast.Attribute) and c.func.attr == target for c in _calls(s))]
            if not top: raise TranslateError('%s.%s: delegation is conditional' % (cdef.name, f.name))
            deleg[f.name] = target
            pending.remove(f); progress = True
    if pending:
        raise TranslateError('%s.%s: a method definition that does not delegate to a wrapped method' % (cdef.name, pending[0].name))
    public = sorted(set([n for n, m in wrapped.items() if n == m] + list(deleg) + [n for n in inherited if n not in readonly or n in deleg]))
    return public, wrapped, sorted(readonly), deleg


def scan():
    tree, src = _parse()
    check_tracked_method(_find(tree, ast.FunctionDef, 'tracked_method'))
    tval = _find(tree, ast.ClassDef, 'TrackedValue')
    check_changed(tval)
    for n in tval.body:
        if isinstance(n, ast.FunctionDef) and n.name not in ('__init__', 'make', '_changed_', 'get_untracked'):
            raise TranslateError('TrackedValue defines %s' % n.name)
    tdict, tlist, tarr = (_find(tree, ast.ClassDef, n) for n in ('TrackedDict', 'TrackedList', 'TrackedArray'))
    if [ast.unparse(b) for b in tdict.bases] != ['TrackedValue', 'dict']: raise TranslateError('TrackedDict bases changed')
    if [ast.unparse(b) for b in tlist.bases] != ['TrackedValue', 'list']: raise TranslateError('TrackedList bases changed')
    if [ast.unparse(b) for b in tarr.bases] != ['TrackedList']: raise TranslateError('TrackedArray bases changed')
    check_init(tdict, 'dict'); check_init(tlist, 'list')
    dpub, dwr, dro, ddel = scan_class(tdict, 'dict')
    lpub, lwr, lro, ldel = scan_class(tlist, 'list')
    apub, awr, aro, adel = scan_class(tarr, 'list', inherited={n: n for n in lpub}, base_name='TrackedList')
    return {'dict_wrapped': dpub, 'dict_readonly_defs': dro, 'list_wrapped': lpub, 'list_readonly_defs': lro,
            'array_wrapped': apub, 'array_readonly_defs': aro,
            'detail': {'dict': dwr, 'list': lwr, 'dict_deleg': ddel, 'list_deleg': ldel, 'array_deleg': adel}}


def tables():
    lm, lr = cpython_mutators(list)
    dm, dr = cpython_mutators(dict)
    t = scan()
    t.update({'cpython_list_mutators': lm, 'cpython_dict_mutators': dm, 'cpython_list_readers': lr, 'cpython_dict_readers': dr,
              'python': sys.version.split()[0]})
    return t


def generate():
    t = tables()
    def lst(xs): return '[' + '; '.join('"%s"' % x for x in xs) + ']'
    out = ['(* GENERATED by tools/c28_scan.py on every run -- do not edit.',
           '   cpython_*: derived from the running CPython %s by calling every name of dir(list) / dir(dict);' % t['python'],
           '   tracked_*: read with ast from %s (tracked_method assignments and delegating defs). *)' % ORMTYPES,
           'From Coq Require Import String List.', '#[local] Open Scope string_scope.', 'Import ListNotations.', '']
    out.append('Definition cpython_list_mutators : list string := %s.' % lst(t['cpython_list_mutators']))
    out.append('Definition cpython_dict_mutators : list string := %s.' % lst(t['cpython_dict_mutators']))
    out.append('Definition cpython_list_readers : list string := %s.' % lst(t['cpython_list_readers']))
    out.append('Definition cpython_dict_readers : list string := %s.' % lst(t['cpython_dict_readers']))
    out.append('(* names that TrackedList / TrackedDict / TrackedArray route through tracked_method *)')
    out.append('Definition tracked_list_wrapped : list string := %s.' % lst(t['list_wrapped']))
    out.append('Definition tracked_dict_wrapped : list string := %s.' % lst(t['dict_wrapped']))
    out.append('Definition tracked_array_wrapped : list string := %s.' % lst(t['array_wrapped']))
    out.append('(* names the classes define themselves without mutating (constructor etc.): not reachable as list / dict mutators *)')
    out.append('Definition tracked_list_overridden : list string := %s.' % lst(t['list_readonly_defs']))
    out.append('Definition tracked_dict_overridden : list string := %s.' % lst(t['dict_readonly_defs']))
    out.append('Definition tracked_array_overridden : list string := %s.' % lst(sorted(set(t['array_readonly_defs']) | set(t['list_readonly_defs']))))
    return '\n'.join(out) + '\n'


if __name__ == '__main__':
    import json
    print(generate())
    print(json.dumps(tables()['detail'], indent=1))
