"""C13: serialisation of schemas, histories and implementation snapshots into Coq terms for Model/C13Check.v."""
import itertools
from vlib import cz

ERR = {'EValue': 'EValue', 'EType': 'EType', 'ECacheIndex': 'ECacheIndex', 'EConstraint': 'EConstraint', 'ETransaction': 'ETransaction',
       'EDeleted': 'EDeleted', 'EAssert': 'EAssert', 'EInjected': 'EInjected', 'EKey': 'EKey', 'EFuel': 'EFuel'}
STATUS = {'created': 'SCreated', 'inserted': 'SInserted', 'updated': 'SUpdated', 'modified': 'SModified', 'marked_to_delete': 'SMarked',
          'deleted': 'SDeleted', 'cancelled': 'SCancelled', 'loaded': 'SInserted'}
# codes 0-2 were the Entity.set sites repaired by repo cd0fda9 (kept as placeholders so the other codes stay stable)
TAINTS = ['retired-0', 'retired-1', 'retired-2', 'retired-3', 'retired-4', 'retired-5', 'retired-6', 'retired-7', 'TInconsistent']
KIND = {'pk': 'KPk', 'int': 'KInt', 'ref': 'KRef', 'set': 'KSet'}


def b(x): return 'true' if x else 'false'
def nlist(xs): return '[' + '; '.join('%d' % x for x in xs) + ']'


def schema_coq(facts):
    ents = []
    for e in facts:
        attrs = []
        for a in e['attrs']:
            attrs.append('mkattr %s %s %s %s %d %d %s' % (KIND[a['kind']], b(a['required']), b(a['unique']), b(a['bitpos'] is not None),
                                                          a.get('target', 0), a.get('reverse', 0), b(a.get('cascade', False))))
        ents.append('mkent [%s] %s [%s]' % ('; '.join(attrs), nlist(e['simple_keys']), '; '.join(nlist(k) for k in e['composite_keys'])))
    return '[' + ';\n  '.join(ents) + ']'


def arg_coq(a):
    t = a[0]
    if t == 'i': return '(AInt %s)' % cz(a[1])
    if t == 'n': return 'ANone'
    if t == 'o': return '(AObj %d)' % a[1]
    if t == 'os': return '(AObjs %s)' % nlist(sorted(set(a[1])))
    if t == 'f': return 'AForeign'
    raise ValueError(a)


def kw_coq(pairs): return '[' + '; '.join('(%d, %s)' % (j, arg_coq(a)) for j, a in pairs) + ']'


def op_coq(op):
    """-> '(fault, op)' pair"""
    flt = 'None'
    if op[0] == 'fault':
        flt = 'Some (%d, %d)' % ({'idx': 0, 'radd': 1}[op[1]], op[2])
        op = op[3]
    k = op[0]
    if k == 'new': t = 'ONew %d %s %s' % (op[1], cz(op[2]), kw_coq(op[3]))
    elif k == 'set': t = 'OSet %d %d %s' % (op[1], op[2], arg_coq(op[3]))
    elif k == 'setm': t = 'OSetMany %d %s' % (op[1], kw_coq(op[2]))
    elif k == 'del': t = 'ODelete %d' % op[1]
    elif k == 'add': t = 'OAdd %d %d %s' % (op[1], op[2], nlist(sorted(set(op[3]))))
    elif k == 'rem': t = 'ORemove %d %d %s' % (op[1], op[2], nlist(sorted(set(op[3]))))
    elif k == 'commit': t = 'OCommit'
    else: raise ValueError(op)
    return '(%s, %s)' % (flt, t)


def val_coq(v, nobj):
    if v is None: return 'VNone'
    if isinstance(v, list) and v[0] == 'o':
        return '(VRef %d)' % (nobj if v[1] == 'Z' else v[1])
    return '(VInt %s)' % cz(v)


def hid(h, nobj): return nobj if h == 'Z' else h


def olist(hs, nobj): return nlist(sorted(set(hid(h, nobj) for h in hs)))


def snapshot_coq(snap, facts):
    """structured snapshot (Model/C13Check.v `snap`) from an implementation snapshot; returns (term, number of unloaded values skipped)"""
    n = len(snap['objs'])
    skipped = 0
    objs = []
    for h, o in enumerate(snap['objs']):
        vals = []
        for j, v in sorted(o['vals'].items(), key=lambda p: int(p[0])):
            if v == 'NL': skipped += 1; continue
            vals.append('(%d, %s)' % (int(j), val_coq(v, n)))
        colls = []
        for j, c in sorted(o['colls'].items(), key=lambda p: int(p[0])):
            colls.append('(%d, (%s, %s, %s))' % (int(j), olist(c['items'], n), olist(c['added'], n), olist(c['removed'], n)))
        objs.append('mkos %d %s %s %s [%s] [%s]' % (o['cls'], STATUS[o['status']], 'None' if o['wbits'] is None else '(Some %d%%N)' % o['wbits'],
                                                   'None' if o['save_pos'] is None else '(Some %d)' % o['save_pos'], '; '.join(vals), '; '.join(colls)))
    queue = '[' + '; '.join('None' if h is None else 'Some %d' % hid(h, n) for h in snap['queue']) + ']'
    idx = []
    for e, spec, entries in snap['idx']:
        ents = []
        for key, h in entries:
            ents.append('([%s], %d)' % ('; '.join(val_coq(k, n) for k in key), hid(h, n)))
        idx.append('(%d, %s, [%s])' % (e, nlist(spec), '; '.join(ents)))
    mod = []
    for e, a, hs in snap['mod']:
        for h in hs: mod.append('(%d, %d, %d)' % (e, a, hid(h, n)))
    return 'mksnap [%s] %s [%s] [%s]' % (';\n    '.join(objs), queue, '; '.join(idx), '; '.join(mod)), skipped


def expectation_coq(result, snap, facts):
    err = 'None' if result[0] == 'ok' else '(Some %s)' % ERR.get(result[1], 'EFuel')
    if snap is None: return '(%s, None)' % err, 0
    term, skipped = snapshot_coq(snap, facts)
    return '(%s, Some (%s))' % (err, term), skipped


def history_coq(name, facts, ops, exps):
    """Definitions for one history and the Eval that checks it"""
    return ('Definition sch_%s := %s.\nDefinition ops_%s : list (option (nat * nat) * op) := [%s].\n'
            'Definition exps_%s : list expectation := [%s].\nEval vm_compute in (check_and_taints sch_%s ops_%s exps_%s).\n' % (
                name, schema_coq(facts), name, ';\n '.join(op_coq(o) for o in ops), name, ';\n '.join(exps), name, name, name))


HEADER = ('From Coq Require Import ZArith NArith List Bool.\nImport ListNotations.\n'
          'Require Import PonyV.Model.C13Heap PonyV.Model.C13Session PonyV.Model.C13Check.\n')
