"""C13: serialisation of schemas, histories and implementation snapshots into Coq terms for Model/C13Check.v."""
import itertools
from vlib import cz

ERR = {'EValue': 'EValue', 'EType': 'EType', 'ECacheIndex': 'ECacheIndex', 'EConstraint': 'EConstraint', 'ETransaction': 'ETransaction',
       'EDeleted': 'EDeleted', 'EAssert': 'EAssert', 'EInjected': 'EInjected', 'EKey': 'EKey', 'EFuel': 'EFuel'}
STATUS = {'created': 'SCreated', 'inserted': 'SInserted', 'updated': 'SUpdated', 'modified': 'SModified', 'marked_to_delete': 'SMarked',
          'deleted': 'SDeleted', 'cancelled': 'SCancelled', 'loaded': 'SInserted'}
TAINTS = ['TSetBits', 'TSetIdx', 'TSetForward', 'TSetReverse', 'TRemFlag', 'TDelNested', 'TNewPk', 'TDelCreated', 'TInconsistent']
KIND = {'pk': 'KPk', 'int': 'KInt', 'ref': 'KRef', 'set': 'KSet'}


def b(x): return 'true' if x else 'false'
def nlist(xs): return '[' + '; '.join('%d' % x for x in xs) + ']'


def schema_coq(facts):
    ents = []
    for e in facts:
        attrs = []
        for a in e['attrs']:
            attrs.append('mkattr %s %s %s %s %d %d %s' % (KIND[a['kind']], b(a['required']), b(a['unique']), b(a['bitpos'] is not None),
                                                          a.get('target', 0), a.get('reverse', 0), b(a.get('cascade', False))))
        ents.append('mkent [%s] %s [%s]' % ('; '.join(attrs), nlist(e['simple_keys']), '; '.join(nlist(k) for k in e['composite_keys'])))
    return '[' + ';\n  '.join(ents) + ']'


def arg_coq(a):
    t = a[0]
    if t == 'i': return '(AInt %s)' % cz(a[1])
    if t == 'n': return 'ANone'
    if t == 'o': return '(AObj %d)' % a[1]
    if t == 'os': return '(AObjs %s)' % nlist(sorted(set(a[1])))
    if t == 'f': return 'AForeign'
    raise ValueError(a)


def kw_coq(pairs): return '[' + '; '.join('(%d, %s)' % (j, arg_coq(a)) for j, a in pairs) + ']'


def op_coq(op):
    """-> '(fault, op)' pair"""
    flt = 'None'
    if op[0] == 'fault':
        flt = 'Some (%d, %d)' % ({'idx': 0, 'radd': 1}[op[1]], op[2])
        op = op[3]
    k = op[0]
    if k == 'new': t = 'ONew %d %s %s' % (op[1], cz(op[2]), kw_coq(op[3]))
    elif k == 'set': t = 'OSet %d %d %s' % (op[1], op[2], arg_coq(op[3]))
    elif k == 'setm': t = 'OSetMany %d %s' % (op[1], kw_coq(op[2]))
    elif k == 'del': t = 'ODelete %d' % op[1]
    elif k == 'add': t = 'OAdd %d %d %s' % (op[1], op[2], nlist(sorted(set(op[3]))))
    elif k == 'rem': t = 'ORemove %d %d %s' % (op[1], op[2], nlist(sorted(set(op[3]))))
    elif k == 'commit': t = 'OCommit'
    else: raise ValueError(op)
    return '(%s, %s)' % (flt, t)


def val_coq(v, nobj):
    if v is None: return 'VNone'
    if isinstance(v, list) and v[0] == 'o':
        return '(VRef %d)' % (nobj if v[1] == 'Z' else v[1])
    return '(VInt %s)' % cz(v)


def hid(h, nobj): return nobj if h == 'Z' else h


def snapshot_coq(snap, facts, universe=(0, 1, 2), maxpk=8):
    """list of (loc, cell) expectations from an implementation snapshot"""
    out = []
    n = len(snap['objs'])
    out.append('(LNext, CNat %d)' % n)
    out.append('(LQueue, CQueue [%s])' % '; '.join('None' if h is None else 'Some %d' % hid(h, n) for h in snap['queue']))
    skipped = 0
    for h, o in enumerate(snap['objs']):
        out.append('(LCls %d, CNat %d)' % (h, o['cls']))
        out.append('(LStatus %d, CStatus %s)' % (h, STATUS[o['status']]))
        out.append('(LWbits %d, CBits %s)' % (h, 'None' if o['wbits'] is None else '(Some %d%%N)' % o['wbits']))
        out.append('(LSavePos %d, CPos %s)' % (h, 'None' if o['save_pos'] is None else '(Some %d)' % o['save_pos']))
        for j, v in sorted(o['vals'].items(), key=lambda p: int(p[0])):
            if v == 'NL': skipped += 1; continue
            out.append('(LVal %d %d, CVal %s)' % (h, int(j), val_coq(v, n)))
        for j, c in sorted(o['colls'].items(), key=lambda p: int(p[0])):
            for x in range(n + 1):
                out.append('(LItem %d %d %d, CBool %s)' % (h, int(j), x, b(x in [hid(y, n) for y in c['items']])))
                out.append('(LAdded %d %d %d, CBool %s)' % (h, int(j), x, b(x in [hid(y, n) for y in c['added']])))
                out.append('(LRemoved %d %d %d, CBool %s)' % (h, int(j), x, b(x in [hid(y, n) for y in c['removed']])))
    for e, spec, entries in snap['idx']:
        present = {}
        for key, h in entries:
            present[tuple(tuple(k) if isinstance(k, list) else k for k in key)] = h
        if spec == [0]: cands = [(k,) for k in range(1, maxpk + 1)]
        else: cands = list(itertools.product(universe, repeat=len(spec)))
        for key in set(cands) | set(present):
            h = present.get(key)
            ks = '[' + '; '.join(val_coq(list(k) if isinstance(k, tuple) else k, n) for k in key) + ']'
            out.append('(LIdx %d %s %s, CObj %s)' % (e, nlist(spec), ks, 'None' if h is None else '(Some %d)' % hid(h, n)))
    modset = set()
    for e, a, hs in snap['mod']:
        for h in hs: modset.add((e, a, hid(h, n)))
    for e, ent in enumerate(facts):
        for a, at in enumerate(ent['attrs']):
            if at['kind'] != 'set': continue
            for h in range(n + 1):
                out.append('(LMod %d %d %d, CBool %s)' % (e, a, h, b((e, a, h) in modset)))
    return out, skipped


def expectation_coq(result, snap, facts):
    err = 'None' if result[0] == 'ok' else '(Some %s)' % ERR.get(result[1], 'EFuel')
    if snap is None: return '(%s, None)' % err, 0
    locs, skipped = snapshot_coq(snap, facts)
    return '(%s, Some [%s])' % (err, ';\n   '.join(locs)), skipped


HEADER = ('From Coq Require Import ZArith NArith List Bool.\nImport ListNotations.\n'
          'Require Import PonyV.Model.C13Heap PonyV.Model.C13Session PonyV.Model.C13Check.\n')
