"""C36 pool-level driver: the connection pools of the PostgreSQL and MySQL providers (pony.orm.dbproviders.postgres.PGPool and the
base pony.orm.dbapiprovider.Pool that MySQL uses) across a real os.fork(), with a *recording stub* DB-API module in place of
psycopg2 / pymysql (no server exists in this sandbox).

stdin: {"pool": "PGPool" | "Pool", "scenarios": [{"before": [op..], "child": [op..], "after": [op..]}, ...]}
stdout: "\n@@JSON@@" + {"results": [...]}      (same result layout as tools/c36_driver.py)

What is real: the pool classes and their connect / _connect / release / drop / disconnect, forked_connections, os.fork().
What the harness plays: the session cache - it keeps the session's connection (as SessionCache.connection does) and calls the
pool the way SessionCache.connect / close and Database.disconnect do:
  begin        counter += 1
  query        if no session connection: con, is_new = pool.connect()  ; then con.cursor().execute(...)
  query_fail   the same while the stub's connect() raises
  end_commit   at the outermost level: con.commit(); pool.release(con); the session forgets the connection
  end_rollback the same with con.rollback()
  fail         the session's connection is dropped: pool.drop(con)
  disconnect   outside a session: pool.disconnect()
"""
import json, os, select, signal, sys, time

CHILD_TIMEOUT = 30.0


def main():
    payload = json.load(sys.stdin)
    import vlib
    vlib.stub_modules()
    from pony.orm import dbapiprovider
    from pony.orm.dbapiprovider import Pool

    state = {'log': [], 'counter': 0, 'parent_pid': os.getpid(), 'pool_connect_calls': 0, 'fail': False}
    def role(pid): return None if pid is None else ('P' if pid == state['parent_pid'] else 'C')
    def me(): return role(os.getpid())

    class RecCursor(object):
        def __init__(self, con): self.con = con
        def execute(self, *a, **k): self.con._log('use')
        def fetchone(self): return None
        def fetchall(self): return []
        def close(self): pass

    class RecConn(object):
        def __init__(self, ident):
            self._ident = ident; self._closed = False; self.autocommit = False
        def _log(self, what): state['log'].append([what, me(), self._ident[0], self._ident[1]])
        def cursor(self, *a, **k):
            self._log('use'); return RecCursor(self)
        def commit(self): self._log('use')
        def rollback(self): self._log('use')
        def set_client_encoding(self, *a): self._log('use')
        def close(self):
            self._closed = True; self._log('close')
        def __del__(self):
            try:
                if not self._closed: self._log('close')
            except Exception: pass

    class RecModule(object):
        class OperationalError(Exception): pass
        def connect(self, *a, **k):
            if state['fail']:
                state['fail'] = False
                raise RecModule.OperationalError('injected: could not connect to server')
            state['counter'] += 1
            ident = (me(), state['counter'])
            state['log'].append(['create', me(), ident[0], ident[1]])
            return RecConn(ident)

    if payload['pool'] == 'PGPool':
        from pony.orm.dbproviders.postgres import PGPool as PoolClass
    elif payload['pool'] == 'Pool':
        PoolClass = Pool
    else:
        raise ValueError(payload['pool'])

    orig_connect = Pool.connect
    def counting_connect(pool):
        state['pool_connect_calls'] += 1
        return orig_connect(pool)
    Pool.connect = counting_connect

    class Sess(object):
        def __init__(self): self.depth = 0; self.con = None

    def ident_of(con): return None if con is None else list(con._ident)

    def run_ops(pool, sess, ops):
        seen = []
        for op in ops:
            start = len(state['log'])
            res = None
            try:
                if op == 'begin': sess.depth += 1
                elif op in ('query', 'write', 'query_fail'):
                    if sess.depth:
                        if sess.con is None:
                            state['fail'] = op == 'query_fail'
                            try: sess.con, _ = pool.connect()
                            finally: state['fail'] = False
                        sess.con.cursor().execute('select 1')
                elif op in ('end_commit', 'end_rollback'):
                    if sess.depth:
                        sess.depth -= 1
                        if sess.depth == 0 and sess.con is not None:
                            con, sess.con = sess.con, None
                            if op == 'end_commit': con.commit()
                            else: con.rollback()
                            pool.release(con)
                elif op == 'fail':
                    if sess.con is not None:
                        con, sess.con = sess.con, None
                        pool.drop(con)
                elif op == 'disconnect':
                    if not sess.depth: pool.disconnect()
                else: raise ValueError(op)
            except Exception as e:
                res = 'EXC:%s' % type(e).__name__
            seen.append({'op': op, 'result': res, 'events': state['log'][start:], 'cache_con': ident_of(sess.con)})
        return seen

    def bookkeeping(pool, sess):
        return {'pool_con': ident_of(pool.con), 'pool_pid': role(pool.pid),
                'forked': [[list(c._ident), role(p)] for c, p in Pool.forked_connections], 'counter': sess.depth}

    results = []
    for sc in payload['scenarios']:
        del Pool.forked_connections[:]
        state['log'] = []; state['counter'] = 0; state['pool_connect_calls'] = 0
        pool = PoolClass(RecModule(), 'dsn')
        sess = Sess()
        out = {'scenario': sc}
        out['before'] = run_ops(pool, sess, sc['before'])
        out['at_fork'] = bookkeeping(pool, sess)
        calls_before = state['pool_connect_calls']
        r, w = os.pipe()
        sys.stdout.flush(); sys.stderr.flush()
        pid = os.fork()
        if pid == 0:
            code = 0
            try:
                os.close(r)
                signal.alarm(int(CHILD_TIMEOUT))
                state['log'] = []
                seen = run_ops(pool, sess, sc['child'])
                msg = {'ops': seen, 'book': bookkeeping(pool, sess), 'pool_connect_calls': state['pool_connect_calls'] - calls_before,
                       'pid_differs': os.getpid() != state['parent_pid']}
                data = json.dumps(msg).encode()
                while data:
                    nw = os.write(w, data); data = data[nw:]
                os.close(w)
            except BaseException as e:
                try: os.write(w, json.dumps({'child_error': '%s: %s' % (type(e).__name__, e)}).encode())
                except Exception: pass
                code = 3
            finally:
                os._exit(code)
        os.close(w)
        buf = b''
        deadline = time.time() + CHILD_TIMEOUT + 5
        timed_out = False
        while True:
            left = deadline - time.time()
            if left <= 0:
                timed_out = True; break
            rl, _, _ = select.select([r], [], [], left)
            if not rl:
                timed_out = True; break
            chunk = os.read(r, 65536)
            if not chunk: break
            buf += chunk
        os.close(r)
        if timed_out:
            try: os.kill(pid, signal.SIGKILL)
            except OSError: pass
        status = None
        t_end = time.time() + 10
        while time.time() < t_end:
            wp, st = os.waitpid(pid, os.WNOHANG)
            if wp == pid:
                status = st; break
            time.sleep(0.005)
        if status is None:
            try: os.kill(pid, signal.SIGKILL)
            except OSError: pass
            wp, status = os.waitpid(pid, 0)
        out['child_status'] = status
        out['child_timed_out'] = timed_out
        try: out['child'] = json.loads(buf.decode()) if buf else {'child_error': 'no data'}
        except ValueError: out['child'] = {'child_error': 'bad json'}
        state['log'] = []
        out['after'] = run_ops(pool, sess, sc['after'])
        out['parent_end'] = bookkeeping(pool, sess)
        results.append(out)
        # forget the scenario's connections quietly
        sess.con = None
        for c, _ in list(Pool.forked_connections): c._closed = True
        if pool.con is not None: pool.con._closed = True
        pool.con = None

    sys.stdout.write('\n@@JSON@@' + json.dumps({'results': results, 'info': {'pool_backend_%s' % payload['pool']: len(results)}}))


if __name__ == '__main__':
    main()
