#!/venv/bin/python
"""Build everything from files on disk: regenerate coq/Gen/*.v from /repo, write _CoqProject, make all .vo files."""
import os, sys, importlib, subprocess, glob
HERE = os.path.dirname(os.path.abspath(__file__))
sys.path.insert(0, HERE)
sys.path.insert(0, os.environ.get('VERIF_REPO', '/repo'))
import vlib

def plugins():
    out = []
    for f in sorted(glob.glob(os.path.join(HERE, 'props', 'c[0-9]*.py'))):
        try:
            out.append(importlib.import_module('props.' + os.path.basename(f)[:-3]))
        except Exception as e:
            print('setup: plugin %s cannot be imported: %s' % (f, e))
    return out

def main():
    os.makedirs(os.path.join(vlib.COQ, 'Gen'), exist_ok=True)
    ok = True
    for p in plugins():
        for rel, fn in getattr(p, 'GEN', []):
            try:
                vlib.write_if_changed(os.path.join(vlib.COQ, rel), fn())
            except Exception as e:
                ok = False
                print('setup: translator for %s failed: %s' % (rel, e))
    with vlib.CoqLock():
        vlib.refresh_coq_project()
        r = subprocess.run(['timeout', '3000', 'make', '-f', 'Makefile.coq', '-j12', '-k'], cwd=vlib.COQ)
    sys.exit(0 if (ok and r.returncode == 0) else 1)

main()
