"""Tie A for C06: the pure string functions that render values and names into SQL text are re-translated from /repo
on every run into coq/Gen/C06Quote.v:

    sqlbuilding.py   Value.quote_str, Value.__str__ (str and bytes paths), Param.__str__, SQLBuilder.MOD (the symbol)
    dbproviders/*    SQLiteValue.__str__, MySQLValue.__str__, PGValue.__str__ (str path: must end in quote_str)
    dbapiprovider.py DBAPIProvider.quote_name (str and sequence paths)
    sqltranslation.py StringMixin._like: the constant branch (escaping of the pattern), the parameter branch (REPLACE nest)
                     specialised to the (before, after) arguments of contains / call_startswith / call_endswith;
                     the ESCAPE character

Extends tools/py2coq/core.py (not edited) with a string fragment: str constants, +, '...%s...' % x, x.replace(c, y),
c in x, sep.join(f(i) for i in xs), truthiness of a str, isinstance folding, paramstyle tests.  Fail-closed.
"""
import ast
from py2coq.core import *

STYLES = {'qmark': 'Qmark', 'format': 'Format', 'numeric': 'Numeric', 'named': 'Named', 'pyformat': 'Pyformat'}


def slit(s):
    return '(@nil Z)' if not s else '[' + '; '.join(str(ord(c)) for c in s) + ']'


class Fmt(object):
    """Result of 'fmt' % args: list of str constants and symbolic values, in order."""
    def __init__(self, pieces): self.pieces = pieces


def parse_format(fmt, args):
    """Python %-formatting of a constant format string with %s / %d / %% only."""
    out, i, k, cur = [], 0, 0, ''
    while i < len(fmt):
        c = fmt[i]
        if c != '%':
            cur += c; i += 1; continue
        if i + 1 >= len(fmt): raise TranslateError('format string ends in %%: %r' % fmt)
        d = fmt[i + 1]
        if d == '%': cur += '%'; i += 2; continue
        if d in 'sd':
            if k >= len(args): raise TranslateError('not enough arguments for format string %r' % fmt)
            if cur: out.append(Const(cur)); cur = ''
            out.append((d, args[k])); k += 1; i += 2; continue
        raise TranslateError('format conversion %%%s not in subset (%r)' % (d, fmt))
    if k != len(args): raise TranslateError('too many arguments for format string %r' % fmt)
    if cur: out.append(Const(cur))
    return out


class StrExec(Exec):
    # ---- terms
    def is_strish(self, v):
        return (isinstance(v, Const) and isinstance(v.v, str)) or (isinstance(v, Sym) and v.ty in ('str', 'char')) or isinstance(v, Fmt)

    def sterm(self, v):
        if isinstance(v, Const) and isinstance(v.v, str): return slit(v.v)
        if isinstance(v, Sym) and v.ty == 'str': return v.coq
        if isinstance(v, Sym) and v.ty == 'char': return '[%s]' % v.coq
        if isinstance(v, Fmt):
            parts = []
            for p in v.pieces:
                if isinstance(p, Const): parts.append(slit(p.v))
                else:
                    kind, x = p
                    if kind != 's': raise TranslateError('%d in a string result')
                    parts.append(self.sterm(x))
            return '(' + ' ++ '.join(parts) + ')' if parts else '(@nil Z)'
        raise TranslateError('string expected, got %r' % (v,))

    def cterm(self, v):
        """one-character string -> Coq Z"""
        if isinstance(v, Const) and isinstance(v.v, str) and len(v.v) == 1: return str(ord(v.v))
        if isinstance(v, Sym) and v.ty == 'char': return v.coq
        raise TranslateError('one-character string expected, got %r' % (v,))

    def emit(self, v, ty=None):
        if self.is_strish(v): return self.sterm(v)
        return Exec.emit(self, v, ty)

    # ---- expressions
    def eval(self, e, env):
        if isinstance(e, ast.BinOp) and isinstance(e.op, ast.Mod):
            a = self.eval(e.left, env)
            if isinstance(a, Const) and isinstance(a.v, str):
                b = self.eval(e.right, env)
                args = b.items if isinstance(b, Tuple) else [b]
                return Fmt(parse_format(a.v, args))
        if isinstance(e, ast.BinOp) and isinstance(e.op, ast.Add):
            a, b = self.eval(e.left, env), self.eval(e.right, env)
            if self.is_strish(a) and self.is_strish(b):
                if isinstance(a, Const) and isinstance(b, Const): return Const(a.v + b.v)
                return Sym('(%s ++ %s)' % (self.sterm(a), self.sterm(b)), 'str')
        if isinstance(e, ast.IfExp):
            c = self.cond_value(e.test, env)
            if isinstance(c, Const): return self.eval(e.body if c.v else e.orelse, env)
            a, b = self.eval(e.body, env), self.eval(e.orelse, env)
            if self.is_strish(a) and self.is_strish(b):
                return Sym('(if %s then %s else %s)' % (c.coq, self.sterm(a), self.sterm(b)), 'str')
        if isinstance(e, ast.Call):
            r = self.str_call(e, env)
            if r is not None: return r
        if isinstance(e, ast.Attribute):       # (core.py passes one argument too many to Spec.attribute; handled here)
            return self.spec.attribute(self, e.value, e.attr, e)
        return Exec.eval(self, e, env)

    def str_call(self, e, env):
        f = e.func
        if isinstance(f, ast.Attribute) and f.attr == 'replace' and len(e.args) == 2 and not e.keywords:
            x = self.eval(f.value, env)
            if self.is_strish(x):
                a, b = self.eval(e.args[0], env), self.eval(e.args[1], env)
                return Sym('(replace_all %s %s %s)' % (self.cterm(a), self.sterm(b), self.sterm(x)), 'str')
        if isinstance(f, ast.Name) and f.id == 'isinstance' and len(e.args) == 2:
            x = self.eval(e.args[0], env)
            names = []
            def collect(n):
                if isinstance(n, ast.Tuple):
                    for y in n.elts: collect(y)
                elif isinstance(n, ast.Name): names.append(n.id)
                elif isinstance(n, ast.Attribute): names.append(n.attr)
                else: raise TranslateError('isinstance class not in subset: %s' % ast.unparse(n))
            collect(e.args[1])
            if isinstance(x, Sym) and x.ty in ('str', 'bytes', 'list str'):
                pyty = {'str': 'str', 'bytes': 'bytes', 'list str': 'tuple'}[x.ty]
                return Const(pyty in names)
            raise TranslateError('isinstance on %r' % (x,))
        return None

    def cond_value(self, e, env):
        if isinstance(e, ast.Compare) and len(e.ops) == 1:
            op = e.ops[0]
            a, b = self.eval(e.left, env), self.eval(e.comparators[0], env)
            if isinstance(op, (ast.In, ast.NotIn)):
                neg = isinstance(op, ast.NotIn)
                if isinstance(a, Sym) and a.ty == 'paramstyle' and isinstance(b, Tuple) and all(isinstance(x, Const) and x.v in STYLES for x in b.items):
                    t = '(style_in %s [%s])' % (a.coq, '; '.join(STYLES[x.v] for x in b.items))
                    return Sym('(negb %s)' % t if neg else t, 'bool')
                if isinstance(b, Sym) and b.ty == 'str':
                    t = '(mem_char %s %s)' % (self.cterm(a), b.coq)
                    return Sym('(negb %s)' % t if neg else t, 'bool')
                if isinstance(a, Const) and isinstance(b, Const) and isinstance(b.v, str): return Const((a.v in b.v) != neg)
                raise TranslateError('membership test not in subset: %s' % ast.unparse(e))
            if isinstance(op, (ast.Eq, ast.NotEq)) and isinstance(a, Sym) and a.ty == 'paramstyle' and isinstance(b, Const) and b.v in STYLES:
                t = '(style_eqb %s %s)' % (a.coq, STYLES[b.v])
                return Sym(t if isinstance(op, ast.Eq) else '(negb %s)' % t, 'bool')
            if isinstance(op, (ast.Is, ast.IsNot)) and isinstance(b, Const) and b.v is None and isinstance(a, Sym) and a.ty in ('str', 'bytes', 'char'):
                return Const(isinstance(op, ast.IsNot))
        if isinstance(e, (ast.Name, ast.Attribute, ast.Call)):
            v = self.eval(e, env)
            if isinstance(v, Sym) and v.ty == 'str': return Sym('(nonempty %s)' % v.coq, 'bool')
            if isinstance(v, Const): return Const(bool(v.v))
            if isinstance(v, Sym) and v.ty == 'bool': return v
            raise TranslateError('condition not in subset: %s' % ast.unparse(e))
        return Exec.cond_value(self, e, env)


def header(relpath, lineno, qualname, extra=''):
    return '(* %s:%d %s%s *)' % (relpath, lineno, qualname, extra)


# ------------------------------------------------------------------------------------------------ Value.quote_str / __str__

class ValueSpec(Spec):
    """self.paramstyle -> style ; self.value -> value ; self.quote_str(x) -> quote_str style x ; Value.__str__(self) -> value_str style value"""
    def __init__(self, selfname, valty): self.selfname = selfname; self.valty = valty
    def attribute(self, ex, base, attr, node):
        if isinstance(base, ast.Name) and base.id == self.selfname:
            if attr == 'paramstyle': return Sym('style', 'paramstyle')
            if attr == 'value': return Sym('value', self.valty)
        raise TranslateError('attribute read not in subset: %s' % ast.unparse(node))
    def call(self, ex, node, env):
        f = node.func
        if isinstance(f, ast.Attribute) and isinstance(f.value, ast.Name) and f.value.id == self.selfname and f.attr == 'quote_str' \
                and len(node.args) == 1 and not node.keywords:
            return Sym('(quote_str style %s)' % ex.sterm(ex.eval(node.args[0], env)), 'str')
        if isinstance(f, ast.Attribute) and isinstance(f.value, ast.Name) and f.value.id == 'Value' and f.attr == '__str__' \
                and len(node.args) == 1 and isinstance(node.args[0], ast.Name) and node.args[0].id == self.selfname:
            return Sym('(value_%s style value)' % self.valty, 'str')
        # hexlify(value).decode('ascii')
        if isinstance(f, ast.Attribute) and f.attr == 'decode' and isinstance(f.value, ast.Call) and isinstance(f.value.func, ast.Name) \
                and f.value.func.id == 'hexlify' and len(f.value.args) == 1 and len(node.args) == 1 \
                and isinstance(node.args[0], ast.Constant) and node.args[0].value == 'ascii':
            x = ex.eval(f.value.args[0], env)
            if isinstance(x, Sym) and x.ty == 'bytes': return Sym('(hexlify %s)' % x.coq, 'str')
        raise TranslateError('call not in subset: %s' % ast.unparse(node))
    def emit_return(self, ex, v): return ex.sterm(v)
    def emit_assert_false(self, ex): raise TranslateError('assert False reachable for a %s value' % self.valty)


def tr_quote_str():
    rel = 'pony/orm/sqlbuilding.py'
    fdef, _, ln = load_function(rel, 'Value.quote_str')
    names = [a.arg for a in fdef.args.args]
    if len(names) != 2: raise TranslateError('Value.quote_str: signature changed: %r' % names)
    ex = StrExec(ValueSpec(names[0], 'str'))
    env = {names[0]: Sym('<self>', 'self'), names[1]: Sym('s', 'str')}
    body = ex.run(fdef.body, env, lambda e: ex.spec.fallthrough(ex, e))
    return '%s\nDefinition quote_str (style : paramstyle) (s : str) : str :=\n%s.\n' % (header(rel, ln, 'Value.quote_str'), body)


def tr_value_str(rel, qual, coqname, valty):
    fdef, _, ln = load_function(rel, qual)
    names = [a.arg for a in fdef.args.args]
    if len(names) != 1: raise TranslateError('%s: signature changed' % qual)
    ex = StrExec(ValueSpec(names[0], valty))
    env = {names[0]: Sym('<self>', 'self')}
    body = ex.run(fdef.body, env, lambda e: ex.spec.fallthrough(ex, e))
    return '%s\nDefinition %s (style : paramstyle) (value : %s) : str :=\n%s.\n' % (
        header(rel, ln, qual, ', path taken by a %s value' % valty), coqname, 'str' if valty == 'str' else 'list Z', body)


# ------------------------------------------------------------------------------------------------ quote_name

class NameSpec(Spec):
    def __init__(self, selfname): self.selfname = selfname
    def attribute(self, ex, base, attr, node):
        if isinstance(base, ast.Name) and base.id == self.selfname and attr == 'quote_char': return Sym('quote_char', 'char')
        raise TranslateError('attribute read not in subset: %s' % ast.unparse(node))
    def call(self, ex, node, env):
        # '.'.join(provider.quote_name(item) for item in name)
        f = node.func
        if isinstance(f, ast.Attribute) and f.attr == 'join' and isinstance(f.value, ast.Constant) and isinstance(f.value.value, str) \
                and len(node.args) == 1 and isinstance(node.args[0], ast.GeneratorExp):
            g = node.args[0]
            if len(g.generators) == 1 and not g.generators[0].ifs and isinstance(g.generators[0].target, ast.Name):
                var = g.generators[0].target.id
                src = ex.eval(g.generators[0].iter, env)
                elt = g.elt
                if isinstance(src, Sym) and src.ty == 'list str' and isinstance(elt, ast.Call) and isinstance(elt.func, ast.Attribute) \
                        and isinstance(elt.func.value, ast.Name) and elt.func.value.id == self.selfname and elt.func.attr == 'quote_name' \
                        and len(elt.args) == 1 and isinstance(elt.args[0], ast.Name) and elt.args[0].id == var:
                    return Sym('(join %s (map (quote_name quote_char) %s))' % (slit(f.value.value), src.coq), 'str')
        raise TranslateError('call not in subset: %s' % ast.unparse(node))
    def emit_return(self, ex, v): return ex.sterm(v)


def tr_quote_name():
    rel = 'pony/orm/dbapiprovider.py'
    fdef, _, ln = load_function(rel, 'DBAPIProvider.quote_name')
    names = [a.arg for a in fdef.args.args]
    if len(names) != 2: raise TranslateError('quote_name: signature changed')
    out = []
    for ty, coqname, coqty in (('str', 'quote_name', 'str'), ('list str', 'quote_name_seq', 'list str')):
        ex = StrExec(NameSpec(names[0]))
        env = {names[0]: Sym('<self>', 'self'), names[1]: Sym('name', ty)}
        body = ex.run(fdef.body, env, lambda e: ex.spec.fallthrough(ex, e))
        out.append('%s\nDefinition %s (quote_char : Z) (name : %s) : str :=\n%s.\n' % (
            header(rel, ln, 'DBAPIProvider.quote_name', ', name : %s' % ty), coqname, coqty, body))
    return '\n'.join(out)


# ------------------------------------------------------------------------------------------------ Param.__str__

class ParamSpec(Spec):
    def __init__(self, selfname): self.selfname = selfname
    def attribute(self, ex, base, attr, node):
        if isinstance(base, ast.Name) and base.id == self.selfname:
            if attr == 'style': return Sym('style', 'paramstyle')
            if attr == 'id': return Sym('id', 'Z')
        raise TranslateError('attribute read not in subset: %s' % ast.unparse(node))
    def stmt_call(self, ex, node, env):
        if isinstance(node.func, ast.Name) and node.func.id == 'throw': return ('stop', 'PErr')
        raise TranslateError('call statement not in subset: %s' % ast.unparse(node))
    def emit_return(self, ex, v):
        # the placeholder shapes a DB-API driver understands
        def shape(v):
            if isinstance(v, Const): return [v.v]
            if isinstance(v, Fmt): return [p.v if isinstance(p, Const) else (p[0], p[1].coq if isinstance(p[1], Sym) else None) for p in v.pieces]
            return None
        s = shape(v)
        if s == ['?']: return 'PQ'
        if s == ['%s']: return 'PF'
        if s == [':', ('d', 'id')]: return '(PNum id)'
        if s == [':p', ('d', 'id')]: return '(PNam id)'
        if s == ['%(p', ('d', 'id'), ')s']: return '(PPy id)'
        raise TranslateError('Param.__str__ returns a placeholder of an unknown shape: %r' % (s,))
    def fallthrough(self, ex, env): return 'PErr'


def tr_param_str():
    rel = 'pony/orm/sqlbuilding.py'
    fdef, _, ln = load_function(rel, 'Param.__str__')
    names = [a.arg for a in fdef.args.args]
    ex = StrExec(ParamSpec(names[0]))
    body = ex.run(fdef.body, {names[0]: Sym('<self>', 'self')}, lambda e: ex.spec.fallthrough(ex, e))
    return '%s\nDefinition param_str (style : paramstyle) (id : Z) : ptok :=\n%s.\n' % (header(rel, ln, 'Param.__str__'), body)


# ------------------------------------------------------------------------------------------------ SQLBuilder.MOD

class ModSpec(Spec):
    def __init__(self, selfname): self.selfname = selfname
    def attribute(self, ex, base, attr, node):
        if isinstance(base, ast.Name) and base.id == self.selfname and attr == 'paramstyle': return Sym('style', 'paramstyle')
        raise TranslateError('attribute read not in subset: %s' % ast.unparse(node))


def tr_mod():
    rel = 'pony/orm/sqlbuilding.py'
    fdef, _, ln = load_function(rel, 'SQLBuilder.MOD')
    names = [a.arg for a in fdef.args.args]
    body = [s for s in fdef.body if not (isinstance(s, ast.Expr) and isinstance(s.value, ast.Constant))]
    ok = len(names) == 3 and len(body) == 2 and isinstance(body[0], ast.Assign) and isinstance(body[1], ast.Return) \
        and isinstance(body[1].value, ast.Tuple) and len(body[1].value.elts) == 5
    if ok:
        e = body[1].value.elts
        def is_b(n, arg): return isinstance(n, ast.Call) and isinstance(n.func, ast.Name) and n.func.id == names[0] and len(n.args) == 1 \
            and isinstance(n.args[0], ast.Name) and n.args[0].id == arg
        ok = isinstance(e[0], ast.Constant) and e[0].value == '(' and is_b(e[1], names[1]) and isinstance(e[2], ast.Name) \
            and is_b(e[3], names[2]) and isinstance(e[4], ast.Constant) and e[4].value == ')' \
            and len(body[0].targets) == 1 and isinstance(body[0].targets[0], ast.Name) and body[0].targets[0].id == e[2].id
    if not ok: raise TranslateError('SQLBuilder.MOD: shape changed (expected: symbol = ...; return "(", builder(a), symbol, builder(b), ")")')
    ex = StrExec(ModSpec(names[0]))
    sym = body[0].targets[0].id
    t = ex.run([body[0]], {names[0]: Sym('<self>', 'self')}, lambda env: ex.sterm(env[sym]))
    return '%s\nDefinition mod_symbol (style : paramstyle) : str :=\n%s.\n' % (header(rel, ln, 'SQLBuilder.MOD', ': the operator text between the operands'), t)


# ------------------------------------------------------------------------------------------------ StringMixin._like

class LikeSpec(Spec):
    def attribute(self, ex, base, attr, node):
        if isinstance(base, ast.Name) and base.id == 'item' and attr == 'value': return Sym('value', 'str')
        raise TranslateError('attribute read not in subset: %s' % ast.unparse(node))
    def call(self, ex, node, env):
        f = node.func
        if isinstance(f, ast.Attribute) and isinstance(f.value, ast.Name) and f.value.id == 'item' and f.attr == 'getsql' and not node.args:
            return List([Sym('x', 'str')])       # the SQL expression of the item, valued by a string x
        raise TranslateError('call not in subset: %s' % ast.unparse(node))
    def emit_node(self, ex, n):
        a = n.args
        if n.tag == 'VALUE' and len(a) == 1 and ex.is_strish(a[0]): return ex.sterm(a[0])
        if n.tag == 'REPLACE' and len(a) == 3 and all(isinstance(x, Node) and x.tag == 'VALUE' for x in a[1:]):
            c, by = a[1].args[0], a[2].args[0]
            return '(replace_all %s %s %s)' % (ex.cterm(c), ex.sterm(by), ex.emit(a[0]))
        if n.tag == 'CONCAT' and len(a) >= 2: return '(' + ' ++ '.join(ex.emit(x) for x in a) + ')'
        raise TranslateError('no string meaning for node %r/%d' % (n.tag, len(a)))


def like_call_sites():
    """(before, after) constants at the three call sites of _like."""
    rel = 'pony/orm/sqltranslation.py'
    out = {}
    for meth in ('contains', 'call_startswith', 'call_endswith'):
        fdef, _, ln = load_function(rel, 'StringMixin.' + meth)
        calls = [n for n in ast.walk(fdef) if isinstance(n, ast.Call) and isinstance(n.func, ast.Attribute) and n.func.attr == '_like']
        if len(calls) != 1: raise TranslateError('StringMixin.%s: expected exactly one call of _like' % meth)
        c = calls[0]
        if len(c.args) != 1: raise TranslateError('StringMixin.%s: _like call shape changed' % meth)
        kw = {}
        for k in c.keywords:
            if k.arg in ('before', 'after'):
                if not (isinstance(k.value, ast.Constant) and (k.value.value is None or isinstance(k.value.value, str))):
                    raise TranslateError('StringMixin.%s: before/after is not a constant' % meth)
                kw[k.arg] = k.value.value
            elif k.arg != 'not_like': raise TranslateError('StringMixin.%s: unexpected keyword %s' % (meth, k.arg))
        out[meth] = (kw.get('before'), kw.get('after'), ln)
    return out


def tr_like():
    rel = 'pony/orm/sqltranslation.py'
    fdef, _, ln = load_function(rel, 'StringMixin._like')
    names = [a.arg for a in fdef.args.args]
    if names != ['monad', 'item', 'before', 'after', 'not_like']: raise TranslateError('_like: signature changed: %r' % names)
    body = [s for s in fdef.body if not (isinstance(s, ast.Expr) and isinstance(s.value, ast.Constant))]
    # expected frame:  escape = False ; translator = ... ; if isinstance(item, StringConstMonad): <const> else: <param> ; ... ; if escape: result_sql.append(['VALUE', c])
    if not (isinstance(body[0], ast.Assign) and isinstance(body[0].targets[0], ast.Name) and body[0].targets[0].id == 'escape'
            and isinstance(body[0].value, ast.Constant) and body[0].value.value is False):
        raise TranslateError('_like: expected `escape = False` first')
    ifs = [s for s in body if isinstance(s, ast.If) and isinstance(s.test, ast.Call) and isinstance(s.test.func, ast.Name)
           and s.test.func.id == 'isinstance' and ast.unparse(s.test) == 'isinstance(item, StringConstMonad)']
    if len(ifs) != 1: raise TranslateError('_like: the StringConstMonad test was not found')
    const_block, param_block = ifs[0].body, ifs[0].orelse
    def cut(block):
        # the last statement of each block builds/finishes item_sql; everything is translated, the result is (item_sql, escape)
        return block
    # the ESCAPE clause
    esc = [s for s in body if isinstance(s, ast.If) and isinstance(s.test, ast.Name) and s.test.id == 'escape']
    if len(esc) != 1 or len(esc[0].body) != 1 or esc[0].orelse: raise TranslateError('_like: `if escape:` block not found')
    st = esc[0].body[0]
    try:
        call = st.value
        arg = call.args[0]
        assert isinstance(st, ast.Expr) and call.func.attr == 'append' and call.func.value.id == 'result_sql'
        assert isinstance(arg, ast.List) and arg.elts[0].value == 'VALUE' and isinstance(arg.elts[1].value, str) and len(arg.elts[1].value) == 1
        esc_char = arg.elts[1].value
    except Exception:
        raise TranslateError('_like: `if escape: result_sql.append([VALUE, c])` shape changed')
    # result_sql = [ 'NOT_LIKE' if not_like else 'LIKE', sql, item_sql ] must sit between
    idx_if, idx_esc = body.index(ifs[0]), body.index(esc[0])
    mid = [s for s in body[idx_if + 1: idx_esc] if isinstance(s, ast.Assign) and isinstance(s.targets[0], ast.Name) and s.targets[0].id == 'result_sql']
    if len(mid) != 1 or not (isinstance(mid[0].value, ast.List) and len(mid[0].value.elts) == 3 and isinstance(mid[0].value.elts[2], ast.Name)
                             and mid[0].value.elts[2].id == 'item_sql'):
        raise TranslateError('_like: result_sql = [op, sql, item_sql] not found')
    for s in body[idx_if + 1: idx_esc]:
        for n in ast.walk(s):
            if isinstance(n, ast.Name) and n.id in ('escape', 'item_sql') and isinstance(n.ctx, ast.Store):
                raise TranslateError('_like: escape/item_sql reassigned after the branch')

    out = ['(* %s:%d StringMixin._like: ESCAPE character *)\nDefinition like_escape_char : Z := %d.\n' % (rel, ln, ord(esc_char))]
    sites = like_call_sites()
    for meth, short in (('contains', 'contains'), ('call_startswith', 'startswith'), ('call_endswith', 'endswith')):
        before, after, sln = sites[meth]
        for block, kind, arg in ((const_block, 'const', 'value'), (param_block, 'param', 'x')):
            ex = StrExec(LikeSpec())
            env = {'monad': Sym('<self>', 'self'), 'item': Sym('<item>', 'monad'), 'before': Const(before), 'after': Const(after),
                   'escape': Const(False)}
            def fin(e):
                v, es = e.get('item_sql'), e.get('escape')
                if v is None or not isinstance(es, Const): raise TranslateError('_like: item_sql/escape not set on a path')
                return '(%s, %s)' % (ex.emit(v), 'true' if es.v else 'false')
            t = ex.run(block, env, fin)
            out.append('(* %s:%d StringMixin._like, %s branch, called from %s (line %d) with before=%r after=%r: (pattern, ESCAPE present) *)\n'
                       'Definition like_%s_%s (%s : str) : str * bool :=\n%s.\n' % (rel, ln, kind, meth, sln, before, after, kind, short, arg, t))
    return '\n'.join(out)


def generate():
    out = ['(* GENERATED by tools/py2coq/c06quote.py from /repo on every run -- do not edit *)',
           'Require Import PonyV.Base.PyBase PonyV.Model.C06Str PonyV.Model.C06Lex PonyV.Model.C06Params.', '']
    out.append(tr_quote_str())
    out.append(tr_value_str('pony/orm/sqlbuilding.py', 'Value.__str__', 'value_str', 'str'))
    out.append(tr_value_str('pony/orm/dbproviders/sqlite.py', 'SQLiteValue.__str__', 'sqlite_value_str', 'str'))
    out.append(tr_value_str('pony/orm/dbproviders/mysql.py', 'MySQLValue.__str__', 'mysql_value_str', 'str'))
    out.append(tr_value_str('pony/orm/dbproviders/postgres.py', 'PGValue.__str__', 'pg_value_str', 'str'))
    out.append(tr_value_str('pony/orm/sqlbuilding.py', 'Value.__str__', 'value_bytes', 'bytes'))
    out.append(tr_quote_name())
    out.append(tr_param_str())
    out.append(tr_mod())
    out.append(tr_like())
    return '\n'.join(out)


if __name__ == '__main__':
    print(generate())
