"""Tie A for C23: read the order of the early-exit checks in the many-to-many branch of SetInstance.__contains__
(pony/orm/core.py) with `ast` and write it to coq/Gen/ContainsOrder.v.  Fail closed on any other shape.

    if setdata is not None:
        if item in setdata: return True                                          -> ChkItems
        if setdata.is_fully_loaded: return False                                 -> ChkFull       (relies on ChkItems before it)
        if setdata.is_fully_loaded: return item in setdata                       -> ChkFullExact
        if setdata.absent is not None and item in setdata.absent: return False   -> ChkAbsent     (negative cache)
"""
import ast, os
import vlib
from vlib import TranslateError


def _u(n): return ast.unparse(n)


def scan():
    path = os.path.join(vlib.REPO, 'pony/orm/core.py')
    try: tree = ast.parse(open(path).read())
    except (IOError, SyntaxError) as e: raise TranslateError('cannot read/parse core.py: %s' % e)
    cls = [n for n in tree.body if isinstance(n, ast.ClassDef) and n.name == 'SetInstance']
    if not cls: raise TranslateError('SetInstance not found')
    fn = [n for n in cls[-1].body if isinstance(n, ast.FunctionDef) and n.name == '__contains__']
    if not fn: raise TranslateError('SetInstance.__contains__ not found')
    blocks = [n for n in fn[-1].body if isinstance(n, ast.If) and _u(n.test) == 'setdata is not None']
    if len(blocks) != 1: raise TranslateError('expected exactly one `if setdata is not None:` block in __contains__')
    # the statement that follows the block must be the load:  setdata = attr.load(obj, (item,))
    body = fn[-1].body
    nxt = body[body.index(blocks[0]) + 1]
    if _u(nxt) != 'setdata = attr.load(obj, (item,))': raise TranslateError('statement after the checks is not the load: %s' % _u(nxt))
    out = []
    for st in blocks[0].body:
        if not (isinstance(st, ast.If) and not st.orelse and len(st.body) == 1 and isinstance(st.body[0], ast.Return)):
            raise TranslateError('check of unrecognised shape: %s' % _u(st)[:80])
        t, r = _u(st.test), _u(st.body[0].value)
        if t == 'item in setdata' and r == 'True': out.append('ChkItems')
        elif t == 'setdata.is_fully_loaded' and r == 'False': out.append('ChkFull')
        elif t == 'setdata.is_fully_loaded' and r == 'item in setdata': out.append('ChkFullExact')
        elif t == 'setdata.absent is not None and item in setdata.absent' and r == 'False': out.append('ChkAbsent')
        else: raise TranslateError('check of unrecognised shape: if %s: return %s' % (t, r))
    return out, fn[-1].lineno


def generate():
    order, line = scan()
    return ('(* GENERATED on every run by tools/py2coq/containsorder.py from pony/orm/core.py (SetInstance.__contains__, line %d) -- do not edit. *)\n'
            'Require Import PonyV.Base.PyBase PonyV.Model.C23SetData.\n\n'
            'Definition contains_checks : list check := [%s].\n' % (line, '; '.join(order)))


if __name__ == '__main__':
    print(generate())
