"""Tie A for C07: the pure codec functions are re-translated from /repo's current source into coq/Gen/C07Codec.v on every run.

Translated by symbolic execution (core.Exec + convvalidate.TExec, extended here with string constants/concatenation,
slices with constant bounds, divmod/abs, the two '%d:%d:%d' format strings, and fallible calls in an option monad):

    ConverterWithMicroseconds.round_microseconds_to_precision  -> round_us
    pony.converting.timedelta2str                               -> timedelta2str
    pony.utils.datetime2timestamp                               -> datetime2timestamp
    pony.utils.timestamp2datetime                               -> timestamp2datetime

Translated by *shape-checked templates* (the method body must match the expected statement structure exactly; the format
strings, thresholds and the returned expression are read from the source; anything else raises TranslateError):

    SQLiteTimeConverter.sql2py / py2sql, SQLiteDateConverter.sql2py / py2sql, SQLiteDatetimeConverter.sql2py / py2sql

Pinned (source text compared with the text the hand-written model Model/C07Codec.v was written against; a change refuses):

    SQLiteDecimalConverter.sql2py / py2sql, SQLiteTimedeltaConverter.sql2py / py2sql, pony.converting.str2timedelta,
    Time/Timedelta/DatetimeConverter.validate (the precision rounding call), UuidConverter.py2sql
"""
import ast, datetime, hashlib
from py2coq.core import *
from py2coq.convvalidate import TExec, ConvSpec, is_opt, inner


def cstr_lit(s):
    return '[' + '; '.join('%d' % ord(c) for c in s) + ']'


class CExec(TExec):
    FORMATS = {'%d:%d:%d.%06d': ('fmt_hms_us', 4), '%d:%d:%d': ('fmt_hms', 3)}

    def eval(self, e, env):
        if isinstance(e, ast.BinOp) and isinstance(e.op, ast.Mod) and isinstance(e.left, ast.Constant) and isinstance(e.left.value, str):
            fmt = e.left.value
            if fmt not in self.FORMATS: raise TranslateError('format string not in subset: %r' % fmt)
            fn, n = self.FORMATS[fmt]
            args = self.eval(e.right, env)
            if not (isinstance(args, Tuple) and len(args.items) == n): raise TranslateError('format arguments not in subset: %s' % ast.unparse(e))
            return Sym('(%s %s)' % (fn, ' '.join(self.zterm(a) for a in args.items)), 'str')
        if isinstance(e, ast.BinOp) and isinstance(e.op, ast.Add):
            a, b = self.eval(e.left, env), self.eval(e.right, env)
            sa = isinstance(a, Sym) and a.ty == 'str'; sb = isinstance(b, Sym) and b.ty == 'str'
            ca = isinstance(a, Const) and isinstance(a.v, str); cb = isinstance(b, Const) and isinstance(b.v, str)
            if (sa or ca) and (sb or cb) and not (ca and cb):
                ta = cstr_lit(a.v) if ca else a.coq
                tb = cstr_lit(b.v) if cb else b.coq
                return Sym('(%s ++ %s)' % (ta, tb), 'str')
        if isinstance(e, ast.Subscript) and isinstance(e.slice, ast.Slice):
            base = self.eval(e.value, env)
            if isinstance(base, Sym) and base.ty == 'str' and e.slice.step is None:
                lo = 0 if e.slice.lower is None else self.eval(e.slice.lower, env)
                hi = None if e.slice.upper is None else self.eval(e.slice.upper, env)
                lo = lo.v if isinstance(lo, Const) else lo
                hi = hi.v if isinstance(hi, Const) else hi
                if isinstance(lo, int) and isinstance(hi, int) and 0 <= lo <= hi:
                    if lo == 0: return Sym('(firstn %d %s)' % (hi, base.coq), 'str')
                    return Sym('(slice %d %d %s)' % (lo, hi, base.coq), 'str')
            raise TranslateError('slice not in subset: %s' % ast.unparse(e))
        return TExec.eval(self, e, env)

    def cond_value(self, e, env):
        if isinstance(e, ast.Compare) and len(e.ops) > 1:          # a <= b <= c  ->  (a <= b) and (b <= c)
            parts, left = [], e.left
            for op, right in zip(e.ops, e.comparators):
                parts.append(ast.Compare(left=left, ops=[op], comparators=[right])); left = right
            return TExec.cond_value(self, ast.BoolOp(op=ast.And(), values=parts), env)
        return TExec.cond_value(self, e, env)

    def branch(self, test, env, kt, kf):
        if isinstance(test, ast.Compare) and len(test.ops) > 1:
            c = self.cond_value(test, env)
            if isinstance(c, Const): return kt(env) if c.v else kf(env)
            return '(if %s\n then %s\n else %s)' % (c.coq, kt(env), kf(env))
        return TExec.branch(self, test, env, kt, kf)

    def run(self, stmts, env, k):
        # fallible call in statement position:  x = f(...)   |->   match f' with Some x => rest | None => None end
        if stmts and isinstance(stmts[0], (ast.Assign, ast.Return)) and isinstance(stmts[0].value, ast.Call):
            s = stmts[0]
            fal = self.spec.fallible(self, s.value, env) if hasattr(self.spec, 'fallible') else None
            if fal is not None:
                term, ty = fal
                if isinstance(s, ast.Return): return term
                if len(s.targets) != 1 or not isinstance(s.targets[0], ast.Name): raise TranslateError('target not in subset: %s' % ast.unparse(s))
                x = self.gensym(s.targets[0].id)
                env = dict(env); env[s.targets[0].id] = Sym(x, ty)
                return '(match %s with\n | Some %s => %s\n | None => None\n end)' % (term, x, self.run(stmts[1:], env, k))
        return TExec.run(self, stmts, env, k)


class CodecSpec(ConvSpec):
    def __init__(self, selfname, params, statics=None, ret=None, fall=None, fallibles=None):
        ConvSpec.__init__(self, selfname, params, None, statics, ret, fall)
        self.fallibles = fallibles or {}

    def call(self, ex, node, env):
        src = ast.unparse(node.func)
        if src == 'abs' and len(node.args) == 1:
            v = ex.eval(node.args[0], env)
            return Sym('(Z.abs %s)' % ex.zterm(v), 'Z')
        if src == 'divmod' and len(node.args) == 2:
            a, b = ex.eval(node.args[0], env), ex.eval(node.args[1], env)
            return Tuple([Sym('(py_floordiv %s %s)' % (ex.zterm(a), ex.zterm(b)), 'Z'), Sym('(py_mod %s %s)' % (ex.zterm(a), ex.zterm(b)), 'Z')])
        if src == 'len' and len(node.args) == 1:
            v = ex.eval(node.args[0], env)
            if isinstance(v, Sym) and v.ty == 'str': return Sym('(zlen_s %s)' % v.coq, 'Z')
        if isinstance(node.func, ast.Attribute) and node.func.attr == 'isoformat' and len(node.args) == 1 and not node.keywords:
            v = ex.eval(node.func.value, env); a = ex.eval(node.args[0], env)
            if isinstance(v, Sym) and v.ty == 'datetime_v' and isinstance(a, Const) and a.v == ' ':
                return Sym('(iso_datetime %s)' % v.coq, 'str')
        return ConvSpec.call(self, ex, node, env)

    def fallible(self, ex, node, env):
        key = ast.unparse(node)
        for pat, fn in self.fallibles.items():
            if ast.unparse(node.func) == pat:
                return fn(ex, node, env)
        return None


def load(relpath, qualname):
    fdef, src, lineno = load_function(relpath, qualname)
    return fdef, src, lineno


def body_of(fdef):
    return [s for s in fdef.body if not (isinstance(s, ast.Expr) and isinstance(s.value, ast.Constant))]


# ------------------------------------------------------------------------------------------------ translated functions

def gen_round_us():
    rel, q = 'pony/orm/dbapiprovider.py', 'ConverterWithMicroseconds.round_microseconds_to_precision'
    fdef, src, lineno = load(rel, q)
    names = [a.arg for a in fdef.args.args]
    if names[1:] != ['microseconds', 'precision']: raise TranslateError('%s: signature changed: %r' % (q, names))
    params = {'microseconds': Sym('microseconds', 'Z'), 'precision': Sym('precision', 'Z')}
    def ret(ex, v):
        return ex.lift_opt(v, 'Z')
    spec = CodecSpec(names[0], params, ret=ret, fall=lambda ex, env: (_ for _ in ()).throw(TranslateError('falls off its end')))
    ex = CExec(spec)
    env = {names[0]: Sym('<self>', 'self')}; env.update(params)
    term = ex.run(fdef.body, env, lambda e: spec.fallthrough(ex, e))
    return '(* %s:%d %s; None = "no change required" *)\nDefinition round_us (precision microseconds : Z) : option Z :=\n%s.\n' % (rel, lineno, q, term)


def gen_timedelta2str():
    rel, q = 'pony/converting.py', 'timedelta2str'
    fdef, src, lineno = load(rel, q)
    if [a.arg for a in fdef.args.args] != ['td']: raise TranslateError('timedelta2str: signature changed')
    statics = {'td.days': Sym('days', 'Z'), 'td.seconds': Sym('secs', 'Z'), 'td.microseconds': Sym('us', 'Z')}
    def ret(ex, v):
        if isinstance(v, Sym) and v.ty == 'str': return v.coq
        raise TranslateError('timedelta2str returns something else than a string')
    spec = CodecSpec('<none>', {'td': Sym('<td>', 'opaque')}, statics=statics, ret=ret,
                     fall=lambda ex, env: (_ for _ in ()).throw(TranslateError('falls off its end')))
    ex = CExec(spec)
    term = ex.run(fdef.body, {'td': Sym('<td>', 'opaque')}, lambda e: spec.fallthrough(ex, e))
    return '(* %s:%d %s on a normalised timedelta (days, seconds, microseconds) *)\nDefinition timedelta2str (days secs us : Z) : str :=\n%s.\n' % (rel, lineno, q, term)


def gen_datetime2timestamp():
    rel, q = 'pony/utils/utils.py', 'datetime2timestamp'
    fdef, src, lineno = load(rel, q)
    if [a.arg for a in fdef.args.args] != ['d']: raise TranslateError('datetime2timestamp: signature changed')
    def ret(ex, v):
        if isinstance(v, Sym) and v.ty == 'str': return v.coq
        raise TranslateError('datetime2timestamp returns something else than a string')
    params = {'d': Sym('d', 'datetime_v')}
    spec = CodecSpec('<none>', params, ret=ret, fall=lambda ex, env: (_ for _ in ()).throw(TranslateError('falls off its end')))
    ex = CExec(spec)
    term = ex.run(fdef.body, dict(params), lambda e: spec.fallthrough(ex, e))
    return '(* %s:%d %s *)\nDefinition datetime2timestamp (d : datetime_v) : str :=\n%s.\n' % (rel, lineno, q, term)


def gen_timestamp2datetime():
    rel, q = 'pony/utils/utils.py', 'timestamp2datetime'
    fdef, src, lineno = load(rel, q)
    if [a.arg for a in fdef.args.args] != ['t']: raise TranslateError('timestamp2datetime: signature changed')
    def f_strptime(ex, node, env):
        if len(node.args) != 2 or not isinstance(node.args[1], ast.Constant) or node.args[1].value != '%Y-%m-%d %H:%M:%S':
            raise TranslateError('strptime format changed: %s' % ast.unparse(node))
        s = ex.eval(node.args[0], env)
        return '(strptime_ymd_hms %s)' % s.coq, 'ymdhms'
    def f_int(ex, node, env):
        s = ex.eval(node.args[0], env)
        if not (isinstance(s, Sym) and s.ty == 'str'): raise TranslateError('int() of a non-string: %s' % ast.unparse(node))
        return '(int_of_str %s)' % s.coq, 'Z'
    def f_datetime(ex, node, env):
        if ast.unparse(node) != 'datetime(*time_tuple[:6] + (microseconds,))':
            raise TranslateError('datetime construction changed: %s' % ast.unparse(node))
        tt, us = env.get('time_tuple'), env.get('microseconds')
        if not (isinstance(tt, Sym) and tt.ty == 'ymdhms' and isinstance(us, Sym) and us.ty == 'Z'):
            raise TranslateError('datetime construction arguments not understood')
        return '(mk_datetime_checked %s %s)' % (tt.coq, us.coq), 'datetime_v'
    params = {'t': Sym('t', 'str')}
    spec = CodecSpec('<none>', params, ret=None, fall=lambda ex, env: (_ for _ in ()).throw(TranslateError('falls off its end')),
                     fallibles={'strptime': f_strptime, 'int': f_int, 'datetime': f_datetime})
    spec.ret = lambda ex, v: (_ for _ in ()).throw(TranslateError('unexpected plain return'))
    ex = CExec(spec)
    term = ex.run(fdef.body, dict(params), lambda e: spec.fallthrough(ex, e))
    return '(* %s:%d %s; None = the function raises *)\nDefinition timestamp2datetime (t : str) : option datetime_v :=\n%s.\n' % (rel, lineno, q, term)


# ------------------------------------------------------------------------------------------------ shape-checked templates

SQ = 'pony/orm/dbproviders/sqlite.py'

def expect(cond, what):
    if not cond: raise TranslateError('template mismatch: ' + what)


def bare_try(fdef, q):
    body = body_of(fdef)
    expect(len(body) == 1 and isinstance(body[0], ast.Try), '%s is no longer a single try statement' % q)
    t = body[0]
    expect(len(t.handlers) == 1 and t.handlers[0].type is None and not t.orelse and not t.finalbody
           and [ast.unparse(s) for s in t.handlers[0].body] == ['return val'], '%s: handler is no longer a bare `except: return val`' % q)
    return t.body


class Raises(Exception):
    """Evaluating the expression raises (AttributeError) whatever the input: the bare `except` takes over."""


def module_bindings(relpath):
    """Names bound by the top-level import statements of REPO/relpath -> the real objects (stdlib modules only)."""
    import importlib, os
    src = open(os.path.join(vlib.REPO, relpath)).read()
    out = {}
    for node in ast.parse(src).body:
        if isinstance(node, ast.Import):
            for a in node.names:
                top = a.name.split('.')[0]
                if top in ('datetime', 'time'): out[a.asname or top] = importlib.import_module(top)
        elif isinstance(node, ast.ImportFrom) and node.module in ('datetime', 'time'):
            mod = importlib.import_module(node.module)
            for a in node.names: out[a.asname or a.name] = getattr(mod, a.name)
    return out


def eval_chain(expr, names):
    """Evaluate `name.a.b` / `name.a.b()` (no arguments) on real objects; Raises when an attribute is missing."""
    if isinstance(expr, ast.Name):
        if expr.id not in names: raise TranslateError('name %r is not understood in %s' % (expr.id, ast.unparse(expr)))
        return names[expr.id]
    if isinstance(expr, ast.Attribute):
        obj = eval_chain(expr.value, names)
        if not hasattr(obj, expr.attr): raise Raises('%s has no attribute %r' % (type(obj).__name__ if not isinstance(obj, type) else obj.__name__, expr.attr))
        return getattr(obj, expr.attr)
    if isinstance(expr, ast.Call) and not expr.args and not expr.keywords:
        return eval_chain(expr.func, names)()
    raise TranslateError('expression not in subset: %s' % ast.unparse(expr))


def gen_sqlite_time():
    fdef, src, lineno = load(SQ, 'SQLiteTimeConverter.sql2py')
    tb = bare_try(fdef, 'SQLiteTimeConverter.sql2py')
    expect(len(tb) == 2 and isinstance(tb[0], ast.If) and isinstance(tb[1], ast.Return), 'SQLiteTimeConverter.sql2py: try body changed')
    iff = tb[0]
    expect(ast.unparse(iff.test) == 'len(val) <= 8', 'length test changed: %s' % ast.unparse(iff.test))
    names = module_bindings(SQ)
    notes, parsers = [], []
    for stmts, fmt in ((iff.body, '%H:%M:%S'), (iff.orelse, '%H:%M:%S.%f')):
        expect(len(stmts) == 1 and isinstance(stmts[0], ast.Assign) and ast.unparse(stmts[0].targets[0]) == 'dt' and isinstance(stmts[0].value, ast.Call)
               and isinstance(stmts[0].value.func, ast.Attribute) and stmts[0].value.func.attr == 'strptime'
               and [ast.unparse(a) for a in stmts[0].value.args] == ['val', repr(fmt)] and not stmts[0].value.keywords, 'strptime call changed: %s' % ast.unparse(stmts[0]))
        try:
            fn = eval_chain(stmts[0].value.func, names)
            expect(fn == datetime.datetime.strptime, '%s is not datetime.datetime.strptime' % ast.unparse(stmts[0].value.func))
            parsers.append(True)
        except Raises as e:
            parsers.append(False); notes.append('`%s` raises AttributeError (%s)' % (ast.unparse(stmts[0].value.func), e))
    ret_ok = None
    try:
        v = eval_chain(tb[1].value, {'dt': datetime.datetime(2000, 1, 2, 3, 4, 5, 6)})
        expect(v == datetime.time(3, 4, 5, 6), 'the returned expression %s is not the time of dt' % ast.unparse(tb[1].value))
        ret_ok = True
    except Raises as e:
        ret_ok = False; notes.append('the returned expression `%s` raises AttributeError (%s)' % (ast.unparse(tb[1].value), e))
    def arm(ok, parser):
        if not ok: return '(None : option time_v)'    # the strptime call itself raises
        return parser
    body = ('  match (if zlen_s val <=? 8 then %s else %s) with\n  | Some dt => %s\n  | None => RStr val\n  end'
            % (arm(parsers[0], 'strptime_hms val'), arm(parsers[1], 'strptime_hms_f val'), '(RVal dt)' if ret_ok else '(RStr val)'))
    note = '; '.join(notes) if notes else 'both strptime calls and the returned expression are well-formed'
    out = ('(* %s:%d SQLiteTimeConverter.sql2py (template; names resolved against the module imports); %s: an exception inside the try makes the bare except return the raw string *)\n'
           'Definition sqlite_time_sql2py (val : str) : dbres time_v :=\n%s.\n' % (SQ, lineno, note, body))
    fdef, src, lineno = load(SQ, 'SQLiteTimeConverter.py2sql')
    expect([ast.unparse(s) for s in body_of(fdef)] == ['return val.isoformat()'], 'SQLiteTimeConverter.py2sql changed')
    out += '(* %s:%d SQLiteTimeConverter.py2sql *)\nDefinition sqlite_time_py2sql (val : time_v) : str := iso_time val.\n' % (SQ, lineno)
    return out


def gen_sqlite_date():
    fdef, src, lineno = load(SQ, 'SQLiteDateConverter.sql2py')
    tb = bare_try(fdef, 'SQLiteDateConverter.sql2py')
    expect([ast.unparse(s) for s in tb] == ["time_tuple = time.strptime(val[:10], '%Y-%m-%d')", 'return datetime.date(*time_tuple[:3])'],
           'SQLiteDateConverter.sql2py: try body changed')
    out = ('(* %s:%d SQLiteDateConverter.sql2py (template) *)\nDefinition sqlite_date_sql2py (val : str) : dbres date_v :=\n'
           '  match strptime_ymd (firstn 10 val) with\n  | Some d => RVal d\n  | None => RStr val\n  end.\n' % (SQ, lineno))
    fdef, src, lineno = load(SQ, 'SQLiteDateConverter.py2sql')
    forms = {"return val.strftime('%Y-%m-%d')": 'strftime_ymd val', 'return val.isoformat()': 'iso_date val'}
    texts = [ast.unparse(s) for s in body_of(fdef)]
    expect(len(texts) == 1 and texts[0] in forms, 'SQLiteDateConverter.py2sql changed: %r' % texts)
    out += '(* %s:%d SQLiteDateConverter.py2sql: `%s` *)\nDefinition sqlite_date_py2sql (val : date_v) : str := %s.\n' % (SQ, lineno, texts[0], forms[texts[0]])
    return out


def gen_sqlite_datetime():
    fdef, src, lineno = load(SQ, 'SQLiteDatetimeConverter.sql2py')
    body = body_of(fdef)
    expect(len(body) == 1 and isinstance(body[0], ast.Try), 'SQLiteDatetimeConverter.sql2py is no longer a single try statement')
    t = body[0]
    expect([ast.unparse(s) for s in t.body] == ['return timestamp2datetime(val)'] and len(t.handlers) == 1 and t.handlers[0].type is None
           and [ast.unparse(s) for s in t.handlers[0].body] == ['return val'], 'SQLiteDatetimeConverter.sql2py changed')
    out = ('(* %s:%d SQLiteDatetimeConverter.sql2py (template) *)\nDefinition sqlite_datetime_sql2py (val : str) : dbres datetime_v :=\n'
           '  match timestamp2datetime val with\n  | Some d => RVal d\n  | None => RStr val\n  end.\n' % (SQ, lineno))
    fdef, src, lineno = load(SQ, 'SQLiteDatetimeConverter.py2sql')
    expect([ast.unparse(s) for s in body_of(fdef)] == ['return datetime2timestamp(val)'], 'SQLiteDatetimeConverter.py2sql changed')
    out += '(* %s:%d SQLiteDatetimeConverter.py2sql *)\nDefinition sqlite_datetime_py2sql (val : datetime_v) : str := datetime2timestamp val.\n' % (SQ, lineno)
    return out


# ------------------------------------------------------------------------------------------------ pinned sources (hand-written models)

PINNED = {
    (SQ, 'SQLiteDecimalConverter.sql2py'): "def sql2py(converter, val):\n    try:\n        val = Decimal(str(val))\n    except:\n        return val\n    exp = converter.exp\n    if exp is not None:\n        val = val.quantize(exp)\n    return val",
    (SQ, 'SQLiteDecimalConverter.py2sql'): "def py2sql(converter, val):\n    if type(val) is not Decimal:\n        val = Decimal(val)\n    exp = converter.exp\n    if exp is not None:\n        if val in (converter.inf, converter.neg_inf, converter.NaN):\n            throw(ValueError, 'Cannot store %s Decimal value in database' % val)\n        val = val.quantize(exp)\n    return str(val)",
    (SQ, 'SQLiteTimedeltaConverter.sql2py'): "def sql2py(converter, val):\n    return datetime.timedelta(days=val)",
    (SQ, 'SQLiteTimedeltaConverter.py2sql'): "def py2sql(converter, val):\n    return val.days + (val.seconds + val.microseconds / 1000000.0) / 86400.0",
    ('pony/converting.py', 'str2timedelta'): "def str2timedelta(s):\n    negative = s.startswith('-')\n    if '.' in s:\n        s, fractional = s.split('.')\n        microseconds = int((fractional + '000000')[:6])\n    else:\n        microseconds = 0\n    h, m, s = map(int, s.split(':'))\n    td = timedelta(hours=abs(h), minutes=m, seconds=s, microseconds=microseconds)\n    return -td if negative else td",
    ('pony/orm/dbapiprovider.py', 'TimeConverter.validate'): "def validate(converter, val, obj=None):\n    if isinstance(val, time):\n        pass\n    elif isinstance(val, str):\n        val = str2time(val)\n    else:\n        throw(TypeError, \"Attribute %r: expected type is 'time'. Got: %r\" % (converter.attr, val))\n    mcs = converter.round_microseconds_to_precision(val.microsecond, converter.precision)\n    if mcs is not None:\n        val = val.replace(microsecond=mcs)\n    return val",
    ('pony/orm/dbapiprovider.py', 'DatetimeConverter.validate'): "def validate(converter, val, obj=None):\n    if isinstance(val, datetime):\n        pass\n    elif isinstance(val, str):\n        val = str2datetime(val)\n    else:\n        throw(TypeError, \"Attribute %r: expected type is 'datetime'. Got: %r\" % (converter.attr, val))\n    mcs = converter.round_microseconds_to_precision(val.microsecond, converter.precision)\n    if mcs is not None:\n        val = val.replace(microsecond=mcs)\n    return val",
    ('pony/orm/dbapiprovider.py', 'TimedeltaConverter.validate'): "def validate(converter, val, obj=None):\n    if isinstance(val, timedelta):\n        pass\n    elif isinstance(val, str):\n        val = str2timedelta(val)\n    else:\n        throw(TypeError, \"Attribute %r: expected type is 'timedelta'. Got: %r\" % (converter.attr, val))\n    mcs = converter.round_microseconds_to_precision(val.microseconds, converter.precision)\n    if mcs is not None:\n        val = timedelta(val.days, val.seconds, mcs)\n    return val",
    ('pony/orm/dbapiprovider.py', 'UuidConverter.py2sql'): "def py2sql(converter, val):\n    return buffer(val.bytes)",
    ('pony/orm/dbapiprovider.py', 'DecimalConverter.sql2py'): "def sql2py(converter, val):\n    return Decimal(val)",
    # how Json / array values become text (Model/C07Json.v models exactly these json.dumps arguments, and json.loads)
    ('pony/orm/dbapiprovider.py', 'JsonConverter.val2dbval'): 'def val2dbval(converter, val, obj=None):\n    return json.dumps(val, cls=converter.JsonEncoder, **converter.json_kwargs)',
    ('pony/orm/dbapiprovider.py', 'JsonConverter.dbval2val'): 'def dbval2val(converter, dbval, obj=None):\n    if isinstance(dbval, (int, bool, float, type(None))):\n        return dbval\n    val = json.loads(dbval)\n    if obj is None:\n        return val\n    return TrackedValue.make(obj, converter.attr, val)',
    ('pony/orm/dbproviders/sqlite.py', 'SQLiteArrayConverter.val2dbval'): 'def val2dbval(converter, val, obj=None):\n    return dumps(val)',
    ('pony/orm/dbproviders/sqlite.py', 'SQLiteArrayConverter.dbval2val'): 'def dbval2val(converter, dbval, obj=None):\n    if not dbval:\n        return None\n    items = json.loads(dbval)\n    if obj is None:\n        return items\n    return TrackedArray(obj, converter.attr, items)',
    ('pony/orm/dbproviders/sqlite.py', 'dumps'): 'def dumps(items):\n    return json.dumps(items, **SQLiteJsonConverter.json_kwargs)',
    ('pony/orm/dbproviders/sqlite.py', 'SQLiteJsonConverter'): "class SQLiteJsonConverter(dbapiprovider.JsonConverter):\n    json_kwargs = {'separators': (',', ':'), 'sort_keys': True, 'ensure_ascii': False}",
}


def check_pinned():
    notes = []
    for (rel, q), want in sorted(PINNED.items()):
        fdef, src, lineno = load(rel, q)
        got = ast.unparse(fdef)
        if got != want:
            raise TranslateError('%s:%s changed; the hand-written model in Model/C07Codec.v was written against:\n%s\nnow:\n%s' % (rel, q, want, got))
        notes.append('(* pinned %s:%d %s sha1=%s *)' % (rel, lineno, q, hashlib.sha1(got.encode()).hexdigest()[:10]))
    return '\n'.join(notes) + '\n'


# ------------------------------------------------------------------------------------------------ other providers: pure py2sql / sql2py pairs

def gen_other_providers():
    ORA, MY = 'pony/orm/dbproviders/oracle.py', 'pony/orm/dbproviders/mysql.py'
    out = ''
    # Oracle bool: NUMBER(1)
    f1, _, l1 = load(ORA, 'OraBoolConverter.py2sql'); f2, _, l2 = load(ORA, 'OraBoolConverter.sql2py')
    expect([ast.unparse(x) for x in body_of(f1)] == ['return int(val)'] and [ast.unparse(x) for x in body_of(f2)] == ['return bool(val)'], 'OraBoolConverter changed')
    out += ('(* %s:%d,%d OraBoolConverter.py2sql = int(val), sql2py = bool(val) (template) *)\nDefinition ora_bool_py2sql (b : bool) : Z := if b then 1 else 0.\n'
            'Definition ora_bool_sql2py (z : Z) : bool := negb (z =? 0).\n' % (ORA, l1, l2))
    # Oracle / MySQL time: the database holds an interval; sql2py turns the timedelta handed back by the driver into a time
    fo, _, lo = load(ORA, 'OraTimeConverter.sql2py'); fm, _, lm = load(MY, 'MySQLTimeConverter.sql2py')
    expect(ast.unparse(fo) == ast.unparse(fm), 'OraTimeConverter.sql2py and MySQLTimeConverter.sql2py are no longer the same text')
    fp, _, lp = load(ORA, 'OraTimeConverter.py2sql')
    expect([ast.unparse(x) for x in body_of(fp)] == ['return timedelta(hours=val.hour, minutes=val.minute, seconds=val.second, microseconds=val.microsecond)'],
           'OraTimeConverter.py2sql changed')
    statics = {'val.days': Sym('days', 'Z'), 'val.seconds': Sym('secs', 'Z'), 'val.microseconds': Sym('us', 'Z')}
    def f_time(ex, node, env):
        if len(node.args) != 4 or node.keywords: raise TranslateError('time(...) construction changed: %s' % ast.unparse(node))
        a = [ex.zterm(ex.eval(x, env)) for x in node.args]
        return '(time_checked %s %s %s %s)' % tuple(a), 'time_v'
    class Spec3(CodecSpec):
        def call(self2, ex, node, env):
            if ast.unparse(node.func) == 'isinstance' and len(node.args) == 2 and ast.unparse(node.args[0]) == 'val':
                return Const(ast.unparse(node.args[1]) == 'timedelta')          # the value handed back by the driver is a timedelta
            return CodecSpec.call(self2, ex, node, env)
    spec = Spec3(fo.args.args[0].arg, {'val': Sym('<val>', 'opaque')}, statics=statics, ret=lambda ex, v: 'None', fall=lambda ex, env: 'None', fallibles={'time': f_time})
    ex = CExec(spec)
    term = ex.run(fo.body, {fo.args.args[0].arg: Sym('<self>', 'self'), 'val': Sym('<val>', 'opaque')}, lambda e: spec.fallthrough(ex, e))
    out += ('(* %s:%d OraTimeConverter.sql2py = %s:%d MySQLTimeConverter.sql2py on a timedelta (days, seconds, microseconds); None = not converted to a time (returned as is / raises) *)\n'
            'Definition interval_time_sql2py (days secs us : Z) : option time_v :=\n%s.\n'
            '(* %s:%d OraTimeConverter.py2sql (template) *)\nDefinition ora_time_py2sql (t : time_v) : td_v := td_make (th t) (tmi t) (ts t) (tus t).\n'
            % (ORA, lo, MY, lm, term, ORA, lp))
    return out


# ------------------------------------------------------------------------------------------------ Json / array re-wrap condition

KEEP_ATOMS = {'isinstance(val, TrackedValue)': 'tv_is_tracked val',
              'val.obj_ref() is obj': 'tv_owner_is val obj',
              'val.attr is converter.attr': 'tv_attr_is val attr'}

def keep_condition(test, q):
    """The condition under which validate hands the given (tracked) value back as is: a conjunction of known atoms."""
    atoms = test.values if isinstance(test, ast.BoolOp) and isinstance(test.op, ast.And) else [test]
    terms = []
    for a in atoms:
        t = ast.unparse(a)
        if t not in KEEP_ATOMS: raise TranslateError('%s: condition for returning the value unchanged is not understood: %s' % (q, t))
        terms.append(KEEP_ATOMS[t])
    out = 'true'
    for t in reversed(terms): out = '(%s && %s)' % (t, out)
    return out


def gen_tracked_validate():
    rel = 'pony/orm/dbapiprovider.py'
    fdef, src, lineno = load(rel, 'JsonConverter.validate')
    body = body_of(fdef)
    UNWRAP = 'if isinstance(val, Json):\n    val = val.wrapped'
    unwrap = len(body) == 4 and ast.unparse(body[1]) == UNWRAP
    if unwrap: body = [body[0]] + body[2:]
    expect(len(body) == 3 and ast.unparse(body[0]) == 'if obj is None or converter.attr is None:\n    return val'
           and isinstance(body[1], ast.If) and not body[1].orelse and [ast.unparse(x) for x in body[1].body] == ['return val']
           and ast.unparse(body[2]) == 'return TrackedValue.make(obj, converter.attr, val)', 'JsonConverter.validate: statement structure changed')
    out = ('(* %s:%d JsonConverter.validate for a bound attribute (obj and converter.attr not None): %sthe value is kept as is under the condition read from the source, '
           'else re-wrapped as a tracked copy bound to (obj, attr) *)\n'
           'Definition json_keeps (obj attr : Z) (val : tval) : bool := %s.\n'
           'Definition json_validate (obj attr : Z) (val0 : tval) : tval :=\n  let val := %s in if json_keeps obj attr val then val else TTracked obj attr (tv_payload val).\n'
           % (rel, lineno, 'a Json(...) wrapper is removed first; ' if unwrap else '', keep_condition(body[1].test, 'JsonConverter.validate'), 'tv_unwrap val0' if unwrap else 'val0'))
    fdef, src, lineno = load(rel, 'ArrayConverter.validate')
    body = body_of(fdef)
    expect(len(body) >= 3 and isinstance(body[0], ast.If) and not body[0].orelse and [ast.unparse(x) for x in body[0].body] == ['return val']
           and ast.unparse(body[-2]) == 'if obj is None or converter.attr is None:\n    return items'
           and ast.unparse(body[-1]) == 'return TrackedArray(obj, converter.attr, items)', 'ArrayConverter.validate: statement structure changed')
    out += ('(* %s:%d ArrayConverter.validate (first and last statements; the item type checks in between are not modelled) *)\n'
            'Definition array_keeps (obj attr : Z) (val : tval) : bool := %s.\n'
            'Definition array_validate (obj attr : Z) (val : tval) : tval := if array_keeps obj attr val then val else TTracked obj attr (tv_payload val).\n'
            % (rel, lineno, keep_condition(body[0].test, 'ArrayConverter.validate')))
    return out


def gen_identity_converters():
    """str / LongStr / bytes / int values are handed to the driver and back unchanged: Converter.py2sql / sql2py are `return val`,
    StrConverter does not override them, IntConverter.sql2py is int(val), BlobConverter.sql2py keeps a bytes value."""
    rel = 'pony/orm/dbapiprovider.py'
    for q in ('Converter.py2sql', 'Converter.sql2py'):
        fdef, _, _ = load(rel, q)
        expect([ast.unparse(x) for x in body_of(fdef)] == ['return val'], '%s is no longer `return val`' % q)
    cls, _, _ = load_function(rel, 'StrConverter')
    expect(not [n for n in cls.body if isinstance(n, ast.FunctionDef) and n.name in ('py2sql', 'sql2py', 'val2dbval', 'dbval2val')], 'StrConverter now overrides a codec method')
    cls, _, _ = load_function(rel, 'BlobConverter')
    expect(not [n for n in cls.body if isinstance(n, ast.FunctionDef) and n.name in ('py2sql', 'val2dbval', 'dbval2val')], 'BlobConverter now overrides py2sql')
    fdef, _, lb = load(rel, 'BlobConverter.sql2py')
    expect(ast.unparse(fdef) == "def sql2py(converter, val):\n    if not isinstance(val, buffer):\n        try:\n            val = buffer(val)\n        except:\n            pass\n    return val",
           'BlobConverter.sql2py changed')
    fdef, _, li = load(rel, 'IntConverter.sql2py')
    expect([ast.unparse(x) for x in body_of(fdef)] == ['return int(val)'], 'IntConverter.sql2py changed')
    return ('(* %s: Converter.py2sql / sql2py are `return val`; StrConverter and BlobConverter.py2sql inherit them; BlobConverter.sql2py (line %d) returns a bytes value as is; '
            'IntConverter.sql2py (line %d) is int(val) (templates) *)\n'
            'Definition str_py2sql (s : str) : str := s.\nDefinition str_sql2py (s : str) : str := s.\n'
            'Definition bytes_py2sql (b : list Z) : list Z := b.\nDefinition bytes_sql2py (b : list Z) : list Z := b.\n'
            'Definition int_py2sql (z : Z) : Z := z.\nDefinition int_sql2py (z : Z) : Z := z.\n' % (rel, lb, li))


def generate():
    out = ['(* GENERATED by tools/py2coq/codecs.py from /repo on every run -- do not edit *)',
           'Require Import PonyV.Base.PyBase PonyV.Model.C07Base PonyV.Model.C07Fmt.', '']
    out.append(gen_round_us())
    out.append(gen_timedelta2str())
    out.append(gen_datetime2timestamp())
    out.append(gen_timestamp2datetime())
    out.append(gen_sqlite_time())
    out.append(gen_sqlite_date())
    out.append(gen_sqlite_datetime())
    out.append(gen_tracked_validate())
    out.append(gen_other_providers())
    out.append(gen_identity_converters())
    out.append(check_pinned())
    return '\n'.join(out)


if __name__ == '__main__':
    print(generate())
