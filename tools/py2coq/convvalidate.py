"""Tie A for C08 (and the pure helpers of C07): the validation logic of the attribute converters is
re-translated from /repo's current source into coq/Gen/C08Conv.v on every run.

Translated (pony/orm/dbapiprovider.py, pony/orm/core.py):

    IntConverter.init        -> int_init      (size/unsigned/min/max -> effective bounds, or the declaration error)
    IntConverter.validate    -> int_validate  (bounds check of an int value)
    RealConverter.validate   -> real_validate (bounds check of a float value; float(val) is the identity on the model's values)
    DecimalConverter.validate-> dec_validate  (bounds check of a Decimal value)
    StrConverter.validate    -> str_validate  (autostrip + max_len)
    Attribute.validate       -> attr_none     (only its leading `if val is None:` statement)
    Required.validate        -> req_validate  (empty / None check applied to the result of Attribute.validate)

The executor is core.Exec (symbolic execution with path splitting) extended *here* with: typed symbols
(Z, bool, num, str, option T, V), Python truthiness of typed values, `a or b` / `a and b` in value position,
`x in (c1, .., cn)`, `2 ** x`, `len`, `.strip()`, `isinstance` decided by the static type, `try: <total conversion>`.
Everything else raises TranslateError (fail closed).
"""
import ast
from py2coq.core import *

TYPE_ERROR, VALUE_ERROR = 1, 2
EXC = {'TypeError': TYPE_ERROR, 'ValueError': VALUE_ERROR}


def is_opt(ty): return ty.startswith('option ')
def inner(ty): return ty[len('option '):]


class SelfAttrs(ast.NodeTransformer):
    """`<self>.<name>` in Load context -> the Name self_<name> (so that `is None` tests can refine it)."""
    def __init__(self, selfname, names): self.selfname = selfname; self.names = names
    def visit_Attribute(self, n):
        self.generic_visit(n)
        if isinstance(n.ctx, ast.Load) and isinstance(n.value, ast.Name) and n.value.id == self.selfname and n.attr in self.names:
            return ast.copy_location(ast.Name(id='self_' + n.attr, ctx=ast.Load()), n)
        return n


class TExec(Exec):
    """core.Exec + typed values."""

    # ----------------------------------------------------------------------------------- truthiness
    def truthy_term(self, v):
        """Coq bool term (or Const) for bool(v) when it needs no case analysis; None otherwise."""
        if isinstance(v, Const): return Const(bool(v.v))
        if isinstance(v, Sym):
            if v.ty == 'bool': return v
            if v.ty == 'Z': return Sym('(negb (%s =? 0%%Z))' % v.coq, 'bool')
            if v.ty == 'num': return Sym('(num_truthy %s)' % v.coq, 'bool')
            if v.ty == 'str': return Sym('(negb (str_is_empty %s))' % v.coq, 'bool')
            if is_opt(v.ty):
                x = self.gensym('t')
                t = self.truthy_term(Sym(x, inner(v.ty)))
                if t is None: return None
                tt = 'true' if isinstance(t, Const) and t.v else ('false' if isinstance(t, Const) else t.coq)
                return Sym('(match %s with None => false | Some %s => %s end)' % (v.coq, x, tt), 'bool')
        return None

    # ----------------------------------------------------------------------------------- expressions
    def lift_opt(self, v, ty):
        """Emit v at type `option ty`."""
        if isinstance(v, Const) and v.v is None: return 'None'
        if isinstance(v, Sym) and v.ty == 'option ' + ty: return v.coq
        if isinstance(v, Sym) and v.ty == ty: return '(Some %s)' % v.coq
        if isinstance(v, Const) and ty == 'Z' and isinstance(v.v, int) and not isinstance(v.v, bool): return '(Some %s)' % vlib.cz(v.v)
        if isinstance(v, Const) and ty == 'bool' and isinstance(v.v, bool): return '(Some %s)' % ('true' if v.v else 'false')
        raise TranslateError('cannot use %r at type option %s' % (v, ty))

    def base_type(self, v):
        if isinstance(v, Sym): return inner(v.ty) if is_opt(v.ty) else v.ty
        if isinstance(v, Const) and isinstance(v.v, bool): return 'bool'
        if isinstance(v, Const) and isinstance(v.v, int): return 'Z'
        return None

    def or_value(self, a, b, isand=False):
        """Python's `a or b` (`a and b`) as a value."""
        if isinstance(a, Const):
            return (a if not a.v else b) if isand else (a if a.v else b)
        if isinstance(a, Sym) and a.ty == 'bool' and ((isinstance(b, Sym) and b.ty == 'bool') or (isinstance(b, Const) and isinstance(b.v, bool))):
            return Sym('(%s %s %s)' % ('andb' if isand else 'orb', a.coq, self.emit(b)), 'bool')
        ty = self.base_type(a) or self.base_type(b)
        if ty is None or (self.base_type(b) not in (None, ty)):
            raise TranslateError('operands of and/or have no common model type: %r, %r' % (a, b))
        if isinstance(a, Sym) and is_opt(a.ty):
            x = self.gensym('o')
            t = self.truthy_term(Sym(x, ty))
            if t is None: raise TranslateError('no truthiness for type %s' % ty)
            tt = ('true' if t.v else 'false') if isinstance(t, Const) else t.coq
            bt = self.lift_opt(b, ty)
            if isand:
                return Sym('(match %s with None => None | Some %s => if %s then %s else Some %s end)' % (a.coq, x, tt, bt, x), 'option ' + ty)
            return Sym('(match %s with None => %s | Some %s => if %s then Some %s else %s end)' % (a.coq, bt, x, tt, x, bt), 'option ' + ty)
        t = self.truthy_term(a)
        if t is None: raise TranslateError('no truthiness for %r' % (a,))
        # result type: plain ty if b is a plain ty value, option ty otherwise
        if (isinstance(b, Sym) and b.ty == ty) or (isinstance(b, Const) and b.v is not None):
            at, bt, rty = self.emit(a), self.emit(b), ty
        else:
            at, bt, rty = self.lift_opt(a, ty), self.lift_opt(b, ty), 'option ' + ty
        if isand: return Sym('(if %s then %s else %s)' % (t.coq, bt, at), rty)
        return Sym('(if %s then %s else %s)' % (t.coq, at, bt), rty)

    def eval(self, e, env):
        if isinstance(e, ast.BoolOp):
            vals = [self.eval(x, env) for x in e.values]
            if all(isinstance(v, Const) or (isinstance(v, Sym) and v.ty == 'bool') for v in vals) and \
               not any(isinstance(v, Const) and not isinstance(v.v, bool) for v in vals):
                return self.cond_value(e, env)
            out = vals[-1]
            for v in reversed(vals[:-1]):
                out = self.or_value(v, out, isinstance(e.op, ast.And))
            return out
        if isinstance(e, ast.BinOp) and isinstance(e.op, ast.Pow):
            a, b = self.eval(e.left, env), self.eval(e.right, env)
            if isinstance(a, Const) and isinstance(b, Const) and isinstance(a.v, int) and isinstance(b.v, int) and b.v >= 0:
                return Const(a.v ** b.v)
            return Sym('(%s ^ %s)' % (self.zterm(a), self.zterm(b)), 'Z')
        if isinstance(e, ast.BinOp) and isinstance(e.op, ast.Mod) and isinstance(e.left, ast.Constant) and isinstance(e.left.value, str):
            return Const('<message>')          # '...%s' % (...) : exception/warning text, not part of the model
        if isinstance(e, ast.IfExp):
            c = self.cond_value(e.test, env)
            if isinstance(c, Const): return self.eval(e.body if c.v else e.orelse, env)
            a, b = self.eval(e.body, env), self.eval(e.orelse, env)
            ta, tb = self.base_type(a), self.base_type(b)
            ty = ta or tb
            if ty is None or (ta and tb and ta != tb): raise TranslateError('branches of %s have different model types' % ast.unparse(e))
            plain = lambda v: (isinstance(v, Sym) and v.ty == ty) or (isinstance(v, Const) and v.v is not None)
            if plain(a) and plain(b):
                return Sym('(if %s then %s else %s)' % (c.coq, self.emit(a), self.emit(b)), ty)
            return Sym('(if %s then %s else %s)' % (c.coq, self.lift_opt(a, ty), self.lift_opt(b, ty)), 'option ' + ty)
        return Exec.eval(self, e, env)

    def cond_value(self, e, env):
        if isinstance(e, ast.Compare) and len(e.ops) == 1:
            op = e.ops[0]
            if isinstance(op, (ast.In, ast.NotIn)) and isinstance(e.comparators[0], ast.Tuple):
                a = self.eval(e.left, env)
                items = [self.eval(x, env) for x in e.comparators[0].elts]
                if not all(isinstance(i, Const) and isinstance(i.v, int) and not isinstance(i.v, bool) for i in items):
                    raise TranslateError('membership test on a non-constant tuple: %s' % ast.unparse(e))
                if isinstance(a, Const):
                    r = a.v in [i.v for i in items]
                    return Const(r if isinstance(op, ast.In) else not r)
                t = 'false'
                for i in reversed(items): t = '(orb (%s =? %s) %s)' % (self.zterm(a), vlib.cz(i.v), t)
                return Sym(t if isinstance(op, ast.In) else '(negb %s)' % t, 'bool')
            a, b = self.eval(e.left, env), self.eval(e.comparators[0], env)
            # comparisons of model numbers (float / Decimal values)
            if isinstance(a, Sym) and isinstance(b, Sym) and a.ty == 'num' and b.ty == 'num':
                tbl = {ast.Lt: '(num_ltb %s %s)', ast.Gt: '(num_ltb %s %s)', ast.LtE: '(num_leb %s %s)', ast.GtE: '(num_leb %s %s)'}
                for k, fmt in tbl.items():
                    if isinstance(op, k):
                        x, y = (a.coq, b.coq) if k in (ast.Lt, ast.LtE) else (b.coq, a.coq)
                        return Sym(fmt % (x, y), 'bool')
                raise TranslateError('comparison of numbers not in subset: %s' % ast.unparse(e))
            # val == ''  on an attribute value
            if isinstance(op, (ast.Eq, ast.NotEq)) and isinstance(b, Const) and b.v == '':
                if isinstance(a, Const): r = Const(a.v == '')
                elif isinstance(a, Sym) and a.ty == 'V': r = Sym('(is_empty %s)' % a.coq, 'bool')
                elif isinstance(a, Sym) and a.ty == 'option V':
                    r = Sym('(match %s with None => false | Some v_ => is_empty v_ end)' % a.coq, 'bool')
                elif isinstance(a, Sym) and a.ty == 'str': r = Sym('(str_is_empty %s)' % a.coq, 'bool')
                else: raise TranslateError("comparison with '' not in subset: %s" % ast.unparse(e))
                if isinstance(op, ast.Eq): return r
                return Const(not r.v) if isinstance(r, Const) else Sym('(negb %s)' % r.coq, 'bool')
            if isinstance(a, Sym) and is_opt(a.ty) and not isinstance(op, (ast.Is, ast.IsNot)):
                raise TranslateError('comparison of a possibly-None value: %s' % ast.unparse(e))
            return Exec.cond_value(self, e, env)
        if isinstance(e, (ast.BoolOp, ast.UnaryOp)):
            return Exec.cond_value(self, e, env)
        v = self.eval(e, env)
        t = self.truthy_term(v)
        if t is None: raise TranslateError('condition not in subset: %s' % ast.unparse(e))
        return t

    # ----------------------------------------------------------------------------------- branching
    def branch(self, test, env, kt, kf):
        # truthiness of a variable holding an optional value: case analysis that refines the variable
        if isinstance(test, ast.Name) and isinstance(env.get(test.id), Sym) and is_opt(env[test.id].ty):
            x = env[test.id]
            inn = self.gensym(test.id)
            e_none = dict(env); e_none[test.id] = Const(None)
            e_some = dict(env); e_some[test.id] = Sym(inn, inner(x.ty))
            t = self.truthy_term(e_some[test.id])
            if t is None: raise TranslateError('no truthiness for %s' % x.ty)
            if isinstance(t, Const): body = kt(e_some) if t.v else kf(e_some)
            else: body = '(if %s\n then %s\n else %s)' % (t.coq, kt(e_some), kf(e_some))
            return '(match %s with\n | None => %s\n | Some %s => %s\n end)' % (x.coq, kf(e_none), inn, body)
        return Exec.branch(self, test, env, kt, kf)

    # ----------------------------------------------------------------------------------- statements
    def run(self, stmts, env, k):
        if stmts and isinstance(stmts[0], ast.Try):
            s = stmts[0]
            if s.orelse or s.finalbody or not self.spec.try_is_total(self, s, env):
                raise TranslateError('try statement not in subset (line %s)' % s.lineno)
            return self.run(list(s.body) + list(stmts[1:]), env, k)
        return Exec.run(self, stmts, env, k)


class ConvSpec(Spec):
    """Shared reading of the converter methods.  `params`: name -> Sym for formal parameters and self_<attr> reads;
    `popped`: kwargs key -> (Sym, expected default)."""
    def __init__(self, selfname, params, popped=None, statics=None, ret=None, fall=None):
        self.selfname = selfname; self.params = params; self.popped = popped or {}
        self.statics = statics or {}; self.ret = ret; self.fall = fall
        self.used_pops = []

    def param(self, name):
        if name in self.params: return self.params[name]
        return Sym('<%s>' % name, 'opaque')

    def attribute(self, ex, e, base, attr, node):
        src = ast.unparse(node)
        if src in self.statics: return self.statics[src]
        if isinstance(base, ast.Name) and base.id == self.selfname and attr == 'attr': return Sym('<attr>', 'opaque')
        raise TranslateError('attribute read not in subset: %s' % src)

    def isinstance_static(self, v, clsname):
        """isinstance(v, <clsname>) decided from the model type of v (None if it cannot be decided)."""
        table = {'Z': {'int_types': True, 'int': True, 'str': False, 'float': False},
                 'bool': {'bool': True, 'int_types': True},
                 'num': {'float': False, 'str': False},      # a Decimal-typed model number (the float case is mapped before the call)
                 'str': {'str': True}}
        if isinstance(v, Sym) and v.ty in table and clsname in table[v.ty]: return table[v.ty][clsname]
        return None

    def call(self, ex, node, env):
        f = node.func
        src = ast.unparse(f)
        if src == 'kwargs.pop' and len(node.args) == 2 and isinstance(node.args[0], ast.Constant) and not node.keywords:
            key = node.args[0].value
            default = ex.eval(node.args[1], env)
            if key not in self.popped: raise TranslateError('unexpected option %r popped from kwargs' % key)
            sym, exp_default = self.popped[key]
            if not (isinstance(default, Const) and default.v is exp_default):
                raise TranslateError('default of option %r changed: %s' % (key, ast.unparse(node.args[1])))
            self.used_pops.append(key)
            return sym
        if src == 'isinstance' and len(node.args) == 2:
            v = ex.eval(node.args[0], env)
            r = self.isinstance_static(v, ast.unparse(node.args[1]))
            if r is None: raise TranslateError('isinstance not decidable from the model type: %s' % ast.unparse(node))
            return Const(r)
        if src == 'hasattr' and len(node.args) == 2:
            raise TranslateError('hasattr outside a statically dead branch: %s' % ast.unparse(node))
        if src == 'len' and len(node.args) == 1:
            v = ex.eval(node.args[0], env)
            if isinstance(v, Sym) and v.ty == 'str': return Sym('(zlen %s)' % v.coq, 'Z')
        if isinstance(f, ast.Attribute) and f.attr == 'strip' and not node.args and not node.keywords:
            v = ex.eval(f.value, env)
            if isinstance(v, Sym) and v.ty == 'str': return Sym('(py_strip %s)' % v.coq, 'str')
        if src in ('float', 'Decimal') and len(node.args) == 1:
            v = ex.eval(node.args[0], env)
            if isinstance(v, Sym) and v.ty == 'num': return v        # conversion of a model number is the identity
        if src == 'Attribute.validate':
            if 'inner' in self.params: return self.params['inner']
        raise TranslateError('call not in subset: %s' % ast.unparse(node))

    def try_is_total(self, ex, s, env):
        """try: val = float(val) / Decimal(val)  except ...: throw(...)   -- total on model numbers."""
        if len(s.body) == 1 and isinstance(s.body[0], ast.Assign) and isinstance(s.body[0].value, ast.Call) \
                and ast.unparse(s.body[0].value.func) in ('float', 'Decimal'):
            v = ex.eval(s.body[0].value.args[0], env)
            return isinstance(v, Sym) and v.ty == 'num'
        return False

    def stmt_call(self, ex, node, env):
        src = ast.unparse(node.func)
        if src == 'throw' and node.args and isinstance(node.args[0], ast.Name) and node.args[0].id in EXC:
            return ('stop', '(Err %d)' % EXC[node.args[0].id])
        if src == 'Converter.init': return None                   # base-class option handling, no bounds logic
        if src == 'warnings.warn': return None                    # from_db branch of Required.validate
        raise TranslateError('call statement not in subset: %s' % ast.unparse(node))

    def emit_return(self, ex, v): return self.ret(ex, v)
    def fallthrough(self, ex, env): return self.fall(ex, env)


def prepare(relpath, qualname, self_attrs):
    fdef, src, lineno = load_function(relpath, qualname)
    selfname = fdef.args.args[0].arg
    fdef = ast.fix_missing_locations(SelfAttrs(selfname, self_attrs).visit(fdef))
    return fdef, selfname, lineno


def run_body(ex, fdef, selfname, extra_env, body=None):
    env = {selfname: Sym('<self>', 'self')}
    for a in fdef.args.args[1:]:
        env[a.arg] = ex.spec.param(a.arg)
    env.update(extra_env)
    return ex.run(fdef.body if body is None else body, env, lambda e: ex.spec.fallthrough(ex, e))


P = 'pony/orm/dbapiprovider.py'


def gen_int_init():
    fdef, selfname, lineno = prepare(P, 'IntConverter.init', ())
    if [a.arg for a in fdef.args.args[1:]] != ['kwargs']: raise TranslateError('IntConverter.init: signature changed')
    popped = {'min': (Sym('min_val', 'option Z'), None), 'max': (Sym('max_val', 'option Z'), None),
              'size': (Sym('size', 'option Z'), None), 'unsigned': (Sym('unsigned', 'option bool'), False)}
    statics = {'attr.py_type.__name__': Const('int'), '%s.provider.uint64_support' % selfname: Sym('uint64', 'bool')}
    def fall(ex, env):
        need = ['min_val', 'max_val', 'size', 'unsigned']
        for n in need:
            if '%s.%s' % (selfname, n) not in env: raise TranslateError('IntConverter.init no longer assigns converter.%s' % n)
        g = lambda n: env['%s.%s' % (selfname, n)]
        return '(Ok (mk_int_conv %s %s %s %s))' % (ex.lift_opt(g('min_val'), 'Z'), ex.lift_opt(g('max_val'), 'Z'),
                                                    ex.lift_opt(g('size'), 'Z'), ex.lift_opt(g('unsigned'), 'bool'))
    spec = ConvSpec(selfname, {}, popped, statics, ret=None, fall=fall)
    ex = TExec(spec)
    body = run_body(ex, fdef, selfname, {'kwargs': Sym('<kwargs>', 'opaque')})
    if sorted(set(spec.used_pops)) != sorted(popped):
        raise TranslateError('IntConverter.init: options popped changed: %r' % sorted(set(spec.used_pops)))
    return ('(* %s:%d IntConverter.init *)\nDefinition int_init (uint64 : bool) (size : option Z) (unsigned : option bool) '
            '(min_val max_val : option Z) : result int_conv :=\n%s.\n' % (P, lineno, body))


def ret_ok(ex, v):
    if isinstance(v, Sym) and v.ty in ('Z', 'num', 'str'): return '(Ok %s)' % v.coq
    raise TranslateError('unexpected return value %r' % (v,))

def no_fall(ex, env):
    raise TranslateError('function may fall off its end')


def gen_validate(qualname, coqname, vty, bty, self_params, sig):
    fdef, selfname, lineno = prepare(P, qualname, tuple(self_params))
    names = [a.arg for a in fdef.args.args[1:]]
    if names != ['val', 'obj']: raise TranslateError('%s: signature changed: %r' % (qualname, names))
    params = {'val': Sym('val', vty), 'obj': Sym('<obj>', 'opaque')}
    for n, ty in self_params.items(): params['self_' + n] = Sym(n, ty)
    spec = ConvSpec(selfname, params, ret=ret_ok, fall=no_fall)
    ex = TExec(spec)
    body = run_body(ex, fdef, selfname, {k: v for k, v in params.items() if k.startswith('self_')})
    return '(* %s:%d %s *)\nDefinition %s %s (val : %s) : result %s :=\n%s.\n' % (P, lineno, qualname, coqname, sig, vty, vty, body)


def gen_attr_none():
    """The leading `if val is None: ...` statement of Attribute.validate."""
    rel = 'pony/orm/core.py'
    fdef, selfname, lineno = prepare(rel, 'Attribute.validate', ('nullable', 'is_required'))
    names = [a.arg for a in fdef.args.args[1:]]
    if names != ['val', 'obj', 'entity', 'from_db']: raise TranslateError('Attribute.validate: signature changed: %r' % names)
    body = [s for s in fdef.body if not (isinstance(s, ast.Expr) and isinstance(s.value, ast.Constant))]
    if not (len(body) >= 2 and ast.unparse(body[0]) == 'val = deref_proxy(val)' and isinstance(body[1], ast.If)
            and ast.unparse(body[1].test) == 'val is None' and not body[1].orelse):
        raise TranslateError('Attribute.validate no longer starts with `val = deref_proxy(val); if val is None:`')
    params = {'val': Sym('val', 'option V'), 'from_db': Sym('from_db', 'bool'),
              'self_nullable': Sym('nullable', 'option bool'), 'self_is_required': Sym('is_required', 'bool')}
    def ret(ex, v):
        if isinstance(v, Const) and v.v is None: return 'NoneReturn'
        raise TranslateError('Attribute.validate: the None branch returns something else than val')
    spec = ConvSpec(selfname, params, ret=ret, fall=lambda ex, env: 'NoneContinue')
    spec.stmt_call_orig = spec.stmt_call
    def stmt_call(ex, node, env):
        if ast.unparse(node.func) == 'throw' and node.args and isinstance(node.args[0], ast.Name) and node.args[0].id in EXC:
            return ('stop', '(NoneRaise %d)' % EXC[node.args[0].id])
        return spec.stmt_call_orig(ex, node, env)
    spec.stmt_call = stmt_call
    ex = TExec(spec)
    env = {selfname: Sym('<self>', 'self')}
    env.update(params)
    term = ex.run([body[1]], env, lambda e: spec.fallthrough(ex, e))
    return ('(* %s:%d Attribute.validate (its `if val is None:` statement) *)\nDefinition attr_none {V : Type} (nullable : option bool) '
            '(is_required from_db : bool) (val : option V) : none_outcome :=\n%s.\n' % (rel, lineno, term))


def gen_req_validate():
    rel = 'pony/orm/core.py'
    fdef, selfname, lineno = prepare(rel, 'Required.validate', ('auto', 'is_volatile', 'sql_default'))
    names = [a.arg for a in fdef.args.args[1:]]
    if names != ['val', 'obj', 'entity', 'from_db']: raise TranslateError('Required.validate: signature changed: %r' % names)
    params = {'val': Sym('<raw val>', 'opaque'), 'obj': Sym('<obj>', 'opaque'), 'entity': Sym('<entity>', 'opaque'),
              'from_db': Sym('from_db', 'bool'), 'inner': Sym('inner', 'option V'),
              'self_auto': Sym('auto', 'bool'), 'self_is_volatile': Sym('is_volatile', 'bool'), 'self_sql_default': Sym('sql_default', 'bool')}
    def ret(ex, v):
        return '(Ok %s)' % ex.lift_opt(v, 'V')
    spec = ConvSpec(selfname, params, ret=ret, fall=no_fall)
    ex = TExec(spec)
    env = {selfname: Sym('<self>', 'self')}
    env.update(params)
    # the call Attribute.validate(attr, val, obj, entity, from_db) must pass its arguments through unchanged
    first = fdef.body[0]
    if ast.unparse(first) != 'val = Attribute.validate(%s, val, obj, entity, from_db)' % selfname:
        raise TranslateError('Required.validate no longer starts with val = Attribute.validate(attr, val, obj, entity, from_db)')
    term = ex.run(fdef.body, env, lambda e: spec.fallthrough(ex, e))
    return ('(* %s:%d Required.validate; `inner` = the value returned by Attribute.validate *)\nDefinition req_validate {V : Type} (is_empty : V -> bool) '
            '(auto is_volatile sql_default from_db : bool) (inner : option V) : result (option V) :=\n%s.\n' % (rel, lineno, term))


SET_PREFIX = ["cache = obj._session_cache_",
              "if cache is None or not cache.is_alive:\n    throw_db_session_is_over('assign new value to', obj, attr)",
              "if obj._status_ in del_statuses:\n    throw_object_was_deleted(obj)",
              "reverse = attr.reverse"]
SET_VALIDATE = "new_val = attr.validate(new_val, obj, from_db=False)"


def gen_attr_set():
    """Attribute.__set__: what happens between entry and the call of attr.validate.  Only the known guards (session alive,
    object not deleted, `reverse = attr.reverse`) may precede the call; in particular nothing may return or look at the
    currently held value first.  The generated definition says: the outcome of an assignment is validate(new value),
    whatever value the object holds."""
    rel = 'pony/orm/core.py'
    fdef, src, lineno = load_function(rel, 'Attribute.__set__')
    names = [a.arg for a in fdef.args.args]
    if names != ['attr', 'obj', 'new_val', 'undo_funcs']: raise TranslateError('Attribute.__set__: signature changed: %r' % names)
    body = [st for st in fdef.body if not (isinstance(st, ast.Expr) and isinstance(st.value, ast.Constant))]
    texts = [ast.unparse(st) for st in body]
    if SET_VALIDATE not in texts: raise TranslateError('Attribute.__set__ no longer calls `%s`' % SET_VALIDATE)
    k = texts.index(SET_VALIDATE)
    for t in texts[:k]:
        if t not in SET_PREFIX:
            raise TranslateError('Attribute.__set__: a statement before the validate call is not understood (validation must come first, '
                                 'independently of the held value): %s' % t.replace('\n', ' '))
    return ('(* %s:%d Attribute.__set__: %d guard statements, then `%s`; nothing before it reads the held value or returns *)\n'
            'Definition attr_set_outcome {V : Type} (validate : V -> result V) (held new_val : V) : result V := validate new_val.\n'
            % (rel, lineno, k, SET_VALIDATE))


CALL_SITES = [
    # (qualname, coq name, the validate call, statements of the loop body allowed before it)
    ('Entity.__init__', 'create_outcome', 'avdict[attr] = attr.validate(val, obj, from_db=False)', ['val = kwargs.get(attr.name, DEFAULT)']),
    ('Entity._keyargs_to_avdicts_', 'set_outcome', 'new_val = attr.validate(new_val, obj, from_db=False)',
     ['attr = get_attr(name)', "if attr is None:\n    throw(TypeError, 'Unknown attribute %r' % name)"]),
    ('EntityMeta._find_one_', 'get_outcome', 'avdict[attr] = attr.validate(val, None, entity, from_db=False)',
     ['attr = get_attr(name)', "if attr is None:\n    throw(TypeError, 'Unknown attribute %r' % name)"]),
    ('Query._apply_kwargs', 'filter_outcome', 'val = attr.validate(val, None, entity, from_db=False)',
     ['attr = get_attr(attrname)', "if attr is None:\n    throw(AttributeError, 'Entity %s does not have attribute %s' % (entity.__name__, attrname))",
      "if attr.is_collection:\n    throw(TypeError, '%s attribute %s cannot be used as a keyword argument for filtering' % (attr.__class__.__name__, attr))"]),
]


def gen_call_sites():
    """Entity(...), obj.set(...), Entity.get/exists/[...] and select/filter keyword arguments: each walks over the given values in a
    for loop whose body validates the value with attr.validate before anything else uses it."""
    rel = 'pony/orm/core.py'
    out = []
    for q, coqname, call, allowed in CALL_SITES:
        fdef, src, lineno = load_function(rel, q)
        found = None
        for node in ast.walk(fdef):
            if isinstance(node, ast.For):
                texts = [ast.unparse(st) for st in node.body]
                if call in texts: found = texts
        if found is None: raise TranslateError('%s no longer validates its values with `%s` inside a for loop' % (q, call))
        for t in found[:found.index(call)]:
            if t not in allowed:
                raise TranslateError('%s: a statement before the validate call is not understood: %s' % (q, t.replace('\n', ' ')))
        out.append('(* %s:%d %s: every value goes through `%s` first *)\nDefinition %s {V : Type} (validate : V -> result V) (v : V) : result V := validate v.\n'
                   % (rel, lineno, q, call, coqname))
    return '\n'.join(out)


def gen_raw_pkval():
    """EntityMeta._get_by_raw_pkval_: a raw key value is validated with the caller's from_db, and when the key attribute is itself a
    relationship the nested call forwards from_db unchanged (otherwise values arriving through two relationship hops would be
    converted with sql2py instead of validated)."""
    rel = 'pony/orm/core.py'
    fdef, src, lineno = load_function(rel, 'EntityMeta._get_by_raw_pkval_')
    texts = [ast.unparse(n) for n in ast.walk(fdef) if isinstance(n, (ast.Assign, ast.If))]
    want = 'if not attr.reverse:\n    val = attr.validate(val, None, entity, from_db=from_db)\nelse:\n    val = attr.py_type._get_by_raw_pkval_((val,), from_db=from_db, seed=seed)'
    if want not in texts:
        raise TranslateError('EntityMeta._get_by_raw_pkval_: the single-column branch is no longer `validate(..., from_db=from_db)` / nested `_get_by_raw_pkval_(..., from_db=from_db, ...)`')
    return ('(* %s:%d EntityMeta._get_by_raw_pkval_: single-column key: validate with the caller\'s from_db, the nested call forwards from_db *)\n'
            'Fixpoint raw_key_outcome {V : Type} (validate : V -> result V) (hops : nat) (v : V) : result V :=\n'
            '  match hops with O => validate v | S h => raw_key_outcome validate h v end.\n' % (rel, lineno))


def gen_dec_init():
    """DecimalConverter.init up to `converter.scale = scale`, for a declaration that gives precision/scale by keyword (or not at all:
    then the caller passes the defaults read from the source)."""
    fdef, selfname, lineno = prepare(P, 'DecimalConverter.init', ())
    body = [st for st in fdef.body if not (isinstance(st, ast.Expr) and isinstance(st.value, ast.Constant))]
    texts = [ast.unparse(st) for st in body]
    if '%s.scale = scale' % selfname not in texts: raise TranslateError('DecimalConverter.init no longer assigns converter.scale')
    body = body[:texts.index('%s.scale = scale' % selfname) + 1]
    defaults = {}
    class Spec2(ConvSpec):
        def call(self2, ex, node, env):
            src = ast.unparse(node.func)
            if src == 'len' and len(node.args) == 1:
                v = ex.eval(node.args[0], env)
                if isinstance(v, Const) and isinstance(v.v, tuple): return Const(len(v.v))
            if src == 'kwargs.pop' and len(node.args) == 2 and isinstance(node.args[0], ast.Constant) and node.args[0].value in ('precision', 'scale'):
                d = ex.eval(node.args[1], env)
                if not (isinstance(d, Const) and isinstance(d.v, int)): raise TranslateError('default of %r is not an int constant' % node.args[0].value)
                defaults[node.args[0].value] = d.v
                return Sym(node.args[0].value, 'Z')
            return ConvSpec.call(self2, ex, node, env)
    def fall(ex, env):
        g = lambda n: env['%s.%s' % (selfname, n)]
        return '(Ok (%s, %s))' % (ex.zterm(g('precision')), ex.zterm(g('scale')))
    spec = Spec2(selfname, {}, None, {'attr.args': Const(())}, ret=None, fall=fall)
    ex = TExec(spec)
    term = run_body(ex, fdef, selfname, {'kwargs': Sym('<kwargs>', 'opaque')}, body=body)
    if sorted(defaults) != ['precision', 'scale']: raise TranslateError('DecimalConverter.init: precision/scale options changed')
    return ('(* %s:%d DecimalConverter.init (precision / scale part; keyword form) *)\nDefinition dec_default_precision : Z := %d.\nDefinition dec_default_scale : Z := %d.\n'
            'Definition dec_init (precision scale : Z) : result (Z * Z) :=\n%s.\n' % (P, lineno, defaults['precision'], defaults['scale'], term))


def generate():
    out = ['(* GENERATED by tools/py2coq/convvalidate.py from /repo on every run -- do not edit *)',
           'Require Import PonyV.Base.PyBase PonyV.Model.C08Base.', '']
    out.append(gen_int_init())
    out.append(gen_validate('IntConverter.validate', 'int_validate', 'Z', 'Z', {'min_val': 'option Z', 'max_val': 'option Z'},
                            '(min_val max_val : option Z)'))
    out.append(gen_validate('RealConverter.validate', 'real_validate', 'num', 'num', {'min_val': 'option num', 'max_val': 'option num'},
                            '(min_val max_val : option num)'))
    out.append(gen_validate('DecimalConverter.validate', 'dec_validate', 'num', 'num', {'min_val': 'option num', 'max_val': 'option num'},
                            '(min_val max_val : option num)'))
    out.append(gen_validate('StrConverter.validate', 'str_validate', 'str', 'str', {'autostrip': 'bool', 'max_len': 'option Z'},
                            '(autostrip : bool) (max_len : option Z)'))
    out.append(gen_attr_none())
    out.append(gen_req_validate())
    out.append(gen_attr_set())
    out.append(gen_call_sites())
    out.append(gen_dec_init())
    out.append(gen_raw_pkval())
    from py2coq import typedispatch
    out.append(typedispatch.generate())
    return '\n'.join(out)


if __name__ == '__main__':
    print(generate())
