"""Tie A for C36: Pool.connect (pony/orm/dbapiprovider.py) and OraPool.connect (pony/orm/dbproviders/oracle.py)
-> coq/Gen/C36Pool.v, plus the facts of Pool.release / drop / disconnect and SQLitePool.__init__ the hand model relies on.

Method: the attribute accesses pool.<x> are renamed to local variables pool_<x> (the fields of the pool record), debug logging
is treated as dead (core.local.debug = False), and the body is symbolically executed by py2coq.core.Exec; the function result
is the tuple of all pool fields after the call plus the returned values.  Anything outside the subset -> TranslateError.
"""
import ast
from py2coq.core import Exec, Spec, Sym, Const, Tuple, load_function, TranslateError


class Fields(ast.NodeTransformer):
    """pool.x -> pool_x (self is the first parameter)"""
    def __init__(self, selfname): self.selfname = selfname
    def visit_Attribute(self, n):
        self.generic_visit(n)
        if isinstance(n.value, ast.Name) and n.value.id == self.selfname:
            return ast.copy_location(ast.Name(id='pool_' + n.attr, ctx=n.ctx), n)
        return n


class PoolSpec(Spec):
    def __init__(self, fields, fresh):
        self.fields = fields        # ordered [(name, coq type)]
        self.fresh = fresh          # {callee text: (coq term, type)}
    def attribute(self, ex, e, base, attr, node):
        txt = ast.unparse(node)
        if txt.endswith('.debug'): return Const(False)            # debug logging is not part of the model
        if txt in ('pony.orm.core', 'pony.orm', 'core.local'): return Sym('<module>', 'module')
        raise TranslateError('attribute read not in subset: %s' % txt)
    def call(self, ex, node, env):
        txt = ast.unparse(node.func)
        if txt == 'os.getpid' and not node.args and not node.keywords: return Sym('pid', 'Z')
        if txt in self.fresh: return Sym(*self.fresh[txt])
        if txt == 'pool_cx_pool.acquire' and not node.args:
            return Sym('(acquire %s)' % ex.emit(env['pool_cx_pool']), 'conn')
        raise TranslateError('call not in subset: %s' % ast.unparse(node))
    def stmt_call(self, ex, node, env):
        txt = ast.unparse(node.func)
        if txt in ('pool_forked_connections.append', 'pool_forked_pools.append') and len(node.args) == 1:
            lst = txt.split('.')[0]
            v = ex.eval(node.args[0], env)
            if not (isinstance(v, Tuple) and len(v.items) == 2): raise TranslateError('append of a non-pair')
            a, b = v.items
            bt = ex.emit_opt(b) if dict(self.fields)[lst].endswith('option Z)') else ex.emit(b)
            env2 = dict(env)
            env2[lst] = Sym('(%s ++ [(%s, %s)])' % (ex.emit(env[lst]), ex.emit(a), bt), dict(self.fields)[lst])
            return ('env', env2)
        if txt == 'pool__connect' and not node.args:
            env2 = dict(env); env2['pool_con'] = Sym('(Some fresh)', 'option conn')
            return ('env', env2)
        if txt in ('core.log_orm', 'log_orm'): return None
        raise TranslateError('call statement not in subset: %s' % ast.unparse(node))


class PoolExec(Exec):
    def __init__(self, spec, ret, fail=None):
        Exec.__init__(self, spec); self.ret = ret; self.fail = fail
    def cond_value(self, e, env):
        # pool_pid != pid where pool_pid may be None (option Z)
        if isinstance(e, ast.Compare) and len(e.ops) == 1 and isinstance(e.ops[0], (ast.NotEq, ast.Eq)):
            a, b = self.eval(e.left, env), self.eval(e.comparators[0], env)
            if isinstance(a, Sym) and a.ty == 'option Z' and isinstance(b, Sym) and b.ty == 'Z':
                t = '(optz_eqb %s (Some %s))' % (a.coq, b.coq)
                return Sym(t if isinstance(e.ops[0], ast.Eq) else '(negb %s)' % t, 'bool')
        return Exec.cond_value(self, e, env)
    def run(self, stmts, env, k):
        if stmts and isinstance(stmts[0], ast.Return):
            return self.ret(self, stmts[0], env)
        # pool._connect() may raise (the DB-API connect fails): the oracle `connect_ok` decides; when it raises, the call ends
        # there with the pool fields as they are at that very point
        if stmts and isinstance(stmts[0], ast.Expr) and isinstance(stmts[0].value, ast.Call) \
                and ast.unparse(stmts[0].value.func) == 'pool__connect' and self.fail is not None:
            env2 = dict(env); env2['pool_con'] = Sym('(Some fresh)', 'option conn')
            return '(if connect_ok\n then %s\n else %s)' % (Exec.run(self, stmts[1:], env2, k), self.fail(self, env))
        # calls that may raise inside an assignment (OraPool: creating the SessionPool, acquiring a connection): one oracle each
        if stmts and isinstance(stmts[0], ast.Assign) and isinstance(stmts[0].value, ast.Call) and self.fail is not None \
                and ast.unparse(stmts[0].value.func) in getattr(self.spec, 'may_raise', {}):
            oracle = self.spec.may_raise[ast.unparse(stmts[0].value.func)]
            return '(if %s\n then %s\n else %s)' % (oracle, Exec.run(self, stmts, env, k), self.fail(self, env))
        return Exec.run(self, stmts, env, k)
    def field(self, env, name, ty):
        v = env[name]
        if ty.startswith('option'): return self.emit_opt(v)
        return self.emit(v)


def translate_pool_connect():
    fdef, src, line = load_function('pony/orm/dbapiprovider.py', 'Pool.connect')
    selfn = fdef.args.args[0].arg
    if len(fdef.args.args) != 1: raise TranslateError('Pool.connect: signature changed')
    fdef = ast.fix_missing_locations(Fields(selfn).visit(fdef))
    fields = [('pool_con', 'option conn'), ('pool_pid', 'option Z'), ('pool_forked_connections', 'list (conn * option Z)')]
    def ret(ex, s, env):
        v = ex.eval(s.value, env)
        if not (isinstance(v, Tuple) and len(v.items) == 2): raise TranslateError('Pool.connect: return value is not (con, is_new)')
        # the returned connection must be the pool's own field
        if ex.emit_opt(v.items[0]) != ex.field(env, 'pool_con', 'option conn'):
            raise TranslateError('Pool.connect: returns something else than pool.con')
        return '(%s, %s, %s, %s, true)' % (ex.field(env, 'pool_con', 'option conn'), ex.field(env, 'pool_pid', 'option Z'),
                                          ex.emit(env['pool_forked_connections']), ex.emit(v.items[1]))
    def fail(ex, env):
        return '(%s, %s, %s, false, false)' % (ex.field(env, 'pool_con', 'option conn'), ex.field(env, 'pool_pid', 'option Z'),
                                               ex.emit(env['pool_forked_connections']))
    ex = PoolExec(PoolSpec(fields, {}), ret, fail)
    env = {selfn: Sym('<self>', 'self'), 'pool_con': Sym('pool_con', 'option conn'), 'pool_pid': Sym('pool_pid', 'option Z'),
           'pool_forked_connections': Sym('pool_forked_connections', 'list (conn * option Z)')}
    body = ex.run(fdef.body, env, lambda e: ex.spec.fallthrough(ex, e))
    return ('(* pony/orm/dbapiprovider.py:%d Pool.connect; result = (pool.con, pool.pid, forked_connections, is_new_connection, returned normally?) after\n'
            '   the call; the connection handed to the caller is pool.con; `fresh` is what pool._connect() creates when `connect_ok`, otherwise\n'
            '   pool._connect() raises and the call ends with the fields as they are at that point *)\n'
            'Definition pool_connect (connect_ok : bool) (pid : Z) (pool_con : option conn) (pool_pid : option Z) (pool_forked_connections : list (conn * option Z)) (fresh : conn)\n'
            '  : option conn * option Z * list (conn * option Z) * bool * bool :=\n%s.\n' % (line, body))


def translate_ora_connect():
    fdef, src, line = load_function('pony/orm/dbproviders/oracle.py', 'OraPool.connect')
    selfn = fdef.args.args[0].arg
    if len(fdef.args.args) != 1: raise TranslateError('OraPool.connect: signature changed')
    fdef = ast.fix_missing_locations(Fields(selfn).visit(fdef))
    fields = [('pool_cx_pool', 'cxpool'), ('pool_pid', 'Z'), ('pool_forked_pools', 'list (cxpool * Z)')]
    def ret(ex, s, env):
        v = ex.eval(s.value, env)
        if not (isinstance(v, Tuple) and len(v.items) == 2): raise TranslateError('OraPool.connect: return value is not (con, is_new)')
        return '(Some %s, %s, %s, %s, %s)' % (ex.emit(v.items[0]), ex.emit(env['pool_cx_pool']), ex.emit(env['pool_pid']),
                                             ex.emit(env['pool_forked_pools']), ex.emit(v.items[1]))
    def fail(ex, env):
        return '(None, %s, %s, %s, false)' % (ex.emit(env['pool_cx_pool']), ex.emit(env['pool_pid']), ex.emit(env['pool_forked_pools']))
    spec = PoolSpec(fields, {'cx_Oracle.SessionPool': ('fresh_pool', 'cxpool')})
    spec.may_raise = {'cx_Oracle.SessionPool': 'pool_ok', 'pool_cx_pool.acquire': 'acquire_ok'}
    ex = PoolExec(spec, ret, fail)
    env = {selfn: Sym('<self>', 'self'), 'pool_cx_pool': Sym('pool_cx_pool', 'cxpool'), 'pool_pid': Sym('pool_pid', 'Z'),
           'pool_forked_pools': Sym('pool_forked_pools', 'list (cxpool * Z)'), 'pool_kwargs': Sym('<kwargs>', 'kwargs'),
           'core': Sym('<module>', 'module'), 'output_type_handler': Const(0)}
    body = ex.run(fdef.body, env, lambda e: ex.spec.fallthrough(ex, e))
    return ('(* pony/orm/dbproviders/oracle.py:%d OraPool.connect; result = (connection or None if it raised, pool.cx_pool, pool.pid, forked_pools, is_new);\n'
            '   pool_ok / acquire_ok: does cx_Oracle.SessionPool(...) / cx_pool.acquire() succeed (otherwise it raises and the call ends there) *)\n'
            'Definition ora_connect (pool_ok acquire_ok : bool) (pid : Z) (pool_cx_pool : cxpool) (pool_pid : Z) (pool_forked_pools : list (cxpool * Z)) (fresh_pool : cxpool)\n'
            '  : option conn * cxpool * Z * list (cxpool * Z) * bool :=\n%s.\n' % (line, body))


def _body(fdef):
    return [s for s in fdef.body if not (isinstance(s, ast.Expr) and isinstance(s.value, ast.Constant))]


def small_methods():
    """Pool.release / drop / disconnect, SQLitePool.drop / disconnect / __init__ : recognise the exact shapes the hand model mirrors."""
    facts = {}
    rel, _, l1 = load_function('pony/orm/dbapiprovider.py', 'Pool.release')
    t = [ast.unparse(s) for s in _body(rel)]
    if not (len(t) == 2 and t[0] == 'assert con is pool.con' and t[1].replace(' ', '').replace('\n', '') ==
            'try:con.rollback()except:pool.drop(con)raise'):
        raise TranslateError('Pool.release changed: %r' % t)
    drop, _, l2 = load_function('pony/orm/dbapiprovider.py', 'Pool.drop')
    t = [ast.unparse(s) for s in _body(drop)]
    if t != ['assert con is pool.con, (con, pool.con)', 'pool.con = None', 'con.close()']:
        raise TranslateError('Pool.drop changed: %r' % t)
    dis, _, l3 = load_function('pony/orm/dbapiprovider.py', 'Pool.disconnect')
    t = [ast.unparse(s).replace('\n', ' ') for s in _body(dis)]
    norm = [' '.join(x.split()) for x in t]
    if norm == ['con = pool.con', 'pool.con = None', 'if con is not None: con.close()']:
        facts['disconnect_checks_pid'] = False
    elif norm == ['con = pool.con', 'pool.con = None',
                  'if con is not None: if pool.pid != os.getpid(): pool.forked_connections.append((con, pool.pid)) else: con.close()']:
        facts['disconnect_checks_pid'] = True       # an inherited connection is parked, not closed
    else:
        raise TranslateError('Pool.disconnect changed: %r' % norm)
    init, _, l4 = load_function('pony/orm/dbapiprovider.py', 'Pool.__init__')
    t = [ast.unparse(s) for s in _body(init)]
    if 'pool.con = pool.pid = None' not in t: raise TranslateError('Pool.__init__ no longer sets con = pid = None: %r' % t)
    sinit, _, l5 = load_function('pony/orm/dbproviders/sqlite.py', 'SQLitePool.__init__')
    t = [ast.unparse(s) for s in _body(sinit)]
    if 'pool.con = None' not in t: raise TranslateError('SQLitePool.__init__ no longer sets pool.con = None')
    facts['sqlite_init_sets_pid'] = any(x.replace(' ', '').startswith('pool.pid=') or 'pool.pid=' in x.replace(' ', '') for x in t)
    sdrop, _, l6 = load_function('pony/orm/dbproviders/sqlite.py', 'SQLitePool.drop')
    t = ast.unparse(sdrop).replace(' ', '').replace('\n', '')
    if not t.endswith("ifpool.is_shared_memory_dborpool.filename==':memory:':con.rollback()else:Pool.drop(pool,con)"):
        raise TranslateError('SQLitePool.drop changed')
    oinit, _, l7 = load_function('pony/orm/dbproviders/oracle.py', 'OraPool.__init__')
    t = [ast.unparse(s) for s in _body(oinit)]
    if 'pool.pid = os.getpid()' not in t or 'pool.cx_pool = cx_Oracle.SessionPool(**kwargs)' not in t:
        raise TranslateError('OraPool.__init__ changed: %r' % t)
    return facts


def generate():
    facts = small_methods()
    out = ['(* GENERATED by tools/py2coq/c36pool.py from /repo on every run -- do not edit *)',
           'From Coq Require Import ZArith List Bool.', 'Import ListNotations.', 'Require Import PonyV.Model.C36Base.', 'Open Scope Z_scope.', '',
           translate_pool_connect(), translate_ora_connect(),
           '(* SQLitePool.__init__ leaves pool.pid unset (attribute missing) until the first connect *)',
           'Definition sqlite_init_sets_pid : bool := %s.' % ('true' if facts['sqlite_init_sets_pid'] else 'false'),
           '(* Pool.disconnect: does it compare pool.pid with os.getpid() before closing pool.con (parking an inherited connection instead)? *)',
           'Definition disconnect_checks_pid : bool := %s.' % ('true' if facts['disconnect_checks_pid'] else 'false'), '']
    return '\n'.join(out)


if __name__ == '__main__':
    print(generate())
