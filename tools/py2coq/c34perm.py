"""Tie A for C34: has_perm / can_* / AccessRule / the group-role-label caches of pony/orm/core.py are pinned to the shape the Coq
model (Model/C34Perm.v) mirrors, with the decision-relevant variation points read out as booleans -> coq/Gen/C34Src.v

   rev_loop_iterates_reverse_rules      inner loop of the attribute branch: `for reverse_rule in reverse_rules` (True) or `in access_rules` (False)
   obj_exclusion_tests_entity           object branch: `if entity in rule.entities_to_exclude` (True) or `if x in ...` with x an instance (False)
   missing_reverse_rules_returns_false  attribute branch: `if not reverse_rules: return False` (True) or `continue` (False)
   cache_key_is_target                  `perm_cache[x] = result` (True) or `perm_cache[perm] = result` (False: the cache is never hit)

Method: ast.unparse of the function is matched against a template; any other difference -> TranslateError (fail-closed).
"""
import ast, re
from py2coq.core import load_function, TranslateError

HAS_PERM = r'''@cut_traceback
def has_perm(user, perm, x):
    if isinstance(x, EntityMeta):
        entity = x
    elif isinstance(x, Entity):
        entity = x.__class__
    elif isinstance(x, Attribute):
        if x.hidden:
            return False
        entity = x.entity
    else:
        throw(TypeError, <MSG>)
    access_rules = entity._access_rules_.get(perm)
    if not access_rules:
        return False
    cache = entity._database_._get_cache()
    perm_cache = cache.perm_cache[user][perm]
    result = perm_cache.get(x)
    if result is not None:
        return result
    user_groups = get_user_groups(user)
    result = False
    if isinstance(x, EntityMeta):
        for rule in access_rules:
            if user_groups.issuperset(rule.groups) and entity not in rule.entities_to_exclude:
                result = True
                break
    elif isinstance(x, Attribute):
        attr = x
        for rule in access_rules:
            if user_groups.issuperset(rule.groups) and entity not in rule.entities_to_exclude and (attr not in rule.attrs_to_exclude):
                result = True
                break
            reverse = attr.reverse
            if reverse:
                reverse_rules = reverse.entity._access_rules_.get(perm)
                if not reverse_rules:
                    <V3>
                for reverse_rule in <V1>:
                    if user_groups.issuperset(reverse_rule.groups) and reverse.entity not in reverse_rule.entities_to_exclude and (reverse not in reverse_rule.attrs_to_exclude):
                        result = True
                        break
                if result:
                    break
    else:
        obj = x
        user_roles = get_user_roles(user, obj)
        obj_labels = get_object_labels(obj)
        for rule in access_rules:
            if <V2> in rule.entities_to_exclude:
                continue
            elif not user_groups.issuperset(rule.groups):
                pass
            elif not user_roles.issuperset(rule.roles):
                pass
            elif not obj_labels.issuperset(rule.labels):
                pass
            else:
                result = True
                break
    perm_cache[<V4>] = result
    return result'''

SIMPLE = {
    'can_view': "def can_view(user, x):\n    return has_perm(user, 'view', x) or has_perm(user, 'edit', x)",
    'can_edit': "def can_edit(user, x):\n    return has_perm(user, 'edit', x)",
    'can_create': "def can_create(user, x):\n    return has_perm(user, 'create', x)",
    'can_delete': "def can_delete(user, x):\n    return has_perm(user, 'delete', x)",
}

REQUIRED_LINES = {
    'AccessRule.__init__': ["rule.groups.add('anybody')", 'rule.entities_to_exclude = set()', 'rule.attrs_to_exclude = set()',
                            'entity._access_rules_[perm].add(rule)'],
    'AccessRule.exclude': ['rule.entities_to_exclude.add(entity)', 'rule.entities_to_exclude.update(entity._subclasses_)', 'rule.attrs_to_exclude.add(attr)'],
    'get_user_groups': ['result = local.user_groups_cache.get(user)', 'return anybody_frozenset', "result = {'anybody'}", 'local.user_groups_cache[user] = result'],
    'get_user_roles': ['return frozenset()', 'roles_cache = local.user_roles_cache[user]', 'result = roles_cache.get(obj)', "result.add('self')", 'roles_cache[obj] = result'],
    'get_object_labels': ['obj_labels_cache = cache.obj_labels_cache', 'result = obj_labels_cache.get(obj)', 'obj_labels_cache[obj] = result'],
}


def facts():
    fdef, src, line = load_function('pony/orm/core.py', 'has_perm')
    text = ast.unparse(fdef)
    pat = re.escape(HAS_PERM)
    pat = pat.replace(re.escape('<MSG>'), r'.*?')
    pat = pat.replace(re.escape('<V1>'), r'(?P<v1>access_rules|reverse_rules)')
    pat = pat.replace(re.escape('<V2>'), r'(?P<v2>x|obj|entity|x\.__class__|obj\.__class__|type\(x\)|type\(obj\))')
    pat = pat.replace(re.escape('<V3>'), r'(?P<v3>return False|continue)')
    pat = pat.replace(re.escape('<V4>'), r'(?P<v4>perm|x)')
    m = re.fullmatch(pat, text, re.S)
    if not m:
        # point at the first differing line to make the refusal readable
        want = HAS_PERM.split('\n'); got = text.split('\n')
        for i, (a, b) in enumerate(zip(want, got)):
            if '<' in a: continue
            if a != b: raise TranslateError('has_perm (core.py:%d) no longer has the modelled shape at its line %d: %r' % (line, i + 1, b.strip()[:120]))
        raise TranslateError('has_perm (core.py:%d) no longer has the modelled shape' % line)
    for name, want in SIMPLE.items():
        f, _, l = load_function('pony/orm/core.py', name)
        if ast.unparse(f) != want: raise TranslateError('%s changed: %s' % (name, ast.unparse(f)[:200]))
    for qual, lines in REQUIRED_LINES.items():
        f, _, l = load_function('pony/orm/core.py', qual)
        t = ast.unparse(f)
        for ln in lines:
            if ln not in t: raise TranslateError('%s no longer contains `%s`' % (qual, ln))
    return {'rev_loop_iterates_reverse_rules': m.group('v1') == 'reverse_rules',
            'obj_exclusion_tests_entity': m.group('v2') not in ('x', 'obj'),
            'missing_reverse_rules_returns_false': m.group('v3') == 'return False',
            'cache_key_is_target': m.group('v4') == 'x'}, line


def cache_lifetime():
    """Where do `local.user_groups_cache.clear()` / `local.user_roles_cache.clear()` sit in DBSessionContextManager._commit_or_rollback?
    -> (cleared when the session ends with a commit, cleared when it ends with a rollback).  The per-object label cache lives in the
    SessionCache (cache.obj_labels_cache) and dies with it."""
    fdef, src, line = load_function('pony/orm/core.py', 'DBSessionContextManager._commit_or_rollback')
    body = [s for s in fdef.body if not (isinstance(s, ast.Expr) and isinstance(s.value, ast.Constant))]
    if len(body) != 1 or not isinstance(body[0], ast.Try) or body[0].handlers:
        raise TranslateError('_commit_or_rollback: body is not try/finally')
    tr = body[0]
    WANT = ('local.user_groups_cache.clear()', 'local.user_roles_cache.clear()')
    def has(stmts, what):
        return any(ast.unparse(n) == what for s_ in stmts for n in ast.walk(s_) if isinstance(n, ast.Expr))
    acts = [s_ for s_ in tr.body if isinstance(s_, ast.If) and ast.unparse(s_.test) in ('can_commit', 'not can_commit')]
    if len(acts) != 1: raise TranslateError('_commit_or_rollback: cannot find `if can_commit`')
    act = acts[0]
    yes, no = (act.body, act.orelse) if ast.unparse(act.test) == 'can_commit' else (act.orelse, act.body)
    res = {}
    for what in WANT:
        in_finally = has(tr.finalbody, what)
        on_commit = in_finally or has(yes, what)
        on_rollback = in_finally or has(no, what)
        total = sum(1 for n in ast.walk(fdef) if isinstance(n, ast.Expr) and ast.unparse(n) == what)
        counted = (1 if in_finally else 0) + (1 if has(yes, what) else 0) + (1 if has(no, what) else 0)
        if total != counted: raise TranslateError('_commit_or_rollback: `%s` sits somewhere this reader does not understand' % what)
        res[what] = (on_commit, on_rollback)
    if res[WANT[0]] != res[WANT[1]]:
        raise TranslateError('_commit_or_rollback: the group cache and the role cache are cleared on different paths: %r' % (res,))
    return res[WANT[0]], line


def generate():
    f, line = facts()
    (on_commit, on_rollback), cl_line = cache_lifetime()
    b = lambda v: 'true' if v else 'false'
    return '\n'.join([
        '(* GENERATED by tools/py2coq/c34perm.py from /repo on every run -- do not edit *)',
        '(* pony/orm/core.py:%d has_perm matches the modelled shape; its variation points: *)' % line,
        'Definition rev_loop_iterates_reverse_rules : bool := %s.' % b(f['rev_loop_iterates_reverse_rules']),
        'Definition obj_exclusion_tests_entity : bool := %s.' % b(f['obj_exclusion_tests_entity']),
        'Definition missing_reverse_rules_returns_false : bool := %s.' % b(f['missing_reverse_rules_returns_false']),
        'Definition cache_key_is_target : bool := %s.' % b(f['cache_key_is_target']),
        '(* pony/orm/core.py:%d _commit_or_rollback: are local.user_groups_cache / user_roles_cache cleared when the outermost session ends ... *)' % cl_line,
        'Definition provider_caches_cleared_on_commit : bool := %s.' % b(on_commit),
        'Definition provider_caches_cleared_on_rollback : bool := %s.' % b(on_rollback),
        ''])


if __name__ == '__main__':
    print(generate())
