"""Tie A for C24: the pure arithmetic of query windows, re-translated from /repo on every run -> coq/Gen/C24Window.v

    sqltranslation.combine_limit_and_offset          -> combine_limit_and_offset, combine_pre (its two asserts)
    core.Query.__getitem__                           -> query_getitem   (slice -> _fetch(limit, offset) | TypeError)
    core.Query.page / limit / fetch                  -> query_page, query_limit, query_fetch
    sqltranslation.SQLTranslator.construct_sql_ast   -> select_distinct (only its DISTINCT decision: the leading `if distinct is None:` block)

Everything outside the subset raises TranslateError (fail closed).  Extensions of the core executor needed here:
`x or c` on an optional integer, `x == c` on an optional integer, truthiness of an integer, asserts of the form
`x is None or x >= 0` (collected into a precondition instead of being dropped).
"""
import ast
from py2coq.core import *


class WExec(Exec):
    def __init__(self, spec):
        Exec.__init__(self, spec)
        self.pre = []          # Coq bool terms collected from asserts

    # -- expressions ---------------------------------------------------------------------------------
    def eval(self, e, env):
        if isinstance(e, ast.BoolOp) and isinstance(e.op, ast.Or) and len(e.values) == 2:
            a = Exec.eval(self, e.values[0], env) if not isinstance(e.values[0], (ast.BoolOp, ast.Compare)) else None
            if a is not None:
                b = self.eval(e.values[1], env)
                # Python: `a or b` is a when a is truthy, else b
                if isinstance(a, Const) and (a.v is None or (isinstance(a.v, int) and not isinstance(a.v, bool))):
                    return a if a.v else b
                if isinstance(a, Sym) and a.ty == 'option Z':
                    v = self.gensym('v')
                    return Sym('(match %s with None => %s | Some %s => if %s =? 0 then %s else %s end)' % (
                        a.coq, self.zterm(b), v, v, self.zterm(b), v), 'Z')
                if isinstance(a, Sym) and a.ty == 'Z':
                    return Sym('(if %s =? 0 then %s else %s)' % (a.coq, self.zterm(b), a.coq), 'Z')
                raise TranslateError('`or` in value position not in subset: %s' % ast.unparse(e))
        return Exec.eval(self, e, env)

    def cond_value(self, e, env):
        if isinstance(e, ast.Name) and isinstance(env.get(e.id), Sym) and env[e.id].ty == 'Z':
            return Sym('(negb (%s =? 0))' % env[e.id].coq, 'bool')      # truthiness of an int
        return Exec.cond_value(self, e, env)

    # -- branching -----------------------------------------------------------------------------------
    def branch(self, test, env, kt, kf):
        if isinstance(test, ast.Compare) and len(test.ops) == 1 and isinstance(test.ops[0], ast.Eq) \
                and isinstance(test.left, ast.Name) and isinstance(env.get(test.left.id), Sym) and env[test.left.id].ty == 'option Z' \
                and isinstance(test.comparators[0], ast.Constant) and type(test.comparators[0].value) is int:
            x = env[test.left.id]
            inner = self.gensym(test.left.id)
            e_none = dict(env); e_none[test.left.id] = Const(None)
            e_some = dict(env); e_some[test.left.id] = Sym(inner, 'Z')
            return '(match %s with\n | None => %s\n | Some %s => (if %s =? %s\n then %s\n else %s)\n end)' % (
                x.coq, kf(e_none), inner, inner, vlib.cz(test.comparators[0].value), kt(e_some), kf(e_some))
        return Exec.branch(self, test, env, kt, kf)

    # -- statements ----------------------------------------------------------------------------------
    def run(self, stmts, env, k):
        if stmts and isinstance(stmts[0], ast.Assert):
            s = stmts[0]
            t = s.test
            # assert X is None or X >= 0      (X an optional integer parameter, not yet reassigned)
            ok = (isinstance(t, ast.BoolOp) and isinstance(t.op, ast.Or) and len(t.values) == 2
                  and isinstance(t.values[0], ast.Compare) and isinstance(t.values[0].ops[0], ast.Is)
                  and isinstance(t.values[0].left, ast.Name) and isinstance(t.values[0].comparators[0], ast.Constant)
                  and t.values[0].comparators[0].value is None
                  and isinstance(t.values[1], ast.Compare) and isinstance(t.values[1].ops[0], ast.GtE)
                  and isinstance(t.values[1].left, ast.Name) and t.values[1].left.id == t.values[0].left.id
                  and isinstance(t.values[1].comparators[0], ast.Constant) and t.values[1].comparators[0].value == 0)
            if not ok:
                raise TranslateError('assert not in subset: %s' % ast.unparse(s))
            x = env.get(t.values[0].left.id)
            if not (isinstance(x, Sym) and x.ty == 'option Z'):
                raise TranslateError('assert about a non-parameter: %s' % ast.unparse(s))
            self.pre.append('(match %s with None => true | Some v => v >=? 0 end)' % x.coq)
            return self.run(stmts[1:], env, k)
        return Exec.run(self, stmts, env, k)


def _minmax(ex, node, env):
    if isinstance(node.func, ast.Name) and node.func.id in ('max', 'min') and len(node.args) == 2 and not node.keywords:
        a, b = ex.eval(node.args[0], env), ex.eval(node.args[1], env)
        if isinstance(a, Const) and isinstance(b, Const): return Const((max if node.func.id == 'max' else min)(a.v, b.v))
        return Sym('(Z.%s %s %s)' % (node.func.id, ex.zterm(a), ex.zterm(b)), 'Z')
    return None


class CombineSpec(Spec):
    def param(self, name):
        if name in ('limit', 'offset', 'limit2', 'offset2'): return Sym(name, 'option Z')
        raise TranslateError('unexpected parameter %r' % name)
    def call(self, ex, node, env):
        r = _minmax(ex, node, env)
        if r is not None: return r
        raise TranslateError('call not in subset: %s' % ast.unparse(node))
    def emit_return(self, ex, v):
        if isinstance(v, Tuple) and len(v.items) == 2:
            return '(%s, %s)' % (ex.emit_opt(v.items[0]), ex.emit_opt(v.items[1]))
        raise TranslateError('unexpected return value')


class QuerySpec(Spec):
    """Query.__getitem__/page/limit/fetch: the receiver is opaque; `query._fetch(limit, offset, lazy)` is the observable."""
    def __init__(self, selfname, ptypes):
        self.selfname = selfname; self.ptypes = ptypes
    def param(self, name):
        if name in self.ptypes: return Sym(name, self.ptypes[name])
        raise TranslateError('unexpected parameter %r' % name)
    def attribute(self, ex, e, base, attr, node):
        if isinstance(base, ast.Name) and base.id == 'key' and self.ptypes.get('key') == 'key' and attr in ('start', 'stop', 'step'):
            return Sym('k' + attr, 'option Z')
        raise TranslateError('attribute read not in subset: %s' % ast.unparse(node))
    def call(self, ex, node, env):
        f = node.func
        if isinstance(f, ast.Name) and f.id == 'isinstance' and len(node.args) == 2 and isinstance(node.args[0], ast.Name) \
                and node.args[0].id == 'key' and isinstance(node.args[1], ast.Name) and node.args[1].id == 'slice':
            return Sym('is_slice', 'bool')
        if isinstance(f, ast.Attribute) and f.attr == '_fetch' and isinstance(f.value, ast.Name) and f.value.id == self.selfname:
            names = ['limit', 'offset', 'lazy']
            vals = {'limit': Const(None), 'offset': Const(None), 'lazy': Const(False)}     # defaults of Query._fetch (checked in generate)
            if len(node.args) > 3: raise TranslateError('_fetch called with too many arguments')
            for n, a in zip(names, node.args): vals[n] = ex.eval(a, env)
            for kw in node.keywords:
                if kw.arg not in names: raise TranslateError('_fetch keyword %r' % kw.arg)
                vals[kw.arg] = ex.eval(kw.value, env)
            if not (isinstance(vals['lazy'], Const) and isinstance(vals['lazy'].v, bool)): raise TranslateError('lazy flag is not a constant')
            return Sym('(Ok (%s, %s))' % (ex.emit_opt(vals['limit']), ex.emit_opt(vals['offset'])), 'fetch')
        raise TranslateError('call not in subset: %s' % ast.unparse(node))
    def stmt_call(self, ex, node, env):
        f = node.func
        if isinstance(f, ast.Name) and f.id == 'throw' and node.args and isinstance(node.args[0], ast.Name) and node.args[0].id == 'TypeError':
            return ('stop', '(Err 0%nat)')
        raise TranslateError('call statement not in subset: %s' % ast.unparse(node))
    def emit_return(self, ex, v):
        if isinstance(v, Sym) and v.ty == 'fetch': return v.coq
        raise TranslateError('unexpected return value')


class DistinctSpec(Spec):
    def attribute(self, ex, e, base, attr, node):
        if isinstance(base, ast.Name) and base.id == 'translator' and attr == 'order': return Sym('has_order', 'bool')   # truthiness of the order list
        if isinstance(base, ast.Name) and base.id == 'translator' and attr == 'distinct': return Sym('tdistinct', 'bool')
        raise TranslateError('attribute read not in subset: %s' % ast.unparse(node))


def check_fetch_signature():
    fdef, _, _ = load_function('pony/orm/core.py', 'Query._fetch')
    names = [a.arg for a in fdef.args.args]
    defaults = [ast.unparse(d) for d in fdef.args.defaults]
    if names != ['query', 'limit', 'offset', 'lazy'] or defaults != ['None', 'None', 'False']:
        raise TranslateError('Query._fetch signature changed: %r %r' % (names, defaults))
    body = [s for s in fdef.body if not (isinstance(s, ast.Expr) and isinstance(s.value, ast.Constant))]
    if len(body) != 1 or ast.unparse(body[0]) != 'return QueryResult(query, limit, offset, lazy=lazy)':
        raise TranslateError('Query._fetch body changed: %s' % ast.unparse(fdef)[:200])


def translate_combine():
    fdef, src, lineno = load_function('pony/orm/sqltranslation.py', 'combine_limit_and_offset')
    names = [a.arg for a in fdef.args.args]
    if names != ['limit', 'offset', 'limit2', 'offset2']: raise TranslateError('combine_limit_and_offset: signature changed: %r' % names)
    ex = WExec(CombineSpec())
    body = ex.function(fdef, skip_self=False)
    pre = ' && '.join(ex.pre) if ex.pre else 'true'
    return ('(* pony/orm/sqltranslation.py:%d combine_limit_and_offset *)\n'
            'Definition combine_limit_and_offset (limit offset limit2 offset2 : option Z) : option Z * option Z :=\n%s.\n\n'
            '(* its assert statements *)\nDefinition combine_pre (limit offset limit2 offset2 : option Z) : bool :=\n  %s.\n' % (lineno, body, pre))


def translate_method(qual, coqname, ptypes, sig):
    fdef, src, lineno = load_function('pony/orm/core.py', qual)
    selfname = fdef.args.args[0].arg
    names = [a.arg for a in fdef.args.args][1:]
    if names != list(ptypes): raise TranslateError('%s: signature changed: %r' % (qual, names))
    ex = WExec(QuerySpec(selfname, ptypes))
    body = ex.function(fdef)
    if ex.pre: raise TranslateError('%s: unexpected assert' % qual)
    return '(* pony/orm/core.py:%d %s *)\nDefinition %s %s : result (option Z * option Z) :=\n%s.\n' % (lineno, qual, coqname, sig, body)


def translate_distinct():
    fdef, src, lineno = load_function('pony/orm/sqltranslation.py', 'SQLTranslator.construct_sql_ast')
    names = [a.arg for a in fdef.args.args]
    if names[:4] != ['translator', 'limit', 'offset', 'distinct']: raise TranslateError('construct_sql_ast: signature changed: %r' % names)
    body = [s for s in fdef.body if not (isinstance(s, ast.Expr) and isinstance(s.value, ast.Constant))]
    if not (len(body) > 2 and ast.unparse(body[0]) == 'attr_offsets = None' and isinstance(body[1], ast.If)
            and ast.unparse(body[1].test) == 'distinct is None'):
        raise TranslateError('construct_sql_ast no longer starts with the DISTINCT decision')
    # `distinct` must not be reassigned anywhere else, and must be consumed by truthiness as 'DISTINCT' if distinct else 'ALL'
    stores = [n for n in ast.walk(fdef) if isinstance(n, ast.Name) and n.id == 'distinct' and isinstance(n.ctx, ast.Store)]
    inner = [n for n in ast.walk(body[1]) if isinstance(n, ast.Name) and n.id == 'distinct' and isinstance(n.ctx, ast.Store)]
    if len(stores) != len(inner): raise TranslateError('construct_sql_ast assigns `distinct` outside the leading block')
    uses = [ast.unparse(n) for n in ast.walk(fdef) if isinstance(n, ast.IfExp)]
    if "'DISTINCT' if distinct else 'ALL'" not in uses: raise TranslateError("construct_sql_ast: `'DISTINCT' if distinct else 'ALL'` not found")
    ex = WExec(DistinctSpec())
    env = {'translator': Sym('<self>', 'self'), 'distinct': Sym('distinct', 'option bool')}
    def k(env2):
        d = env2['distinct']
        if isinstance(d, Const) and d.v is None: return 'false'
        if isinstance(d, Const) and isinstance(d.v, bool): return 'true' if d.v else 'false'
        if isinstance(d, Sym) and d.ty == 'bool': return d.coq
        if isinstance(d, Sym) and d.ty == 'option bool': return '(match %s with Some b => b | None => false end)' % d.coq
        raise TranslateError('unexpected value of `distinct`')
    text = ex.run([body[1]], env, k)
    return ('(* pony/orm/sqltranslation.py:%d construct_sql_ast: is the SELECT emitted with DISTINCT?  (has_order = translator.order is non-empty) *)\n'
            'Definition select_distinct (distinct : option bool) (has_order tdistinct : bool) : bool :=\n%s.\n' % (body[1].lineno, text))


def translate_process_lambda():
    """Query._process_lambda: how the filter number that keys the captured values of a lambda step -- (filter_num, src, code_key) --
    advances from one step to the next.  Scanned, fail closed: the assignment `new_filter_num = query._filter_num + 1`, its use in
    every extract_vars call, and what the final `query._clone(...)` passes on."""
    fdef, src, lineno = load_function('pony/orm/core.py', 'Query._process_lambda')
    selfname = fdef.args.args[0].arg
    assigns = [n for n in ast.walk(fdef) if isinstance(n, ast.Assign) and len(n.targets) == 1 and isinstance(n.targets[0], ast.Name)
               and n.targets[0].id == 'new_filter_num']
    if len(assigns) != 1 or ast.unparse(assigns[0].value) != '%s._filter_num + 1' % selfname:
        raise TranslateError('_process_lambda: new_filter_num is no longer `%s._filter_num + 1`' % selfname)
    calls = [n for n in ast.walk(fdef) if isinstance(n, ast.Call) and isinstance(n.func, ast.Name) and n.func.id == 'extract_vars']
    if not calls or any(len(c.args) < 2 or ast.unparse(c.args[1]) != 'new_filter_num' for c in calls):
        raise TranslateError('_process_lambda: extract_vars is not called with new_filter_num')
    last = fdef.body[-1]
    if not (isinstance(last, ast.Return) and isinstance(last.value, ast.Call) and ast.unparse(last.value.func) == '%s._clone' % selfname and not last.value.args):
        raise TranslateError('_process_lambda does not end in `return %s._clone(...)`' % selfname)
    kws = {k.arg: ast.unparse(k.value) for k in last.value.keywords}
    if kws.get('_vars') != 'new_vars' or kws.get('_translator') != 'new_translator':
        raise TranslateError('_process_lambda: the clone no longer receives new_vars / new_translator')
    if '_filter_num' not in kws: passes = 'false'
    elif kws['_filter_num'] == 'new_filter_num': passes = 'true'
    else: raise TranslateError('_process_lambda: unexpected _filter_num=%s' % kws['_filter_num'])
    return ('(* pony/orm/core.py:%d Query._process_lambda: the filter number of the next lambda step, and whether the returned query carries it *)\n'
            'Definition next_filter_num (n : nat) : nat := (n + 1)%%nat.\n'
            'Definition clone_passes_filter_num : bool := %s.\n' % (lineno, passes))


def translate_count_default():
    """construct_sql_ast, aggregate branch: the DISTINCT flag of COUNT(<column>) when count() is called without `distinct=`.
    `True if aggr_func_distinct is None else aggr_func_distinct` -> always DISTINCT ('false': does not follow the query);
    `bool(distinct) if aggr_func_distinct is None else aggr_func_distinct` -> the DISTINCT the query itself runs with ('true')."""
    fdef, src, lineno = load_function('pony/orm/sqltranslation.py', 'SQLTranslator.construct_sql_ast')
    found = []
    for n in ast.walk(fdef):
        if isinstance(n, ast.Assign) and ast.unparse(n.targets[0]) == 'aggr_ast' and isinstance(n.value, ast.List) and len(n.value.elts) == 3 \
                and isinstance(n.value.elts[0], ast.Constant) and n.value.elts[0].value == 'COUNT':
            found.append(ast.unparse(n.value.elts[1]))
    if found == ['True if aggr_func_distinct is None else aggr_func_distinct']: v = 'false'
    elif found == ['bool(distinct) if aggr_func_distinct is None else aggr_func_distinct']: v = 'true'
    else: raise TranslateError('construct_sql_ast: COUNT(<column>) aggregate not recognised: %r' % found)
    return ('(* pony/orm/sqltranslation.py construct_sql_ast: does count() of a single-column query use the DISTINCT the query runs with? *)\n'
            'Definition count_default_follows_query : bool := %s.\n' % v)


def generate():
    check_fetch_signature()
    out = ['(* GENERATED by tools/py2coq/querywindow.py from /repo on every run -- do not edit *)',
           'Require Import PonyV.Base.PyBase.', '']
    out.append(translate_combine())
    out.append(translate_method('Query.__getitem__', 'query_getitem', {'key': 'key'}, '(is_slice : bool) (kstart kstop kstep : option Z)'))
    out.append(translate_method('Query.page', 'query_page', {'pagenum': 'Z', 'pagesize': 'Z'}, '(pagenum pagesize : Z)'))
    out.append(translate_method('Query.limit', 'query_limit', {'limit': 'option Z', 'offset': 'option Z'}, '(limit offset : option Z)'))
    out.append(translate_method('Query.fetch', 'query_fetch', {'limit': 'option Z', 'offset': 'option Z'}, '(limit offset : option Z)'))
    out.append(translate_distinct())
    out.append(translate_process_lambda())
    out.append(translate_count_default())
    return '\n'.join(out)


if __name__ == '__main__':
    print(generate())
