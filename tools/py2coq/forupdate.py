"""Tie A for C35: SQLBuilder.SELECT_FOR_UPDATE and SQLiteBuilder.SELECT_FOR_UPDATE -> coq/Gen/C35ForUpdate.v

A deliberately tiny, fail-closed translator (it does not use py2coq.core: these functions return tuples of text pieces,
not SQL AST nodes).  Accepted subset of the function body:
    assert ...                                            (ignored)
    result = builder.SELECT(*sections)
    <param> = '<literal>' if <param> else ''              (a flag parameter turned into its text)
    return builder.SELECT(*sections)                      |   return result | piece, piece, ...
where a piece is `result`, `builder.SELECT(*sections)`, a string literal, or a name bound as above.
Anything else raises TranslateError (reported by the check as "model can no longer be generated").
The generated definitions give, for the two flags, the list of text pieces that FOLLOW the rendered SELECT."""
import ast, os
import vlib
from vlib import TranslateError


def _find_method(path, cls, name):
    src = open(path).read()
    tree = ast.parse(src)
    for node in tree.body:
        if isinstance(node, ast.ClassDef) and node.name == cls:
            for f in node.body:
                if isinstance(f, ast.FunctionDef) and f.name == name:
                    return f
            return None
    raise TranslateError('class %s not found in %s' % (cls, path))


def _is_select_call(node, selfname):
    return (isinstance(node, ast.Call) and isinstance(node.func, ast.Attribute) and node.func.attr == 'SELECT'
            and isinstance(node.func.value, ast.Name) and node.func.value.id == selfname
            and len(node.args) == 1 and isinstance(node.args[0], ast.Starred) and isinstance(node.args[0].value, ast.Name)
            and node.args[0].value.id == 'sections' and not node.keywords)


def cstr(s):
    return '[' + '; '.join(str(ord(c)) for c in s) + ']'


def translate(fn, coqname):
    args = [a.arg for a in fn.args.args]
    if len(args) != 3 or args[1:] != ['nowait', 'skip_locked'] or fn.args.vararg is None or fn.args.vararg.arg != 'sections':
        raise TranslateError('%s: unexpected signature %s' % (fn.name, ast.unparse(fn.args)))
    selfname = args[0]
    env = {'nowait': ('flag', 'nowait'), 'skip_locked': ('flag', 'skip_locked')}
    pieces = None
    for st in fn.body:
        if isinstance(st, ast.Assert): continue
        if isinstance(st, ast.Expr) and isinstance(st.value, ast.Constant) and isinstance(st.value.value, str): continue
        if isinstance(st, ast.Assign) and len(st.targets) == 1 and isinstance(st.targets[0], ast.Name):
            tgt, v = st.targets[0].id, st.value
            if _is_select_call(v, selfname):
                env[tgt] = ('select',); continue
            if isinstance(v, ast.IfExp) and isinstance(v.test, ast.Name) and env.get(v.test.id, (None,))[0] == 'flag' \
                    and isinstance(v.body, ast.Constant) and isinstance(v.body.value, str) \
                    and isinstance(v.orelse, ast.Constant) and isinstance(v.orelse.value, str):
                env[tgt] = ('text', env[v.test.id][1], v.body.value, v.orelse.value); continue
            raise TranslateError('%s: assignment not in subset: %s' % (fn.name, ast.unparse(st)))
        if isinstance(st, ast.Return) and pieces is None:
            elts = st.value.elts if isinstance(st.value, ast.Tuple) else [st.value]
            out = []
            for e in elts:
                if _is_select_call(e, selfname): out.append(('select',))
                elif isinstance(e, ast.Constant) and isinstance(e.value, str): out.append(('lit', e.value))
                elif isinstance(e, ast.Name) and e.id in env and env[e.id][0] in ('select', 'text'): out.append(env[e.id])
                else: raise TranslateError('%s: returned piece not in subset: %s' % (fn.name, ast.unparse(e)))
            pieces = out
            continue
        raise TranslateError('%s: statement not in subset: %s' % (fn.name, ast.unparse(st)))
    if not pieces or pieces[0] != ('select',) or ('select',) in pieces[1:]:
        raise TranslateError('%s: the result does not start with exactly one rendered SELECT' % fn.name)
    items = []
    for p in pieces[1:]:
        if p[0] == 'lit': items.append(cstr(p[1]))
        else: items.append('(if %s then %s else %s)' % (p[1], cstr(p[2]), cstr(p[3])))
    return 'Definition %s (nowait skip_locked : bool) : list (list Z) :=\n  [%s].\n' % (coqname, ';\n   '.join(items))


def generate():
    repo = vlib.REPO
    generic = _find_method(os.path.join(repo, 'pony/orm/sqlbuilding.py'), 'SQLBuilder', 'SELECT_FOR_UPDATE')
    sqlite = _find_method(os.path.join(repo, 'pony/orm/dbproviders/sqlite.py'), 'SQLiteBuilder', 'SELECT_FOR_UPDATE')
    if generic is None or sqlite is None:
        raise TranslateError('SELECT_FOR_UPDATE not found in SQLBuilder / SQLiteBuilder')
    # PostgreSQL and MySQL must inherit the generic method
    for path, cls in (('pony/orm/dbproviders/postgres.py', 'PGSQLBuilder'), ('pony/orm/dbproviders/mysql.py', 'MySQLBuilder')):
        if _find_method(os.path.join(repo, path), cls, 'SELECT_FOR_UPDATE') is not None:
            raise TranslateError('%s now overrides SELECT_FOR_UPDATE: not modelled' % cls)
    text = ('(* GENERATED by tools/py2coq/forupdate.py from /repo (pony/orm/sqlbuilding.py, pony/orm/dbproviders/sqlite.py) on every run; do not edit.\n'
            '   The text pieces that follow the rendered SELECT in SELECT_FOR_UPDATE (strings are lists of code points). *)\n'
            'From Coq Require Import ZArith List Bool.\nImport ListNotations.\nOpen Scope Z_scope.\n\n')
    text += '(* SQLBuilder.SELECT_FOR_UPDATE: PostgreSQL, MySQL (inherited) *)\n' + translate(generic, 'generic_for_update') + '\n'
    text += '(* SQLiteBuilder.SELECT_FOR_UPDATE *)\n' + translate(sqlite, 'sqlite_for_update')
    return text
