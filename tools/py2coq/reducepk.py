"""Tie A for C31: serialization.Bag._reduce_composite_pk -> coq/Gen/C31Reduce.v

The function is one expression:   SEP.join(str(item).replace(c1, s1).replace(c2, s2)... for item in pk)
It is accepted only in that shape, with one-character search strings (for which str.replace is a per-character substitution);
`str(item)` is the identity of the model: key parts are modelled by their str() images (lists of code points).
"""
import ast
from py2coq.core import load_function, TranslateError


def cstr(s):
    return '[' + '; '.join(str(ord(c)) for c in s) + ']' if s else '(@nil Z)'


def _flush_scan(relpath, qual, selfname_expected=None):
    """Does <qual> start by flushing the whole session cache?  Accepts exactly
        cache = <x>._session_cache_ | <x>.session_cache ;  if cache is not None and cache.is_alive and cache.modified: cache.flush()
    -> 'true'; the same guard around `<self>.flush()` (the object alone) -> 'false'; no such statement -> 'false'; anything else is refused."""
    fdef, src, lineno = load_function(relpath, qual)
    selfname = fdef.args.args[0].arg
    found = None
    for st in fdef.body:
        if isinstance(st, ast.If) and 'flush' in ast.unparse(st):
            if found is not None: raise TranslateError('%s: more than one flush statement' % qual)
            if ast.unparse(st.test) not in ('cache is not None and cache.is_alive and cache.modified', 'cache.is_alive and cache.modified') or st.orelse or len(st.body) != 1 \
                    or not (isinstance(st.body[0], ast.Expr) and isinstance(st.body[0].value, ast.Call)):
                raise TranslateError('%s: flush statement not in the expected shape: %s' % (qual, ast.unparse(st)[:120]))
            call = ast.unparse(st.body[0].value)
            if call == 'cache.flush()': found = 'true'
            elif call == '%s.flush()' % selfname: found = 'false'
            else: raise TranslateError('%s: unexpected flush call %s' % (qual, call))
    for n in ast.walk(fdef):
        if isinstance(n, ast.Attribute) and n.attr == 'flush' and found is None:
            raise TranslateError('%s: a flush call outside the expected statement' % qual)
    return found or 'false', lineno


def _bag_guard_scan():
    """Bag._process_object: what guards the (partial) processing of a related object?  Old: `if related_obj not in bag.dicts:` (an
    object tested against an entity-keyed dict: never skips) and an unguarded to-one branch -> 'false'.  Repaired: both branches skip
    objects that were given to the bag (`... not in bag.objects.get(<obj>.__class__, ())`) -> 'true'.  Anything else is refused."""
    fdef, src, lineno = load_function('pony/orm/serialization.py', 'Bag._process_object')
    calls = [n for n in ast.walk(fdef) if isinstance(n, ast.Call) and ast.unparse(n.func) == 'bag._process_object']
    if len(calls) != 2: raise TranslateError('_process_object: expected two recursive calls, found %d' % len(calls))
    tests = [ast.unparse(n.test) for n in ast.walk(fdef) if isinstance(n, ast.If) and any(c in ast.walk(n) for c in calls) and
             not any(isinstance(m, ast.If) and m is not n and any(c in ast.walk(m) for c in calls) and m in ast.walk(n) and
                     set(c2 for c2 in calls if c2 in ast.walk(m)) == set(c2 for c2 in calls if c2 in ast.walk(n)) for m in ast.walk(n))]
    old = {'related_obj not in bag.dicts', 'process_related_objects'}
    new = {'related_obj not in bag.objects.get(related_obj.__class__, ())', 'process_related_objects and value not in bag.objects.get(value.__class__, ())'}
    got = set(tests)
    if new <= got and not (got & {'related_obj not in bag.dicts'}): return 'true', lineno
    if old <= got: return 'false', lineno
    raise TranslateError('_process_object: guards of the related-object calls not recognised: %r' % sorted(got))


def generate():
    fdef, src, lineno = load_function('pony/orm/serialization.py', 'Bag._reduce_composite_pk')
    names = [a.arg for a in fdef.args.args]
    if len(names) != 2: raise TranslateError('_reduce_composite_pk: signature changed: %r' % names)
    pkname = names[1]
    body = [s for s in fdef.body if not (isinstance(s, ast.Expr) and isinstance(s.value, ast.Constant))]
    if len(body) != 1 or not isinstance(body[0], ast.Return): raise TranslateError('_reduce_composite_pk is no longer a single return')
    e = body[0].value
    if not (isinstance(e, ast.Call) and isinstance(e.func, ast.Attribute) and e.func.attr == 'join' and isinstance(e.func.value, ast.Constant)
            and isinstance(e.func.value.value, str) and len(e.args) == 1 and not e.keywords and isinstance(e.args[0], ast.GeneratorExp)):
        raise TranslateError('not of the form SEP.join(<generator>): %s' % ast.unparse(e))
    sep = e.func.value.value
    g = e.args[0]
    if len(g.generators) != 1: raise TranslateError('more than one for clause')
    c = g.generators[0]
    if c.ifs or c.is_async or not isinstance(c.target, ast.Name) or not (isinstance(c.iter, ast.Name) and c.iter.id == pkname):
        raise TranslateError('generator is not `for item in %s`' % pkname)
    item = c.target.id
    # peel .replace(a, b) calls from the outside in
    reps = []
    x = g.elt
    while isinstance(x, ast.Call) and isinstance(x.func, ast.Attribute) and x.func.attr == 'replace':
        if len(x.args) != 2 or x.keywords or not all(isinstance(a, ast.Constant) and isinstance(a.value, str) for a in x.args):
            raise TranslateError('replace with non-constant arguments')
        old, new = x.args[0].value, x.args[1].value
        if len(old) != 1: raise TranslateError('replace of a %d-character pattern is outside the subset' % len(old))
        reps.append((old, new))
        x = x.func.value
    if not (isinstance(x, ast.Call) and isinstance(x.func, ast.Name) and x.func.id == 'str' and len(x.args) == 1 and not x.keywords
            and isinstance(x.args[0], ast.Name) and x.args[0].id == item):
        raise TranslateError('innermost expression is not str(%s): %s' % (item, ast.unparse(x)))
    term = 'item'
    for old, new in reversed(reps):            # innermost replace is applied first
        term = '(replace1 %d %s %s)' % (ord(old), cstr(new), term)
    out = ['(* GENERATED by tools/py2coq/reducepk.py from /repo on every run -- do not edit *)',
           'Require Import PonyV.Base.PyBase PonyV.Model.C31Codec.', '',
           '(* pony/orm/serialization.py:%d Bag._reduce_composite_pk: %s *)' % (lineno, ast.unparse(e)),
           'Definition encode_part (item : list Z) : list Z := %s.' % term,
           'Definition reduce_sep : list Z := %s.' % cstr(sep),
           'Definition reduce_composite_pk (pk : list (list Z)) : list Z := join reduce_sep (map encode_part pk).', '']
    e_flush, l1 = _flush_scan('pony/orm/core.py', 'Entity.to_dict')
    b_flush, l2 = _flush_scan('pony/orm/serialization.py', 'Bag.to_dict')
    d_flush, l3 = _flush_scan('pony/orm/core.py', 'Database.to_json')
    g_skip, l4 = _bag_guard_scan()
    out += ['(* pony/orm/serialization.py:%d Bag._process_object: are related objects that were themselves given to the bag left alone? *)' % l4,
            'Definition bag_skips_given_related : bool := %s.' % g_skip, '']
    out += ['(* pony/orm/core.py:%d Entity.to_dict / pony/orm/serialization.py:%d Bag.to_dict: is the whole session flushed before the attributes are read? *)' % (l1, l2),
            'Definition to_dict_flushes_session : bool := %s.' % e_flush,
            'Definition bag_to_dict_flushes_session : bool := %s.' % b_flush,
            '(* pony/orm/core.py:%d Database.to_json *)' % l3,
            'Definition db_to_json_flushes_session : bool := %s.' % d_flush, '']
    return '\n'.join(out)


if __name__ == '__main__':
    print(generate())
