"""Tie A for C32: scan /repo's pony/orm/core.py (+ ormtypes.tracked_method) with `ast` and extract, for every public
mutator / loader / reader of a detached object, the *prefix paths* it can take when its session is dead:

    path  = (pre-steps, terminal)
    pre   = VGuard        `if obj._vals_ is None: throw_db_session_is_over(..)`   (fires only after a strict session)
          | DelCheck      `if obj._status_ in del_statuses: throw_object_was_deleted(obj)`
          | Write         an assignment / in-place call that changes session state reachable from the object
          | Placeholder   `setdata = obj._vals_[attr] = SetData()`  (an empty, not-loaded SetData: carries no information)
    term  = TGuard        the liveness guard `if cache is None or not cache.is_alive: throw_db_session_is_over(..)`
          | TDb           a call that reaches the database / the current session's cache (no liveness guard before it)
          | TAssert       `assert cache is not None and cache.is_alive ...`  (AssertionError, not the session-is-over error)
          | TReturn       the method returns (or falls off its end) without any of the above
          | TRaiseDeleted unconditional throw_object_was_deleted;   TRaiseOther  another raise/throw

A path is cut at its first terminal: what a method does after a passed liveness guard is irrelevant for a dead session.
Calls to other scanned methods are inlined (their TReturn continues in the caller).  The scanner is fail-closed: any call
in an unguarded prefix must be classified (database / scanned method / state mutation / known pure helper), any test
mentioning is_alive / _session_cache_ must have a recognised shape; otherwise TranslateError.

Output: coq/Gen/Guards.v  (Inductive op, guard_table : list (op * list path)).
"""
import ast, os
import vlib
from vlib import TranslateError

CORE = 'pony/orm/core.py'
ORMTYPES = 'pony/orm/ormtypes.py'

# (file, class or enclosing function, method)   -- the operations the table is about
ENTRIES = [
    (CORE, 'Attribute', '__get__'), (CORE, 'Attribute', 'get'), (CORE, 'Attribute', 'load'), (CORE, 'Attribute', '__set__'),
    (CORE, 'Set', '__get__'), (CORE, 'Set', '__set__'), (CORE, 'Set', 'load'), (CORE, 'Set', 'copy'),
    (CORE, 'SetInstance', 'copy'), (CORE, 'SetInstance', '__nonzero__'), (CORE, 'SetInstance', 'is_empty'),
    (CORE, 'SetInstance', '__len__'), (CORE, 'SetInstance', 'count'), (CORE, 'SetInstance', '__iter__'),
    (CORE, 'SetInstance', '__eq__'), (CORE, 'SetInstance', '__ne__'), (CORE, 'SetInstance', '__add__'), (CORE, 'SetInstance', '__sub__'),
    (CORE, 'SetInstance', '__contains__'), (CORE, 'SetInstance', 'create'), (CORE, 'SetInstance', 'add'),
    (CORE, 'SetInstance', '__iadd__'), (CORE, 'SetInstance', 'remove'), (CORE, 'SetInstance', '__isub__'),
    (CORE, 'SetInstance', 'clear'), (CORE, 'SetInstance', 'load'), (CORE, 'SetInstance', '__str__'),
    (CORE, 'SetIterator', 'next'),
    (CORE, 'Entity', 'load'), (CORE, 'Entity', '_load_'), (CORE, 'Entity', '_attr_changed_'), (CORE, 'Entity', 'delete'),
    (CORE, 'Entity', 'set'), (CORE, 'Entity', 'flush'), (CORE, 'Entity', 'to_dict'),
    (ORMTYPES, 'TrackedValue', '_changed_'), (ORMTYPES, 'tracked_method', 'new_func'),
]
# public methods of SetInstance / Entity that are deliberately not in the table (they build a new query in the *current*
# session or do not touch session state); a public method that is in neither list makes the scanner refuse.
NOT_SESSION_RELATED = {
    'SetInstance': {'__init__', '__reduce__', '__repr__', 'select', 'filter', 'limit', 'page', 'order_by', 'sort_by', 'random',
                    '__bool__'},
    'Entity': {'__reduce__', '__init__', '__hash__', '__eq__', '__ne__', '__lt__', '__le__', '__gt__', '__ge__', '__repr__',
               'get_pk', 'before_insert', 'before_update', 'before_delete', 'after_insert', 'after_update', 'after_delete',
               'to_json', 'find_updated_attributes', '__init_subclass__', '__setattr__', '__getattr__', '_cmp_'},
}

RECEIVER = {   # receiver variable name -> classes its methods resolve to
    'attr': ('Attribute', 'Set'), 'reverse': ('Attribute', 'Set'),
    'wrapper': ('SetInstance',), 'set_wrapper': ('SetInstance',), 'other': ('SetInstance',),
    'obj': ('Entity',), 'item': ('Entity',), 'val': ('Entity',), 'robj': ('Entity',),
    'self': ('TrackedValue',),
}
DB_CALLS = {'_exec_sql', '_get_cache', '_find_in_db_', '_fetch_objects', '_get_by_raw_pkval_', '_select_all', '_prefetch_load_all_', '_load_many_',
            'prefetch_load_all'}
PURE = {'isinstance', 'len', 'bool', 'set', 'sorted', 'tuple', 'list', 'iter', 'next', 'enumerate', 'zip', 'range', 'map', 'str',
        'repr', 'safe_repr', 'type', 'hasattr', 'getattr', 'join', 'union', 'difference', 'items', 'keys', 'values',
        '_get_set_wrapper_subclass_', 'wrapper_class', '_get_attrs_', '_get_raw_pkval_', 'obj_ref', 'make', 'SetData',
        '_construct_select_clause_', '_ast2sql', 'adapter', 'append', 'is_ident', 'attrgetter', 'SetIterator', 'wraps'}
STATE_FIELDS = {'_vals_', '_dbvals_', '_status_', '_wbits_', '_save_pos_', '_pkval_', '_session_cache_', '_newid_'}
MUTATORS = {'add', 'remove', 'clear', 'update', 'pop', 'append', 'discard', 'setdefault', 'insert', 'extend', 'popitem'}


def _src(n):
    try: return ast.unparse(n)
    except Exception: return '<node>'


class Scanner(object):
    def __init__(self):
        self.trees = {}
        self.funcs = {}          # (cls, name) -> FunctionDef
        self.memo = {}
        self.active = []
        for f in (CORE, ORMTYPES):
            path = os.path.join(vlib.REPO, f)
            try: self.trees[f] = ast.parse(open(path).read())
            except (IOError, SyntaxError) as e: raise TranslateError('cannot read/parse %s: %s' % (f, e))
        for f, cls, name in ENTRIES:
            self.funcs[(cls, name)] = self.find(f, cls, name)
        self.check_public_methods()

    def find(self, f, cls, name):
        outer = None
        for n in self.trees[f].body:
            if isinstance(n, (ast.ClassDef, ast.FunctionDef)) and n.name == cls: outer = n
        if outer is None: raise TranslateError('%s: %s not found' % (f, cls))
        fn = None
        for n in outer.body:
            if isinstance(n, ast.FunctionDef) and n.name == name: fn = n
        if fn is None: raise TranslateError('%s: %s.%s not found' % (f, cls, name))
        return fn

    def check_public_methods(self):
        for cls in ('SetInstance', 'Entity'):
            node = [n for n in self.trees[CORE].body if isinstance(n, ast.ClassDef) and n.name == cls][-1]
            for n in node.body:
                if not isinstance(n, ast.FunctionDef): continue
                if any(isinstance(d, ast.Name) and d.id == 'classmethod' for d in n.decorator_list): continue
                public = not n.name.startswith('_') or (n.name.startswith('__') and n.name.endswith('__'))
                if not public: continue
                if (cls, n.name) in self.funcs or n.name in NOT_SESSION_RELATED[cls]: continue
                raise TranslateError('public method %s.%s is neither in the guard table nor in the not-session-related list' % (cls, n.name))

    # ------------------------------------------------------------------ environment of one function
    def env_of(self, fn):
        cache_names, vals_names, aliases, ctor_names, setinst = set(), set(), set(), set(), {'wrapper', 'set_wrapper'}
        assigns = [n for n in ast.walk(fn) if isinstance(n, ast.Assign)]
        changed = True
        while changed:
            changed = False
            for a in assigns:
                names = [t.id for t in a.targets if isinstance(t, ast.Name)]
                for t in a.targets:
                    if isinstance(t, ast.Tuple): names += [e.id for e in t.elts if isinstance(e, ast.Name)]
                if not names: continue
                v = a.value
                kind = None
                if isinstance(v, ast.Attribute) and v.attr == '_session_cache_': kind = 'cache'
                elif isinstance(v, ast.Call) and isinstance(v.func, ast.Attribute) and v.func.attr == '_get_cache': kind = 'cache'
                elif isinstance(v, ast.Attribute) and v.attr == '_vals_': kind = 'vals'
                elif isinstance(v, ast.Attribute) and v.attr == 'py_type': kind = 'ctor'
                elif isinstance(v, ast.Call) and isinstance(v.func, ast.Attribute) and v.func.attr == '__get__': kind = 'setinst'
                elif any(isinstance(x, ast.Attribute) and x.attr in ('_vals_', '_dbvals_') for x in ast.walk(v)): kind = 'alias'
                elif any(isinstance(x, ast.Name) and x.id in (aliases | vals_names) for x in ast.walk(v)) and \
                        isinstance(v, (ast.Attribute, ast.Subscript, ast.Call, ast.Name)): kind = 'alias'
                elif isinstance(v, ast.Attribute) and isinstance(v.value, ast.Name) and v.value.id in cache_names: kind = 'alias'
                if kind is None: continue
                target = {'cache': cache_names, 'vals': vals_names, 'alias': aliases, 'ctor': ctor_names, 'setinst': setinst}[kind]
                for nm in names:
                    if nm not in target: target.add(nm); changed = True
        return {'cache': cache_names, 'vals': vals_names, 'alias': aliases | vals_names, 'ctor': ctor_names, 'setinst': setinst}

    # ------------------------------------------------------------------ test classification
    def is_cache_expr(self, e, env):
        return (isinstance(e, ast.Name) and e.id in env['cache']) or (isinstance(e, ast.Attribute) and e.attr == '_session_cache_')

    def test_kind(self, t, env):
        """'dead' : true exactly when the session is dead;  'alive' : a conjunction that is false when it is dead;
        'vals_none'; 'deleted'; None = unrelated.  Unrecognised tests that mention liveness raise."""
        mentions = any((isinstance(x, ast.Attribute) and x.attr == 'is_alive') for x in ast.walk(t))
        if isinstance(t, ast.BoolOp) and isinstance(t.op, ast.Or) and len(t.values) == 2:
            a, b = t.values
            if isinstance(a, ast.Compare) and len(a.ops) == 1 and isinstance(a.ops[0], ast.Is) and self.is_cache_expr(a.left, env) \
                    and isinstance(a.comparators[0], ast.Constant) and a.comparators[0].value is None \
                    and isinstance(b, ast.UnaryOp) and isinstance(b.op, ast.Not) and isinstance(b.operand, ast.Attribute) \
                    and b.operand.attr == 'is_alive' and self.is_cache_expr(b.operand.value, env):
                return 'dead'
        if isinstance(t, ast.BoolOp) and isinstance(t.op, ast.And) and len(t.values) >= 2:
            a, b = t.values[0], t.values[1]
            if isinstance(a, ast.Compare) and len(a.ops) == 1 and isinstance(a.ops[0], ast.IsNot) and self.is_cache_expr(a.left, env) \
                    and isinstance(a.comparators[0], ast.Constant) and a.comparators[0].value is None \
                    and isinstance(b, ast.Attribute) and b.attr == 'is_alive' and self.is_cache_expr(b.value, env):
                return 'alive'
        if mentions: raise TranslateError('liveness test of unrecognised shape: %s' % _src(t))
        if isinstance(t, ast.Compare) and len(t.ops) == 1 and isinstance(t.ops[0], ast.Is) and isinstance(t.comparators[0], ast.Constant) \
                and t.comparators[0].value is None:
            l = t.left
            if (isinstance(l, ast.Attribute) and l.attr == '_vals_') or (isinstance(l, ast.Name) and l.id in env['vals']): return 'vals_none'
        if isinstance(t, ast.Compare) and len(t.ops) == 1 and isinstance(t.ops[0], ast.In) and isinstance(t.left, ast.Attribute) \
                and t.left.attr == '_status_' and isinstance(t.comparators[0], ast.Name) and t.comparators[0].id == 'del_statuses':
            return 'deleted'
        return None

    def throw_kind(self, st):
        """kind of a statement that unconditionally raises, or None"""
        if isinstance(st, ast.Raise): return 'other'
        if isinstance(st, ast.Expr) and isinstance(st.value, ast.Call):
            f = st.value.func
            if isinstance(f, ast.Name):
                if f.id == 'throw_db_session_is_over': return 'session_over'
                if f.id == 'throw_object_was_deleted': return 'deleted'
                if f.id == 'throw':
                    a0 = st.value.args[0] if st.value.args else None
                    if isinstance(a0, ast.Name) and a0.id == 'DatabaseSessionIsOver': return 'session_over'
                    return 'other'
        return None

    # ------------------------------------------------------------------ path algebra
    @staticmethod
    def seq(ps, qs_fn):
        out = []
        for pre, term in ps:
            if term is not None: out.append((pre, term)); continue
            for pre2, term2 in qs_fn():
                out.append((pre + pre2, term2))
        seen, res = set(), []
        for p in out:
            k = (tuple(p[0]), p[1])
            if k not in seen: seen.add(k); res.append((list(p[0]), p[1]))
        if len(res) > 400: raise TranslateError('path explosion')
        return res

    def walk(self, stmts, env):
        ps = [([], None)]
        for st in stmts:
            ps = self.seq(ps, lambda st=st: self.stmt(st, env))
        return ps

    def stmt(self, st, env):
        if isinstance(st, ast.If):
            k = self.test_kind(st.test, env)
            body_throw = self.throw_kind(st.body[0]) if len(st.body) == 1 else None
            if k == 'dead':
                if body_throw == 'session_over' and not st.orelse: return [([], 'TGuard')]
                return self.walk(st.body, env)                      # dead session: the then-branch runs
            if k == 'alive': return self.walk(st.orelse, env)        # dead session: the test is false
            if k == 'vals_none' and body_throw == 'session_over' and not st.orelse: return [(['VGuard'], None)]
            if k == 'deleted' and body_throw == 'deleted' and not st.orelse: return [(['DelCheck'], None)]
            pre = self.expr(st.test, env)
            return self.seq(pre, lambda: self.walk(st.body, env) + self.walk(st.orelse, env))
        tk = self.throw_kind(st)
        if tk is not None:
            pre = self.expr(st.value if isinstance(st, ast.Expr) else (st.exc or ast.Constant(None)), env, skip_top=True)
            term = {'session_over': 'TGuard', 'deleted': 'TRaiseDeleted', 'other': 'TRaiseOther'}[tk]
            return self.seq(pre, lambda: [([], term)])
        if isinstance(st, ast.Return):
            pre = self.expr(st.value, env) if st.value is not None else [([], None)]
            return self.seq(pre, lambda: [([], 'TReturn')])
        if isinstance(st, ast.Assert):
            k = self.test_kind(st.test, env)
            if k == 'alive': return [([], 'TAssert')]
            return [([], None)]
        if isinstance(st, (ast.Assign, ast.AugAssign, ast.AnnAssign)):
            pre = self.expr(st.value, env) if st.value is not None else [([], None)]
            targets = st.targets if isinstance(st, ast.Assign) else [st.target]
            w = []
            if isinstance(st, ast.Assign) and isinstance(st.value, ast.Call) and isinstance(st.value.func, ast.Name) \
                    and st.value.func.id == 'SetData' and any(self.is_state_target(t, env) for t in targets):
                w = ['Placeholder']
            elif any(self.is_state_target(t, env, aug=isinstance(st, ast.AugAssign)) for t in targets):
                w = ['Write']
            return self.seq(pre, lambda: [(w, None)])
        if isinstance(st, ast.Delete):
            return [(['Write'] if any(self.is_state_target(t, env) for t in st.targets) else [], None)]
        if isinstance(st, ast.Expr):
            return self.expr(st.value, env)
        if isinstance(st, ast.With):
            ps = [([], None)]
            for it in st.items:
                ps = self.seq(ps, lambda it=it: self.expr(it.context_expr, env))
            return self.seq(ps, lambda: self.walk(st.body, env))
        if isinstance(st, (ast.For, ast.While)):
            pre = self.expr(st.iter if isinstance(st, ast.For) else st.test, env)
            if isinstance(st, ast.For): pre = self.seq(pre, lambda: self.implicit(st.iter, 'iter', env))
            return self.seq(pre, lambda: [([], None)] + self.walk(st.body, env))
        if isinstance(st, ast.Try):
            ps = self.walk(st.body, env)
            return self.seq(ps, lambda: self.walk(st.finalbody, env))
        if isinstance(st, (ast.FunctionDef, ast.Pass, ast.Import, ast.ImportFrom, ast.Global, ast.Nonlocal, ast.Continue, ast.Break)):
            return [([], None)]
        raise TranslateError('statement not in the scanned subset: %s' % _src(st)[:80])

    def is_state_target(self, t, env, aug=False):
        if isinstance(t, ast.Tuple): return any(self.is_state_target(e, env, aug) for e in t.elts)
        if isinstance(t, ast.Name): return aug and t.id in env['alias']          # setdata |= items
        if isinstance(t, ast.Attribute):
            if t.attr in STATE_FIELDS: return True
            if t.attr == '_rbits_': return False        # read-tracking bits: bookkeeping that no operation of a dead session reads
            root = t.value
            if isinstance(root, ast.Name) and (root.id in env['alias'] or root.id in env['cache']): return True
            return any(isinstance(x, ast.Attribute) and x.attr in ('_vals_', '_dbvals_') for x in ast.walk(root))
        if isinstance(t, ast.Subscript):
            root = t.value
            if isinstance(root, ast.Name) and root.id in env['alias']: return True
            return any(isinstance(x, ast.Attribute) and x.attr in ('_vals_', '_dbvals_') for x in ast.walk(root))
        return False

    # ------------------------------------------------------------------ expressions: calls in evaluation order
    def expr(self, e, env, skip_top=False, optional=False):
        """paths contributed by evaluating e (calls only). `optional`: e sits in a short-circuit / conditional position."""
        if e is None or isinstance(e, (ast.Constant, ast.Name)): return [([], None)]
        if isinstance(e, ast.IfExp):
            pre = self.expr(e.test, env)
            return self.seq(pre, lambda: self.expr(e.body, env) + self.expr(e.orelse, env))
        if isinstance(e, ast.BoolOp):
            ps = self.expr(e.values[0], env)
            for v in e.values[1:]:
                ps = self.seq(ps, lambda v=v: [([], None)] + self.expr(v, env))
            return ps
        if isinstance(e, (ast.Lambda,)): return [([], None)]
        if isinstance(e, (ast.GeneratorExp, ast.ListComp, ast.SetComp, ast.DictComp)):
            ps = [([], None)]
            for g in e.generators:
                ps = self.seq(ps, lambda g=g: self.expr(g.iter, env))
                ps = self.seq(ps, lambda g=g: self.implicit(g.iter, 'iter', env))
            elts = [e.elt] if not isinstance(e, ast.DictComp) else [e.key, e.value]
            for x in elts:
                ps = self.seq(ps, lambda x=x: [([], None)] + self.expr(x, env))
            return ps
        if isinstance(e, ast.Call):
            ps = [([], None)]
            if isinstance(e.func, ast.Attribute):
                ps = self.seq(ps, lambda: self.expr(e.func.value, env))
            for a in list(e.args) + [k.value for k in e.keywords]:
                a = a.value if isinstance(a, ast.Starred) else a
                ps = self.seq(ps, lambda a=a: self.expr(a, env))
            if skip_top: return ps
            return self.seq(ps, lambda: self.call(e, env))
        ps = [([], None)]
        for child in ast.iter_child_nodes(e):
            if isinstance(child, ast.expr):
                ps = self.seq(ps, lambda child=child: self.expr(child, env))
        return ps

    def call(self, e, env):
        f = e.func
        if isinstance(f, ast.Name):
            if f.id in env['ctor']: return [([], 'TDb')]                 # item_type(**kwargs): Entity.__init__ -> _get_cache()
            if f.id == 'func': return [(['Write'], None)]                # tracked_method: the wrapped in-place mutator of the value
            if f.id in ('sorted', 'list', 'set', 'tuple', 'map', 'iter') and e.args:
                return self.implicit(e.args[-1], 'iter', env)
            if f.id == 'len' and e.args: return self.implicit(e.args[0], 'len', env)
            if f.id == 'bool' and e.args: return self.implicit(e.args[0], 'bool', env)
            if f.id in PURE or f.id in ('throw',): return [([], None)]
            raise TranslateError('unclassified call in an unguarded prefix: %s' % _src(e)[:80])
        if isinstance(f, ast.Attribute):
            name = f.attr
            recv = f.value
            on_state = (isinstance(recv, ast.Name) and recv.id in env['alias']) or \
                       any(isinstance(x, ast.Attribute) and x.attr in ('_vals_', '_dbvals_') for x in ast.walk(recv))
            if on_state:
                if name in MUTATORS: return [(['Write'], None)]
                return [([], None)]                                     # dict.get / set ops on loaded data: reads
            if name in DB_CALLS: return [([], 'TDb')]
            if isinstance(recv, ast.Name) and recv.id in env['cache']:
                return [([], 'TDb')] if name == 'flush' else [([], None)]
            cands = None
            if isinstance(recv, ast.Name) and recv.id in RECEIVER:
                cands = [(c, name) for c in RECEIVER[recv.id] if (c, name) in self.funcs]
            elif isinstance(recv, ast.Attribute) and recv.attr in ('_wrapper',):
                cands = [('SetInstance', name)] if ('SetInstance', name) in self.funcs else []
            elif isinstance(recv, ast.Attribute) and recv.attr in ('_attr_',):
                cands = [(c, name) for c in ('Attribute', 'Set') if (c, name) in self.funcs]
            elif isinstance(recv, ast.Call) and isinstance(recv.func, ast.Attribute) and recv.func.attr == 'copy':
                cands = []                                              # wrapper.copy().union(..): a plain set method
            if cands:
                out = []
                for c in cands:
                    for pre, term in self.paths(c):
                        out.append((list(pre), None if term == 'TReturn' else term))
                return out
            if name in PURE or (cands is not None and name in ('union', 'difference')): return [([], None)]
            if any(k[1] == name for k in self.funcs):
                raise TranslateError('call of a scanned method name on an unknown receiver: %s' % _src(e)[:80])
            raise TranslateError('unclassified call in an unguarded prefix: %s' % _src(e)[:80])
        raise TranslateError('unclassified call in an unguarded prefix: %s' % _src(e)[:80])

    def implicit(self, x, proto, env):
        """iteration / len() / bool() applied to a value that may be a SetInstance calls its protocol methods"""
        is_set = (isinstance(x, ast.Name) and x.id in env['setinst']) or (isinstance(x, ast.Attribute) and x.attr == '_wrapper')
        if not is_set: return [([], None)]
        key = {'iter': ('SetIterator', 'next'), 'len': ('SetInstance', '__len__'), 'bool': ('SetInstance', '__nonzero__')}[proto]
        out = [([], None)]          # the value may also be a plain attribute value (to_dict iterates only collections)
        for pre, term in self.paths(key):
            out.append((list(pre), None if term == 'TReturn' else term))
        return out

    # ------------------------------------------------------------------ per method
    def paths(self, key):
        if key in self.memo: return self.memo[key]
        if key in self.active: raise TranslateError('recursive call before any liveness guard: %s.%s' % key)
        self.active.append(key)
        fn = self.funcs[key]
        env = self.env_of(fn)
        ps = self.walk(fn.body, env)
        out, seen = [], set()
        for pre, term in ps:
            term = term or 'TReturn'
            # drop consecutive duplicates in pre
            p2 = []
            for s in pre:
                if not p2 or p2[-1] != s: p2.append(s)
            k = (tuple(p2), term)
            if k not in seen: seen.add(k); out.append((p2, term))
        self.active.pop()
        self.memo[key] = out
        return out


def op_name(key):
    n = key[1]
    if n.startswith('__') and n.endswith('__'): n = 'dunder_' + n.strip('_')
    elif n.startswith('_'): n = n.strip('_') + '_internal'
    return 'Op_%s_%s' % (key[0], n)


def scan():
    sc = Scanner()
    table = []
    for f, cls, name in ENTRIES:
        key = (cls, name)
        table.append((key, sc.paths(key), sc.funcs[key].lineno, f))
    return table


def generate():
    table = scan()
    names = [op_name(k) for k, _, _, _ in table]
    if len(set(names)) != len(names): raise TranslateError('operation names collide')
    out = ['(* GENERATED on every run by tools/py2coq/guards.py from %s and %s -- do not edit.' % (CORE, ORMTYPES),
           '   For every operation: the prefix paths it can take while its session is dead (see Model/C32Guard.v). *)',
           'Require Import PonyV.Base.PyBase PonyV.Model.C32Guard.', '',
           'Inductive op : Type :=']
    for n in names: out.append('| %s' % n)
    out[-1] += '.'
    out.append('')
    out.append('Definition op_eqb (a b : op) : bool :=\n  match a, b with\n' +
               '\n'.join('  | %s, %s => true' % (n, n) for n in names) + '\n  | _, _ => false\n  end.')
    out.append('')
    out.append('Definition guard_table : list (op * list path) := [')
    rows = []
    for (k, ps, line, f), n in zip(table, names):
        body = ';\n      '.join('mkpath [%s] %s' % ('; '.join(pre), term) for pre, term in ps)
        rows.append('  (* %s.%s, %s:%d *)\n  (%s, [%s])' % (k[0], k[1], f.split('/')[-1], line, n, body))
    out.append(';\n'.join(rows))
    out.append('].')
    return '\n'.join(out) + '\n'


if __name__ == '__main__':
    print(generate())
