"""Tie A for C04: the parenthesisation rule of pony/orm/asttranslation.py -> coq/Gen/Priority.v

Scanned (Python `ast` over the current source, nothing is imported or executed):
  * the decorator `priority(p)`: which comparison decides `child.src = '(%s)' % child.src` (`>=` or `>`), the default used for a child
    without a `priority` attribute, and that the rule is applied to every child returned by get_child_nodes, whatever its position;
  * every `PythonTranslator.post<Node>` method of a modelled node kind: its `@priority(k)` decorator (k = own priority *and* threshold for
    parenthesising children) and bare `node.priority = k` assignments (own priority only; such a node never parenthesises a child);
  * that the rest of each method body is exactly the layout the hand-written Coq printer uses (template comparison by ast.dump);
    two bodies are recognised for postInvert (`node.expr.src`, which raises AttributeError on Python 3, and `node.operand.src`);
  * binop_src, get_child_nodes, ASTTranslator.dispatch, PythonTranslator.__init__/call/default_pre, ast2src: exact templates.
Anything else raises TranslateError: the model can no longer be generated (treated like a broken proof by the check).
"""
import ast, os, textwrap
import vlib
from vlib import TranslateError

REL = 'pony/orm/asttranslation.py'

# kind of the Coq model -> post method that handles it
METHOD = {
    'Name': 'postName', 'Const': 'postConstant', 'NegConst': 'postConstant', 'Or': 'postOr', 'And': 'postAnd', 'Not': 'postNot',
    'Compare': 'postCompare', 'BitOr': 'postBitOr', 'BitXor': 'postBitXor', 'BitAnd': 'postBitAnd', 'LShift': 'postLShift',
    'RShift': 'postRShift', 'Add': 'postAdd', 'Sub': 'postSub', 'Mult': 'postMult', 'Div': 'postDiv', 'FloorDiv': 'postFloorDiv',
    'Mod': 'postMod', 'USub': 'postUSub', 'UAdd': 'postUAdd', 'Invert': 'postInvert', 'Pow': 'postPow', 'Attribute': 'postAttribute',
    'Call': 'postCall', 'Subscript': 'postSubscript', 'IfExp': 'postIfExp', 'Lambda': 'postLambda', 'Tuple': 'postTuple',
    'List': 'postList', 'IdxTuple': 'postTuple', 'StarArg': 'postStarred', 'StarElt': 'postStarred', 'Keyword': 'postkeyword',
    'Slice': 'postSlice', 'Joined': 'postJoinedStr', 'Formatted': 'postFormattedValue',
}

def _join(sym): return "def m(translator, node):\n    return %r.join((node.left.src, node.right.src))\n" % sym

# method -> accepted bodies (source text with `node.priority = k` statements removed); the first is the unchanged code
BODY = {
    'postName': ["def m(translator, node):\n    return node.id\n"],
    'postConstant': ["def m(translator, node):\n    value = node.value\n    if type(value) is float:\n        s = str(value)\n"
                     "        if float(s) == value: return s\n    return repr(value)\n"],
    'postOr': ["def m(translator, node):\n    return ' or '.join(expr.src for expr in node.values)\n"],
    'postAnd': ["def m(translator, node):\n    return ' and '.join(expr.src for expr in node.values)\n"],
    'postNot': ["def m(translator, node):\n    return 'not ' + node.operand.src\n"],
    'postCompare': ["def m(translator, node):\n    result = [ node.left.src ]\n    for op, expr in zip(node.ops, node.comparators):\n"
                    "        result.extend((op.src, expr.src))\n    return ' '.join(result)\n"],
    'postBitOr': [_join(' | ')], 'postBitXor': [_join(' ^ ')], 'postBitAnd': [_join(' & ')], 'postLShift': [_join(' << ')],
    'postRShift': [_join(' >> ')], 'postAdd': [_join(' + ')], 'postSub': [_join(' - ')], 'postMult': [_join(' * ')],
    'postDiv': [_join(' / ')], 'postFloorDiv': [_join(' // ')], 'postMod': [_join(' % ')],
    'postUSub': ["def m(translator, node):\n    return '-' + node.operand.src\n"],
    'postUAdd': ["def m(translator, node):\n    return '+' + node.operand.src\n"],
    'postInvert': ["def m(translator, node):\n    return '~' + node.expr.src\n",        # AttributeError on Python 3: kind not printable
                   "def m(translator, node):\n    return '~' + node.operand.src\n"],
    'postPow': ["def m(translator, node):\n    return binop_src(' ** ', node)\n"],
    'postAttribute': ["def m(translator, node):\n    return '.'.join((node.value.src, node.attr))\n",
                      "def m(translator, node):\n    return '.'.join((receiver_src(node.value), node.attr))\n"],
    'postCall': ["def m(translator, node):\n    if len(node.args) == 1 and isinstance(node.args[0], ast.GeneratorExp):\n"
                 "        return node.func.src + node.args[0].src\n    args = [ arg.src for arg in node.args ] + [ kw.src for kw in node.keywords ]\n"
                 "    return '%s(%s)' % (node.func.src, ', '.join(args))\n",
                 "def m(translator, node):\n    if len(node.args) == 1 and isinstance(node.args[0], ast.GeneratorExp):\n"
                 "        return receiver_src(node.func) + node.args[0].src\n    args = [ arg.src for arg in node.args ] + [ kw.src for kw in node.keywords ]\n"
                 "    return '%s(%s)' % (receiver_src(node.func), ', '.join(args))\n"],
    'postSubscript': ["def m(translator, node):\n    x = node.slice\n    if isinstance(x, ast.Index):\n        x = x.value\n"
                      "    if isinstance(x, ast.Tuple):\n        key = ', '.join([elt.src for elt in x.elts])\n"
                      "    elif isinstance(x, ast.Constant) and isinstance(x.value, tuple):\n        key = repr(x.value)[1:-1]\n"
                      "    else:\n        key = x.src\n    return '%s[%s]' % (node.value.src, key)\n",
                      "def m(translator, node):\n    x = node.slice\n    if isinstance(x, ast.Index):\n        x = x.value\n"
                      "    if isinstance(x, ast.Tuple) and not x.elts:\n        key = '()'\n"
                      "    elif isinstance(x, ast.Tuple) and len(x.elts) == 1:\n        key = x.elts[0].src + ','\n"
                      "    elif isinstance(x, ast.Tuple):\n        key = ', '.join([elt.src for elt in x.elts])\n"
                      "    elif isinstance(x, ast.Constant) and isinstance(x.value, tuple):\n        key = repr(x.value)[1:-1]\n"
                      "    else:\n        key = x.src\n    return '%s[%s]' % (receiver_src(node.value), key)\n"],
    'postIfExp': ["def m(translator, node):\n    return '%s if %s else %s' % (node.body.src, node.test.src, node.orelse.src)\n"],
    'postLambda': ["def m(translator, node):\n    return 'lambda %s: %s' % (node.args.src, node.body.src)\n"],
    'postTuple': ["def m(translator, node):\n    if len(node.elts) == 1:\n        return '(%s,)' % node.elts[0].src\n"
                  "    return '(%s)' % ', '.join(elt.src for elt in node.elts)\n"],
    'postList': ["def m(translator, node):\n    return '[%s]' % ', '.join(item.src for item in node.elts)\n"],
    'postStarred': ["def m(translator, node):\n    return '*' + node.value.src\n"],
    'postkeyword': ["def m(translator, node):\n    if node.arg is None:\n        return '**' + node.value.src\n"
                    "    return '%s=%s' % (node.arg, node.value.src)\n"],
    'postSlice': ["def m(translator, node):\n    result = []\n    if node.lower:\n        result.append(node.lower.src)\n    result.append(':')\n"
                  "    if node.upper:\n        result.append(node.upper.src)\n    if node.step:\n        result.append(':')\n"
                  "        result.append(node.step.src)\n    return ''.join(result)\n"],
    'postJoinedStr': ["def m(self, node):\n    result = []\n    for item in node.values:\n        if isinstance(item, ast.Constant):\n"
                      "            assert isinstance(item.value, str)\n            result.append(item.value)\n"
                      "        elif not PY38 and isinstance(item, ast.Str):\n            result.append(item.s)\n"
                      "        elif isinstance(item, ast.FormattedValue):\n            if item.conversion == -1:\n"
                      "                src = '{%s}' % item.value.src\n            else:\n"
                      "                src = '{%s!%s}' % (item.value.src, chr(item.conversion))\n            result.append(src)\n"
                      "        else:\n            assert False\n    return \"f%r\" % ''.join(result)\n",
                      "def m(self, node):\n    return \"f%r\" % joinedstr_body(node)\n"],
    'postFormattedValue': ["def m(self, node):\n    return node.value.src\n",
                           "def m(self, node):\n    return \"f%r\" % formattedvalue_src(node)\n"],
    'postarguments': ["def m(translator, node):\n    if node.defaults:\n        nodef_args = node.args[:-len(node.defaults)]\n"
                      "        def_args = node.args[-len(node.defaults):]\n    else:\n        nodef_args = node.args\n        def_args = []\n\n"
                      "    result = [arg.arg for arg in nodef_args]\n"
                      "    result.extend('%s=%s' % (arg.arg, default.src) for arg, default in zip(def_args, node.defaults))\n"
                      "    if node.vararg:\n        result.append('*%s' % node.vararg.arg)\n    if node.kwarg:\n"
                      "        result.append('**%s' % node.kwarg.arg)\n    return ', '.join(result)\n"],
}
# f-string flags per accepted postJoinedStr body: (format spec printed, literal braces re-escaped)
FSTR_FLAGS = [(False, False), (True, True)]

# helpers that exist only in the repaired code; each must be exactly this when a method body uses it
HELPERS = {
    'receiver_src': "def receiver_src(node):\n    src = node.src\n"
                    "    if getattr(node, 'priority', 0) > 2 or isinstance(node, ast.Constant) and type(node.value) is int:\n"
                    "        src = '(%s)' % src\n    return src\n",
    'formattedvalue_src': "def formattedvalue_src(item):\n    src = '{' + item.value.src\n    if item.conversion != -1:\n        src += '!' + chr(item.conversion)\n"
                          "    if getattr(item, 'format_spec', None) is not None:\n        spec = item.format_spec\n"
                          "        src += ':' + (joinedstr_body(spec) if isinstance(spec, ast.JoinedStr) else spec.value.replace('{', '{{').replace('}', '}}'))\n"
                          "    return src + '}'\n",
    'joinedstr_body': "def joinedstr_body(node):\n    result = []\n    for item in node.values:\n        if isinstance(item, ast.Constant):\n"
                      "            assert isinstance(item.value, str)\n            result.append(item.value.replace('{', '{{').replace('}', '}}'))\n"
                      "        elif not PY38 and isinstance(item, ast.Str):\n            result.append(item.s.replace('{', '{{').replace('}', '}}'))\n"
                      "        elif isinstance(item, ast.FormattedValue):\n            result.append(formattedvalue_src(item))\n"
                      "        else:\n            assert False\n    return ''.join(result)\n",
}
RECEIVER_THRESHOLD = 2       # the `> 2` of receiver_src (part of the template above)

NEG_CONST_IF = ("if type(value) in (int, float) and repr(value).startswith('-'):\n    node.priority = 0\n")

CMP_METHODS = {'postEq': '==', 'postNotEq': '!=', 'postLt': '<', 'postLtE': '<=', 'postGt': '>', 'postGtE': '>=', 'postIs': 'is',
               'postIsNot': 'is not', 'postIn': 'in', 'postNotIn': 'not in'}

FIXED = {
    'binop_src': "def binop_src(op, node):\n    return op.join((node.left.src, node.right.src))\n",
    'ast2src': "def ast2src(tree):\n    src = getattr(tree, 'src', None)\n    if src is not None:\n        return src\n"
               "    PythonTranslator(tree)\n    return tree.src\n",
    'get_child_nodes': "def get_child_nodes(node):\n    for child in ast.iter_child_nodes(node):\n"
                       "        if not isinstance(child, (ast.expr_context, ast.boolop, ast.unaryop, ast.operator)):\n            yield child\n",
    'ASTTranslator.dispatch':
        "def dispatch(translator, node):\n    translator_cls = translator.__class__\n    pre_methods = pre_method_caches[translator_cls]\n"
        "    post_methods = post_method_caches[translator_cls]\n    if isinstance(node, (ast.BoolOp, ast.BinOp, ast.UnaryOp)):\n"
        "        node_cls = node.op.__class__\n    else:\n        node_cls = node.__class__\n\n    try:\n        pre_method = pre_methods[node_cls]\n"
        "    except KeyError:\n        pre_method = getattr(translator_cls, 'pre' + node_cls.__name__, translator_cls.default_pre)\n"
        "        pre_methods[node_cls] = pre_method\n\n    stop = translator.call(pre_method, node)\n    if stop: return\n\n"
        "    for child in get_child_nodes(node):\n        translator.dispatch(child)\n\n    try:\n        post_method = post_methods[node_cls]\n"
        "    except KeyError:\n        post_method = getattr(translator_cls, 'post' + node_cls.__name__, translator_cls.default_post)\n"
        "        post_methods[node_cls] = post_method\n    translator.call(post_method, node)\n",
    'PythonTranslator.__init__': "def __init__(translator, tree):\n    ASTTranslator.__init__(translator, tree)\n"
                                 "    translator.top_level_f_str = None\n    translator.dispatch(tree)\n",
    'PythonTranslator.call': "def call(translator, method, node):\n    node.src = method(translator, node)\n",
    'PythonTranslator.default_pre': "def default_pre(translator, node):\n    if getattr(node, 'src', None) is not None:\n        return True\n",
}

PRIORITY_TEMPLATE = ("def priority(p):\n    def decorator(func):\n        def new_func(translator, node):\n            node.priority = p\n"
                     "            for child in get_child_nodes(node):\n                if getattr(child, 'priority', 0) >= p:\n"
                     "                    child.src = '(%s)' % child.src\n            return func(translator, node)\n"
                     "        return update_wrapper(new_func, func)\n    return decorator\n")


def _dump_fn(fn):
    """ast.dump of a function ignoring its name, decorators and docstring"""
    body = list(fn.body)
    if body and isinstance(body[0], ast.Expr) and isinstance(body[0].value, ast.Constant) and isinstance(body[0].value.value, str):
        body = body[1:]
    return ast.dump(ast.Module(body=[ast.FunctionDef(name='m', args=fn.args, body=body or [ast.Pass()], decorator_list=[], returns=None,
                                                       type_comment=None, type_params=[])], type_ignores=[]))


def _tmpl(src):
    return _dump_fn(ast.parse(textwrap.dedent(src)).body[0])


def _last(body, name, cls):
    found = None
    for n in body:
        if isinstance(n, cls) and n.name == name: found = n
    return found


def scan(repo=None):
    """-> dict(own={kind: int}, threshold={kind: int|None}, cmp='>='|'>', default=int, kind_ok={kind: bool}, keep_spec, escape)"""
    path = os.path.join(repo or vlib.REPO, REL)
    try:
        tree = ast.parse(open(path).read())
    except (IOError, SyntaxError) as e:
        raise TranslateError('cannot read/parse %s: %s' % (REL, e))
    top = tree.body

    # fixed helpers
    for qual, src in FIXED.items():
        parts = qual.split('.')
        node = _last(top, parts[0], (ast.FunctionDef, ast.ClassDef))
        if node is not None and len(parts) == 2: node = _last(node.body, parts[1], ast.FunctionDef)
        if node is None: raise TranslateError('%s: %s not found' % (REL, qual))
        if _dump_fn(node) != _tmpl(src):
            raise TranslateError('%s: %s is no longer the code the printer model was written for' % (REL, qual))

    # the decorator
    pr = _last(top, 'priority', ast.FunctionDef)
    if pr is None: raise TranslateError('decorator `priority` not found')
    ifs = [n for n in ast.walk(pr) if isinstance(n, ast.If)]
    if len(ifs) != 1 or not isinstance(ifs[0].test, ast.Compare) or len(ifs[0].test.ops) != 1:
        raise TranslateError('priority(): the parenthesisation test is not a single comparison')
    test = ifs[0].test
    op = test.ops[0]
    if isinstance(op, ast.GtE): cmp = '>='
    elif isinstance(op, ast.Gt): cmp = '>'
    else: raise TranslateError('priority(): comparison %s not understood' % type(op).__name__)
    call = test.left
    if not (isinstance(call, ast.Call) and isinstance(call.func, ast.Name) and call.func.id == 'getattr' and len(call.args) == 3
            and isinstance(call.args[2], ast.Constant) and type(call.args[2].value) is int and call.args[2].value >= 0):
        raise TranslateError('priority(): child priority is not read as getattr(child, "priority", <int>)')
    default = call.args[2].value
    # canonicalise the two holes and compare the rest with the template
    test.ops[0] = ast.GtE(); call.args[2] = ast.Constant(value=0)
    if _dump_fn(pr) != _tmpl(PRIORITY_TEMPLATE):
        raise TranslateError('priority(): decorator body is no longer the recognised rule (position-independent loop over get_child_nodes)')

    cls = _last(top, 'PythonTranslator', ast.ClassDef)
    if cls is None: raise TranslateError('class PythonTranslator not found')
    methods = {}
    for n in cls.body:
        if isinstance(n, ast.FunctionDef): methods[n.name] = n     # last definition wins

    def analyse(name):
        fn = methods.get(name)
        if fn is None: raise TranslateError('PythonTranslator.%s not found' % name)
        thr = None
        for d in fn.decorator_list:
            if isinstance(d, ast.Call) and isinstance(d.func, ast.Name) and d.func.id == 'priority' and len(d.args) == 1 and not d.keywords \
                    and isinstance(d.args[0], ast.Constant) and type(d.args[0].value) is int and d.args[0].value >= 0:
                if thr is not None: raise TranslateError('%s: two @priority decorators' % name)
                thr = d.args[0].value
            else:
                raise TranslateError('%s: decorator not understood: %s' % (name, ast.unparse(d)))
        own = thr
        body = []
        extra = {}
        for i, s in enumerate(fn.body):
            if name == 'postConstant' and isinstance(s, ast.If) and len(s.body) == 1 and isinstance(s.body[0], ast.Assign) \
                    and isinstance(s.body[0].value, ast.Constant) and type(s.body[0].value.value) is int and s.body[0].value.value >= 0:
                k = s.body[0].value.value
                probe = ast.parse(ast.unparse(s)).body[0]
                probe.body[0].value = ast.Constant(value=0)
                if ast.dump(probe) != ast.dump(ast.parse(NEG_CONST_IF).body[0]):
                    raise TranslateError('postConstant: conditional priority assignment not understood: %s' % ast.unparse(s))
                extra['neg_priority'] = k          # a negative number constant gets this priority
                continue
            if isinstance(s, ast.Assign) and len(s.targets) == 1 and isinstance(s.targets[0], ast.Attribute) and s.targets[0].attr == 'priority' \
                    and isinstance(s.targets[0].value, ast.Name) and s.targets[0].value.id == 'node':
                if not (isinstance(s.value, ast.Constant) and type(s.value.value) is int and s.value.value >= 0):
                    raise TranslateError('%s: node.priority is not assigned an integer literal' % name)
                if i != 0: raise TranslateError('%s: node.priority assigned after other statements' % name)
                own = s.value.value
            else:
                body.append(s)
        for s in body:
            for sub in ast.walk(s):
                if isinstance(sub, ast.Attribute) and sub.attr == 'priority':
                    raise TranslateError('%s: reads or writes .priority in a way the scanner does not understand' % name)
        stripped = ast.FunctionDef(name='m', args=fn.args, body=body or [ast.Pass()], decorator_list=[], returns=None, type_comment=None, type_params=[])
        variant = None
        for vi, src in enumerate(BODY[name]):
            if _dump_fn(stripped) == _tmpl(src): variant = vi
        if variant is None:
            raise TranslateError('PythonTranslator.%s: body is not one of the layouts the Coq printer models:\n%s' % (
                name, '\n'.join(ast.unparse(x) for x in body)))
        return own, thr, variant, extra

    own, threshold, kind_ok = {}, {}, {}
    variants = {}
    for k, m in METHOD.items():
        o, t, v, extra = analyse(m)
        own[k] = default if o is None else o
        if k == 'NegConst' and 'neg_priority' in extra: own[k] = extra['neg_priority']
        threshold[k] = t
        variants[m] = v
        kind_ok[k] = True
    analyse('postarguments')
    kind_ok['Invert'] = variants['postInvert'] == 1
    for m, sym in CMP_METHODS.items():
        fn = methods.get(m)
        if fn is None or fn.decorator_list or _dump_fn(fn) != _tmpl("def m(translator, node):\n    return %r\n" % sym):
            raise TranslateError('PythonTranslator.%s is not `return %r`' % (m, sym))
    keep_spec, escape = FSTR_FLAGS[variants['postJoinedStr']]
    receiver = {'Attribute': variants['postAttribute'] == 1, 'Call': variants['postCall'] == 1, 'Subscript': variants['postSubscript'] == 1}
    used = set()
    if any(receiver.values()): used.add('receiver_src')
    if variants['postJoinedStr'] == 1: used |= {'joinedstr_body', 'formattedvalue_src'}
    if variants['postFormattedValue'] == 1: used |= {'formattedvalue_src', 'joinedstr_body'}
    for h in sorted(used):
        node = _last(top, h, ast.FunctionDef)
        if node is None or _dump_fn(node) != _tmpl(HELPERS[h]):
            raise TranslateError('%s: helper %s is missing or is no longer the code the printer model was written for' % (REL, h))
    return {'own': own, 'threshold': threshold, 'cmp': cmp, 'default': default, 'kind_ok': kind_ok, 'keep_spec': keep_spec, 'escape': escape,
            'receiver': receiver, 'receiver_threshold': RECEIVER_THRESHOLD, 'short_idx': variants['postSubscript'] == 1,
            'bare_formatted_is_operand': variants['postFormattedValue'] == 0}


def pony_needs_fn(tbl):
    """Python mirror of the generated Coq `pony_needs`."""
    def needs(p, i, c):
        own = tbl['own'].get(c, tbl['default'])
        if i == 0 and tbl.get('receiver', {}).get(p) and own > tbl['receiver_threshold']: return True
        t = tbl['threshold'].get(p)
        if t is None: return False
        return own >= t if tbl['cmp'] == '>=' else own > t
    return needs


def generate():
    from c04_gen import KINDS
    tbl = scan()
    L = ['(* GENERATED on every run by tools/py2coq/priority.py from %s -- do not edit *)' % REL,
         'From Coq Require Import Arith Bool.', 'Require Import PonyV.Model.C04Expr.', '',
         '(* value of getattr(node, "priority", %d) once the node has been printed *)' % tbl['default'],
         'Definition own_priority (k : kind) : nat :=', '  match k with']
    for k in KINDS: L.append('  | K%s => %d' % (k, tbl['own'].get(k, tbl['default'])))      # (KOther: not printed by the model)
    L += ['  end.', '', '(* k of the @priority(k) decorator of the method printing this kind; None: no decorator, children are never parenthesised *)',
          'Definition wrap_threshold (k : kind) : option nat :=', '  match k with']
    for k in KINDS: L.append('  | K%s => %s' % (k, 'None' if tbl['threshold'].get(k) is None else 'Some %d' % tbl['threshold'][k]))
    L += ['  end.', '', '(* `if getattr(child, "priority", %d) %s p: child.src = "(%%s)" %% child.src`, for every child alike *)' % (tbl['default'], tbl['cmp']),
          'Definition wraps (child_priority p : nat) : bool := %s.' % ('p <=? child_priority' if tbl['cmp'] == '>=' else 'p <? child_priority'), '',
          '(* postAttribute / postCall / postSubscript print their object through receiver_src: parenthesised when its priority is > %d *)' % tbl['receiver_threshold'],
          'Definition receiver_wraps (p : kind) : bool :=', '  match p with'] + ['  | K%s => %s' % (k, 'true' if v else 'false') for k, v in sorted(tbl['receiver'].items())] + [
          '  | _ => false', '  end.',
          'Definition receiver_threshold : nat := %d.' % tbl['receiver_threshold'], '',
          'Definition pony_needs (p : kind) (i : nat) (c : kind) : bool :=',
          '  match wrap_threshold p with Some t => wraps (own_priority c) t | None => false end',
          '  || (receiver_wraps p && Nat.eqb i 0 && (receiver_threshold <? own_priority c)).', '',
          '(* postSubscript: x[a,] keeps its comma and x[()] its parentheses *)',
          'Definition pony_short_idx : bool := %s.' % ('true' if tbl['short_idx'] else 'false'), '',
          '(* postJoinedStr: is the format spec printed / are literal braces doubled again *)',
          'Definition pony_keep_spec : bool := %s.' % ('true' if tbl['keep_spec'] else 'false'),
          'Definition pony_escape_braces : bool := %s.' % ('true' if tbl['escape'] else 'false'), '',
          '(* postFormattedValue returns the source of its operand: a FormattedValue that is not inside a JoinedStr (what the decompiler',
          '   produces for a one-field f-string) is printed as the bare operand, conversion and spec are lost *)',
          'Definition pony_bare_formatted_is_operand : bool := %s.' % ('true' if tbl['bare_formatted_is_operand'] else 'false'), '',
          '(* false: the method reads a field the node does not have (AttributeError), the kind cannot be printed at all *)',
          'Definition pony_kind_ok (k : kind) : bool :=', '  match k with']
    bad = [k for k in KINDS if not tbl['kind_ok'].get(k, True)]
    for k in bad: L.append('  | K%s => false' % k)
    L += ['  | _ => true' if len(bad) < len(KINDS) else '', '  end.', '',
          'Definition pony_style : style := {| needs := pony_needs; keep_spec := pony_keep_spec; short_idx := pony_short_idx |}.', '']
    return '\n'.join(L)
