"""Tie A for C25: SQLBuilder.STRING_SLICE and SQLiteBuilder.STRING_SLICE -> coq/Gen/StringSlice.v"""
import ast
from py2coq.core import *

BIN = {'ADD': 'SAdd', 'SUB': 'SSub', 'GE': 'SGe', 'LT': 'SLt', 'AND': 'SAnd', 'COALESCE': 'SCoalesce'}


class PgFlag(ast.NodeTransformer):
    """builder.dialect == 'PostgreSQL'  ->  the boolean parameter `pg`; any other use of builder.* is refused later."""
    def __init__(self, selfname): self.selfname = selfname
    def visit_Compare(self, n):
        self.generic_visit(n)
        if len(n.ops) == 1 and isinstance(n.ops[0], ast.Eq) and isinstance(n.left, ast.Attribute) and n.left.attr == 'dialect' \
                and isinstance(n.left.value, ast.Name) and n.left.value.id == self.selfname \
                and isinstance(n.comparators[0], ast.Constant) and n.comparators[0].value == 'PostgreSQL':
            return ast.copy_location(ast.Name(id='pg', ctx=ast.Load()), n)
        return n


class SliceSpec(Spec):
    def __init__(self, selfname): self.selfname = selfname
    def param(self, name):
        if name == 'expr': return Sym('expr', 'sx')
        if name in ('start', 'stop'): return Sym(name, 'option sx')
        raise TranslateError('unexpected parameter %r' % name)
    def call(self, ex, node, env):
        # builder(x): rendering of an AST to text; the model keeps the AST
        if isinstance(node.func, ast.Name) and node.func.id == self.selfname and len(node.args) == 1 and not node.keywords:
            return ex.eval(node.args[0], env)
        if isinstance(node.func, ast.Name) and node.func.id in ('max', 'min') and len(node.args) == 2 and not node.keywords:
            a, b = ex.eval(node.args[0], env), ex.eval(node.args[1], env)
            if isinstance(a, Const) and isinstance(b, Const): return Const((max if node.func.id == 'max' else min)(a.v, b.v))
            return Sym('(Z.%s %s %s)' % (node.func.id, ex.zterm(a), ex.zterm(b)), 'Z')
        raise TranslateError('call not in subset: %s' % ast.unparse(node))
    def tag_pattern(self, ex, tag, varname, xcoq):
        # x[0] == 'VALUE'  |->  match as_value x with Some v => .. | _ => ..   (as_value: SqlAst.v; two cases in proofs)
        if tag != 'VALUE': raise TranslateError('tag test on %r not in subset' % tag)
        v = ex.gensym(varname + '_value')
        return '(Some %s)' % v, Node('VALUE', [Sym(v, 'Z')]), '(as_value %s)' % xcoq
    def emit_assert_false(self, ex): return 'SErr'
    def emit_node(self, ex, n):
        a = n.args
        if n.tag == 'VALUE' and len(a) == 1:
            if isinstance(a[0], Const) and a[0].v is None: return 'SNullValue'
            return '(SValue %s)' % ex.zterm(a[0])
        if n.tag == 'LENGTH' and len(a) == 1: return '(SLength %s)' % ex.emit(a[0])
        if n.tag in BIN and len(a) == 2: return '(%s %s %s)' % (BIN[n.tag], ex.emit(a[0]), ex.emit(a[1]))
        if n.tag == 'IF' and len(a) == 3: return '(SIf %s %s %s)' % tuple(ex.emit(x) for x in a)
        if n.tag == 'MAX' and len(a) == 3 and isinstance(a[0], Const) and a[0].v is False:
            return '(SMax %s %s)' % (ex.emit(a[1]), ex.emit(a[2]))
        if n.tag == 'CASE' and len(a) in (2, 3) and isinstance(a[0], Const) and a[0].v is None and isinstance(a[1], List):
            arms = []
            for t in a[1].items:
                if not (isinstance(t, Tuple) and len(t.items) == 2): raise TranslateError('CASE arm is not a pair')
                arms.append('(%s, %s)' % (ex.emit(t.items[0]), ex.emit(t.items[1])))
            d = ex.emit_opt(a[2]) if len(a) == 3 else 'None'
            return '(SCase [%s] %s)' % (';\n   '.join(arms), d)
        if n.tag == 'SUBSTR' and len(a) in (2, 3):
            return '(SSubstr %s %s %s)' % (ex.emit(a[0]), ex.emit(a[1]), ex.emit_opt(a[2]) if len(a) == 3 else 'None')
        raise TranslateError('no constructor for node %r/%d' % (n.tag, len(a)))
    def emit_return(self, ex, v):
        # SQLiteBuilder returns text pieces: "py_string_slice(", e, ', ', a, ', ', b, ")"
        if isinstance(v, Tuple) and len(v.items) == 7 and isinstance(v.items[0], Const) and v.items[0].v == 'py_string_slice(' \
                and [x.v for x in (v.items[2], v.items[4], v.items[6]) if isinstance(x, Const)] == [', ', ', ', ')']:
            return '(SPySlice %s %s %s)' % (ex.emit(v.items[1]), ex.emit(v.items[3]), ex.emit(v.items[5]))
        if isinstance(v, (Node, Sym)): return ex.emit(v)
        raise TranslateError('unexpected return value')


def translate_one(relpath, qualname, coqname, with_pg):
    fdef, src, lineno = load_function(relpath, qualname)
    selfname = fdef.args.args[0].arg
    fdef = ast.fix_missing_locations(PgFlag(selfname).visit(fdef))
    names = [a.arg for a in fdef.args.args]
    if names[1:] != ['expr', 'start', 'stop']:
        raise TranslateError('%s: signature changed: %r' % (qualname, names))
    ex = Exec(SliceSpec(selfname))
    env_pg = Sym('pg', 'bool')
    spec = ex.spec
    orig_param = spec.param
    body = None
    env = {names[0]: Sym('<self>', 'self'), 'expr': orig_param('expr'), 'start': orig_param('start'), 'stop': orig_param('stop')}
    if with_pg: env['pg'] = env_pg
    body = ex.run(fdef.body, env, lambda e: spec.fallthrough(ex, e))
    sig = '(pg : bool) ' if with_pg else ''
    return '(* %s:%d %s *)\nDefinition %s %s(expr : sx) (start stop : option sx) : sx :=\n%s.\n' % (relpath, lineno, qualname, coqname, sig, body)


def generate():
    out = ['(* GENERATED by tools/py2coq/stringslice.py from /repo on every run -- do not edit *)',
           'Require Import PonyV.Base.PyBase PonyV.Sql.SqlAst.', '']
    out.append(translate_one('pony/orm/sqlbuilding.py', 'SQLBuilder.STRING_SLICE', 'string_slice', True))
    out.append(translate_one('pony/orm/dbproviders/sqlite.py', 'SQLiteBuilder.STRING_SLICE', 'sqlite_string_slice', False))
    return '\n'.join(out)


if __name__ == '__main__':
    print(generate())
