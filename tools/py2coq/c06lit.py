"""Tie A for C06, non-string literals: Value.__str__ and SQLiteValue / MySQLValue / PGValue.__str__ are translated once per
KIND of value (None, bool, int, integer-valued float, Decimal, datetime, date, timedelta; for SQLite also whole-day timedelta)
-> coq/Gen/C06Lit.v.  isinstance tests are folded with Python's class hierarchy (bool is an int, datetime is a date).
Library calls are mapped to reference models:
    str(int) -> py_str_int           str(float) -> py_repr_float_int (integer-valued floats only)     str(Decimal) -> py_str_decimal
    str(date) -> iso_date            datetime2timestamp -> Gen/C07Codec.datetime2timestamp (translated by the C07 builder)
    timedelta2str -> C07Codec.td_str      value.microseconds -> td_us      repr(value.total_seconds() / 86400) -> py_repr_float_int days
Fail-closed.  Extends c06quote.StrExec."""
import ast
from py2coq.core import *
from py2coq.c06quote import StrExec, Fmt, header, slit

# kind -> (Python classes the value is an instance of, Coq type, Coq type name in comments)
KINDS = {
    'none': (set(), None),
    'bool': ({'bool', 'int', 'int_types'}, 'bool'),
    'int': ({'int', 'int_types'}, 'Z'),
    'floatint': ({'float'}, 'Z'),
    'decimal': ({'Decimal'}, 'dec'),
    'datetime': ({'datetime', 'date'}, 'datetime_v'),
    'date': ({'date'}, 'date_v'),
    'timedelta': ({'timedelta'}, 'td_v'),
    'timedelta_days': ({'timedelta'}, 'Z'),
}


class LitSpec(Spec):
    def __init__(self, selfname, kind, generic_name): self.selfname = selfname; self.kind = kind; self.generic_name = generic_name
    def attribute(self, ex, base, attr, node):
        if isinstance(base, ast.Name) and base.id == self.selfname:
            if attr == 'paramstyle': return Sym('style', 'paramstyle')
            if attr == 'value':
                if self.kind == 'none': return Const(None)
                return Sym('value', 'lit:' + self.kind)
        if isinstance(base, ast.Name) and attr == 'microseconds':
            v = ex.eval(base, {'value': Sym('value', 'lit:' + self.kind)}) if base.id == 'value' else None
            if v is not None and self.kind == 'timedelta': return Sym('(negb (td_us value =? 0))', 'bool')
        raise TranslateError('attribute read not in subset: %s' % ast.unparse(node))
    def call(self, ex, node, env):
        f = node.func
        def selfcall(name): return isinstance(f, ast.Attribute) and isinstance(f.value, ast.Name) and f.value.id == self.selfname and f.attr == name
        if selfcall('quote_str') and len(node.args) == 1:
            return Sym('(quote_str style %s)' % ex.sterm(ex.eval(node.args[0], env)), 'str')
        if isinstance(f, ast.Attribute) and isinstance(f.value, ast.Name) and f.value.id == 'Value' and f.attr == '__str__' \
                and len(node.args) == 1 and isinstance(node.args[0], ast.Name) and node.args[0].id == self.selfname:
            if self.kind == 'none': return Sym('(%s_none style)' % self.generic_name, 'str')
            return Sym('(%s_%s style value)' % (self.generic_name, self.kind), 'str')
        if isinstance(f, ast.Name) and len(node.args) == 1 and not node.keywords:
            a = node.args[0]
            if f.id == 'str':
                v = ex.eval(a, env)
                if isinstance(v, Sym) and v.ty == 'lit:int': return Sym('(py_str_int value)', 'str')
                if isinstance(v, Sym) and v.ty == 'lit:floatint': return Sym('(py_repr_float_int value)', 'str')
                if isinstance(v, Sym) and v.ty == 'lit:decimal': return Sym('(py_str_decimal value)', 'str')
                if isinstance(v, Sym) and v.ty == 'lit:date': return Sym('(iso_date value)', 'str')
                if isinstance(v, Sym) and v.ty == 'lit:datetime': raise TranslateError('str(datetime) is not modelled')
            if f.id == 'datetime2timestamp':
                v = ex.eval(a, env)
                if isinstance(v, Sym) and v.ty == 'lit:datetime': return Sym('(datetime2timestamp value)', 'str')
            if f.id == 'timedelta2str':
                v = ex.eval(a, env)
                if isinstance(v, Sym) and v.ty == 'lit:timedelta': return Sym('(td_str value)', 'str')
            if f.id == 'repr' and self.kind == 'timedelta_days':
                # repr(value.total_seconds() / (24 * 60 * 60)): for a whole-day timedelta the quotient is float(days), exactly
                if isinstance(a, ast.BinOp) and isinstance(a.op, ast.Div) and ast.unparse(a.left) == 'value.total_seconds()':
                    try: d = eval(compile(ast.Expression(a.right), '<c>', 'eval'), {'__builtins__': {}}, {})
                    except Exception: d = None
                    if d == 86400: return Sym('(py_repr_float_int value)', 'str')
        raise TranslateError('call not in subset: %s' % ast.unparse(node))
    def emit_return(self, ex, v): return ex.sterm(v)
    def emit_assert_false(self, ex): raise TranslateError('assert False reachable for a %s value' % self.kind)
    def fallthrough(self, ex, env): raise TranslateError('__str__ may fall off its end for a %s value' % self.kind)


class LitExec(StrExec):
    def str_call(self, e, env):
        f = e.func
        if isinstance(f, ast.Name) and f.id == 'isinstance' and len(e.args) == 2:
            x = self.eval(e.args[0], env)
            names = []
            def collect(n):
                if isinstance(n, ast.Tuple):
                    for y in n.elts: collect(y)
                elif isinstance(n, ast.Name): names.append(n.id)
                elif isinstance(n, ast.Attribute): names.append(n.attr)
                else: raise TranslateError('isinstance class not in subset: %s' % ast.unparse(n))
            collect(e.args[1])
            if isinstance(x, Const) and x.v is None: return Const(False)
            if isinstance(x, Sym) and x.ty.startswith('lit:'):
                return Const(bool(KINDS[x.ty[4:]][0] & set(names)))
        return StrExec.str_call(self, e, env)

    def eval(self, e, env):
        # value and 'a' or 'b'   (with 'a' truthy)  ->  if value then 'a' else 'b'
        if isinstance(e, ast.BoolOp) and isinstance(e.op, ast.Or) and len(e.values) == 2 and isinstance(e.values[0], ast.BoolOp) \
                and isinstance(e.values[0].op, ast.And) and len(e.values[0].values) == 2:
            c, a, b = self.eval(e.values[0].values[0], env), self.eval(e.values[0].values[1], env), self.eval(e.values[1], env)
            if isinstance(c, Sym) and c.ty == 'lit:bool' and isinstance(a, Const) and isinstance(a.v, str) and a.v and isinstance(b, Const) and isinstance(b.v, str):
                return Sym('(if value then %s else %s)' % (slit(a.v), slit(b.v)), 'str')
        return StrExec.eval(self, e, env)

    def cond_value(self, e, env):
        if isinstance(e, ast.Compare) and len(e.ops) == 1 and isinstance(e.ops[0], (ast.Is, ast.IsNot)) \
                and isinstance(e.comparators[0], ast.Constant) and e.comparators[0].value is None:
            a = self.eval(e.left, env)
            isnone = isinstance(a, Const) and a.v is None
            if isnone or (isinstance(a, Sym) and a.ty.startswith('lit:')): return Const(isnone == isinstance(e.ops[0], ast.Is))
        if isinstance(e, ast.Attribute):
            v = self.eval(e, env)
            if isinstance(v, Sym) and v.ty == 'bool': return v
        return StrExec.cond_value(self, e, env)


CLASSES = [('pony/orm/sqlbuilding.py', 'Value.__str__', 'value'),
           ('pony/orm/dbproviders/sqlite.py', 'SQLiteValue.__str__', 'sqlite_value'),
           ('pony/orm/dbproviders/mysql.py', 'MySQLValue.__str__', 'mysql_value'),
           ('pony/orm/dbproviders/postgres.py', 'PGValue.__str__', 'pg_value')]


def tr_one(rel, qual, prefix, kind):
    fdef, _, ln = load_function(rel, qual)
    names = [a.arg for a in fdef.args.args]
    if len(names) != 1: raise TranslateError('%s: signature changed' % qual)
    ex = LitExec(LitSpec(names[0], kind, 'value'))
    body = ex.run(fdef.body, {names[0]: Sym('<self>', 'self')}, lambda e: ex.spec.fallthrough(ex, e))
    ty = KINDS[kind][1]
    sig = '(style : paramstyle)' + ('' if ty is None else ' (value : %s)' % ty)
    return '%s\nDefinition %s_%s %s : str :=\n%s.\n' % (header(rel, ln, qual, ', path taken by a value of kind %s' % kind), prefix, kind, sig, body)


def generate():
    out = ['(* GENERATED by tools/py2coq/c06lit.py from /repo on every run -- do not edit *)',
           'Require Import PonyV.Base.PyBase PonyV.Model.C07Base PonyV.Model.C07Fmt PonyV.Gen.C07Codec PonyV.Model.C07Codec',
           '               PonyV.Model.C06Str PonyV.Model.C06Lex PonyV.Model.C06Params PonyV.Gen.C06Quote PonyV.Model.C06Lit.', '']
    for rel, qual, prefix in CLASSES:
        for kind in ('none', 'bool', 'int', 'floatint', 'decimal', 'datetime', 'date', 'timedelta'):
            if prefix == 'sqlite_value' and kind == 'timedelta': kind = 'timedelta_days'      # SQLite renders a float of days: whole days only
            out.append(tr_one(rel, qual, prefix, kind))
    return '\n'.join(out)


if __name__ == '__main__':
    print(generate())
