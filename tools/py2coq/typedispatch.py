"""Tie A for C08 (type checks): which Python types each converter's `validate` accepts, coerces or refuses.

For every converter class of pony/orm/dbapiprovider.py and every *representative value* of a Python type (int, bool, float,
numeric str, other str, bytes, Decimal, date, datetime, time, timedelta, UUID, list, an arbitrary object) the source of
`validate` is interpreted statement by statement (read with `ast` from /repo on every run):

  * `isinstance(val, T)` / `hasattr(val, name)` tests are decided by the real class hierarchy (names resolved in the
    module's own namespace), conversions (`int(val)`, `float(val)`, `Decimal(val)`, `str2date(val)`, `UUID(hex=val)`,
    `val.date()` ...) are evaluated on the representative, `try/except` is followed;
  * `throw(TypeError|ValueError, ...)` ends with a refusal of that class, `return e` / falling through with acceptance
    (the type of the accepted value is recorded);
  * the first statement that depends on the *declaration* (bounds, max_len, precision, autostrip, ...) ends the type
    dispatch with acceptance: those checks are the subject of the other C08 theorems.

The result is the table `type_dispatch : convkind -> pytag -> tyout` in coq/Gen/C08Conv.v; Proofs/C08Proofs.v proves it equal to
the documented table `type_spec` (Model/C08Spec.v), from which "accepted only if the value has (or is coercible to) the
declared type" follows per converter.  Any statement the interpreter does not understand raises TranslateError.
"""
import ast, datetime, decimal, importlib, os, sys, uuid
import vlib
from vlib import TranslateError
from py2coq.core import load_function

CONVERTERS = [('CBool', 'BoolConverter'), ('CStr', 'StrConverter'), ('CInt', 'IntConverter'), ('CReal', 'RealConverter'),
              ('CDecimal', 'DecimalConverter'), ('CBlob', 'BlobConverter'), ('CDate', 'DateConverter'), ('CTime', 'TimeConverter'),
              ('CTimedelta', 'TimedeltaConverter'), ('CDatetime', 'DatetimeConverter'), ('CUuid', 'UuidConverter')]

def samples():
    return [('TgInt', 5), ('TgBool', True), ('TgFloat', 1.5), ('TgStrNum', '12'), ('TgStrText', 'x'), ('TgBytes', b'0123456789abcdef'),
            ('TgDecimal', decimal.Decimal('1.5')), ('TgDate', datetime.date(2020, 1, 2)), ('TgDatetime', datetime.datetime(2020, 1, 2, 3, 4, 5)),
            ('TgTime', datetime.time(1, 2, 3)), ('TgTimedelta', datetime.timedelta(1, 2, 3)), ('TgUuid', uuid.UUID(int=1)), ('TgList', [1]),
            ('TgOther', object())]


def tag_of(v):
    if isinstance(v, bool): return 'TgBool'
    if isinstance(v, int): return 'TgInt'
    if isinstance(v, float): return 'TgFloat'
    if isinstance(v, str): return 'TgStrText'
    if isinstance(v, (bytes, memoryview, bytearray)): return 'TgBytes'
    if isinstance(v, decimal.Decimal): return 'TgDecimal'
    if isinstance(v, datetime.datetime): return 'TgDatetime'
    if isinstance(v, datetime.date): return 'TgDate'
    if isinstance(v, datetime.time): return 'TgTime'
    if isinstance(v, datetime.timedelta): return 'TgTimedelta'
    if isinstance(v, uuid.UUID): return 'TgUuid'
    if isinstance(v, list): return 'TgList'
    return 'TgOther'


class Undecidable(Exception): pass
class Thrown(Exception):
    def __init__(self, cls): self.cls = cls


class FakeConverter(object):
    """Stands for `converter`: only `.attr` (a bound attribute, not None) may be read during the type dispatch."""
    attr = 'ATTR'
    def __getattr__(self, name):
        raise Undecidable(name)


def module_namespace():
    repo = vlib.REPO
    if repo not in sys.path: sys.path.insert(0, repo)
    mod = importlib.import_module('pony.orm.dbapiprovider')
    if not os.path.abspath(mod.__file__).startswith(os.path.abspath(repo)):
        raise TranslateError('pony.orm.dbapiprovider was imported from %s, not from %s' % (mod.__file__, repo))
    return dict(vars(mod))


class Interp(object):
    def __init__(self, ns, selfname, sample):
        def throw(cls, *a, **k): raise Thrown(cls)
        self.env = dict(ns); self.env.update({selfname: FakeConverter(), 'val': sample, 'obj': None, 'throw': throw})

    def ev(self, node):
        code = compile(ast.fix_missing_locations(ast.Expression(body=node)), '<validate>', 'eval')
        return eval(code, self.env)

    def run(self, stmts):
        """-> ('accept', value) | ('reject', exception class)"""
        for s in stmts:
            try:
                r = self.stmt(s)
            except Undecidable:
                return ('accept', self.env['val'])          # a declaration-dependent statement: the type dispatch is over
            if r is not None: return r
        return ('accept', self.env['val'])

    def stmt(self, s):
        if isinstance(s, ast.Pass) or (isinstance(s, ast.Expr) and isinstance(s.value, ast.Constant)): return None
        if isinstance(s, ast.If):
            return self.block(s.body if self.ev(s.test) else s.orelse)
        if isinstance(s, ast.Assign) and len(s.targets) == 1 and isinstance(s.targets[0], ast.Name):
            self.env[s.targets[0].id] = self.ev(s.value); return None
        if isinstance(s, ast.Return):
            return ('accept', self.ev(s.value) if s.value is not None else None)
        if isinstance(s, ast.Expr) and isinstance(s.value, ast.Call):
            self.ev(s.value); return None
        if isinstance(s, ast.Try) and not s.orelse and not s.finalbody:
            try:
                return self.block(s.body)
            except (Undecidable, Thrown):
                raise
            except Exception as e:
                for h in s.handlers:
                    if h.type is None or isinstance(e, self.ev(h.type)):
                        if h.name: self.env[h.name] = e
                        return self.block(h.body)
                raise
        raise TranslateError('statement not understood by the type-dispatch interpreter: %s' % ast.unparse(s)[:100])

    def block(self, stmts):
        for s in stmts:
            r = self.stmt(s)
            if r is not None: return r
        return None


EXC = {'TypeError': 1, 'ValueError': 2}

def dispatch(fdef, ns, sample):
    selfname = fdef.args.args[0].arg
    it = Interp(ns, selfname, sample)
    body = fdef.body
    try:
        r = it.run(body)
    except Thrown as t:
        r = ('reject', t.cls)
    except TranslateError:
        raise
    except Exception as e:                       # an exception of a conversion that validate does not catch
        r = ('reject', type(e))
    if r[0] == 'accept': return '(TyAccept %s)' % tag_of(r[1])
    name = r[1].__name__ if isinstance(r[1], type) else str(r[1])
    for k in ('TypeError', 'ValueError'):
        if isinstance(r[1], type) and issubclass(r[1], getattr(__builtins__, k) if not isinstance(__builtins__, dict) else __builtins__[k]):
            return '(TyReject %d)' % EXC[k]
    return '(TyReject 9)'


def table():
    ns = module_namespace()
    rows = {}
    for ck, cls in CONVERTERS:
        fdef, src, lineno = load_function('pony/orm/dbapiprovider.py', cls + '.validate')
        names = [a.arg for a in fdef.args.args]
        if names[1:] != ['val', 'obj']: raise TranslateError('%s.validate: signature changed: %r' % (cls, names))
        rows[ck] = (lineno, [(tag, dispatch(fdef, ns, sample)) for tag, sample in samples()])
    return rows


def generate():
    rows = table()
    out = ['(* type dispatch of the converters\' validate methods, interpreted from pony/orm/dbapiprovider.py on one representative value per Python type *)',
           'Definition type_dispatch (c : convkind) (t : pytag) : tyout :=', '  match c, t with']
    for ck, cls in CONVERTERS:
        lineno, row = rows[ck]
        out.append('  (* %s.validate, line %d *)' % (cls, lineno))
        for tag, o in row:
            out.append('  | %s, %s => %s' % (ck, tag, o))
    out.append('  end.')
    return '\n'.join(out) + '\n'


if __name__ == '__main__':
    print(generate())
