"""Tie A for C18: the decision-relevant facts of the Flask and Bottle integrations and of
DBSessionContextManager._commit_or_rollback, read from /repo's current source -> coq/Gen/C18Web.v

  pony/flask/__init__.py      _exit_session: which arguments reach session.__exit__  -> flask_passes_exc_type : bool
                              _enter_session: the session is db_session() (the global, default options)
  bottle_plugin.py            is_allowed_exception (isinstance formula)               -> bottle_is_allowed
                              PonyPlugin.apply: db_session(allowed_exceptions=is_allowed_exception)(callback)
  pony/orm/core.py            _commit_or_rollback: the can_commit decision            -> can_commit_src

Fail-closed: any shape other than the ones understood here raises TranslateError.
"""
import ast
from py2coq.core import load_function, TranslateError


def _only(stmts):
    return [s for s in stmts if not (isinstance(s, ast.Expr) and isinstance(s.value, ast.Constant))]


def flask_facts():
    fdef, src, line = load_function('pony/flask/__init__.py', '_exit_session')
    if [a.arg for a in fdef.args.args] != ['exception']:
        raise TranslateError('_exit_session: signature changed')
    calls = [n for n in ast.walk(fdef) if isinstance(n, ast.Call) and isinstance(n.func, ast.Attribute) and n.func.attr == '__exit__']
    if not calls:
        raise TranslateError('_exit_session: no call of __exit__ found')
    verdicts = set()
    for c in calls:
        first = None
        if c.args: first = c.args[0]
        for kw in c.keywords:
            if kw.arg is None: raise TranslateError('_exit_session: **kwargs in the __exit__ call')
            if kw.arg == 'exc_type': first = kw.value
        if first is None:
            verdicts.add(False)
        else:
            txt = ast.unparse(first)
            # accepted spellings of "the type of the exception (or None)"
            ok = ('type(exception)' in txt or 'exception.__class__' in txt or txt in ('exc_type', 'etype', 'exception_type'))
            if not ok: raise TranslateError('_exit_session: cannot tell what is passed as exc_type: %s' % txt)
            verdicts.add(True)
    # a call without the type on the path where an exception is present decides
    passes = False not in verdicts
    if len(verdicts) == 2:
        # typical repair: `if exception is None: session.__exit__() else: session.__exit__(type(exception), exception, ...)`
        ifs = [n for n in ast.walk(fdef) if isinstance(n, ast.If)]
        good = False
        for n in ifs:
            t = ast.unparse(n.test)
            if t in ('exception is None', 'exception is not None', 'exception', 'not exception'):
                none_branch = n.body if t in ('exception is None', 'not exception') else n.orelse
                exc_branch = n.orelse if t in ('exception is None', 'not exception') else n.body
                def has_typed(stmts):
                    for s in stmts:
                        for c in ast.walk(s):
                            if isinstance(c, ast.Call) and isinstance(c.func, ast.Attribute) and c.func.attr == '__exit__':
                                return bool(c.args) or any(k.arg == 'exc_type' for k in c.keywords)
                    return None
                if has_typed(exc_branch) is True and has_typed(none_branch) in (False, None): good = True
        if not good: raise TranslateError('_exit_session: mixed __exit__ calls that this translator cannot order')
        passes = True
    e_def, _, eline = load_function('pony/flask/__init__.py', '_enter_session')
    etxt = ast.unparse(e_def)
    if 'db_session()' not in etxt or '__enter__()' not in etxt:
        raise TranslateError('_enter_session: no longer `session = db_session(); session.__enter__()`')
    return passes, line


def isinst_formula(e, var):
    """isinstance(var, C) / and / or / not  ->  Coq bool term over predicates isinst_<C>."""
    if isinstance(e, ast.BoolOp):
        parts = [isinst_formula(x, var) for x in e.values]
        op = 'andb' if isinstance(e.op, ast.And) else 'orb'
        out = parts[0]
        for p in parts[1:]: out = '(%s %s %s)' % (op, out, p)
        return out
    if isinstance(e, ast.UnaryOp) and isinstance(e.op, ast.Not):
        return '(negb %s)' % isinst_formula(e.operand, var)
    if isinstance(e, ast.Call) and isinstance(e.func, ast.Name) and e.func.id == 'isinstance' and len(e.args) == 2 \
            and isinstance(e.args[0], ast.Name) and e.args[0].id == var and isinstance(e.args[1], ast.Name) \
            and e.args[1].id in ('HTTPResponse', 'HTTPError'):
        return '(isinst_%s %s)' % (e.args[1].id, var)
    if isinstance(e, ast.Constant) and isinstance(e.value, bool):
        return 'true' if e.value else 'false'
    raise TranslateError('is_allowed_exception: expression not in subset: %s' % ast.unparse(e))


def bottle_facts():
    fdef, src, line = load_function('pony/orm/integration/bottle_plugin.py', 'is_allowed_exception')
    if len(fdef.args.args) != 1: raise TranslateError('is_allowed_exception: signature changed')
    var = fdef.args.args[0].arg
    body = _only(fdef.body)
    if len(body) != 1 or not isinstance(body[0], ast.Return):
        raise TranslateError('is_allowed_exception: body is not a single return')
    formula = isinst_formula(body[0].value, var)
    adef, _, aline = load_function('pony/orm/integration/bottle_plugin.py', 'PonyPlugin.apply')
    body = _only(adef.body)
    if len(body) != 1 or not isinstance(body[0], ast.Return):
        raise TranslateError('PonyPlugin.apply: body is not a single return')
    c = body[0].value
    ok = (isinstance(c, ast.Call) and len(c.args) == 1 and isinstance(c.args[0], ast.Name) and c.args[0].id == 'callback'
          and not c.keywords and isinstance(c.func, ast.Call) and isinstance(c.func.func, ast.Name) and c.func.func.id == 'db_session'
          and not c.func.args)
    if not ok: raise TranslateError('PonyPlugin.apply: not db_session(<options>)(callback)')
    retry = 0
    allowed_is_pred = False
    for kw in c.func.keywords:
        if kw.arg == 'allowed_exceptions' and isinstance(kw.value, ast.Name) and kw.value.id == 'is_allowed_exception':
            allowed_is_pred = True
        elif kw.arg == 'retry' and isinstance(kw.value, ast.Constant) and isinstance(kw.value.value, int) and kw.value.value >= 0:
            retry = kw.value.value
        else:
            raise TranslateError('PonyPlugin.apply: db_session option not in subset: %s' % ast.unparse(kw))
    return var, formula, allowed_is_pred, retry, line


def commit_decision():
    """_commit_or_rollback: recognise
         if exc_type is None: can_commit = True
         elif not callable(A): can_commit = issubclass(exc_type, tuple(A))
         else: ... can_commit = A(exc) ...
         if can_commit: commit() ... else: rollback()
       and emit  can_commit_src allowed o := match o with None => true | Some e => allowed e end,
       plus which action follows each truth value."""
    fdef, src, line = load_function('pony/orm/core.py', 'DBSessionContextManager._commit_or_rollback')
    names = [a.arg for a in fdef.args.args]
    if names[1:] != ['exc_type', 'exc', 'tb']: raise TranslateError('_commit_or_rollback: signature changed: %r' % names)
    selfn = names[0]
    body = _only(fdef.body)
    if len(body) != 1 or not isinstance(body[0], ast.Try) or body[0].handlers or body[0].orelse:
        raise TranslateError('_commit_or_rollback: body is not try/finally')
    inner = _only(body[0].body)
    if len(inner) != 2 or not all(isinstance(s, ast.If) for s in inner):
        raise TranslateError('_commit_or_rollback: expected `if <decision>` followed by `if can_commit`')
    dec, act = inner
    A = '%s.allowed_exceptions' % selfn

    def assigns_can_commit(stmts):
        """value expression assigned to can_commit in a branch (allowing an assert and a try/except wrapper)."""
        vals = []
        for s in stmts:
            if isinstance(s, ast.Assert): continue
            if isinstance(s, ast.Assign) and len(s.targets) == 1 and isinstance(s.targets[0], ast.Name) and s.targets[0].id == 'can_commit':
                vals.append(ast.unparse(s.value)); continue
            if isinstance(s, ast.Try) and not s.finalbody and not s.orelse and len(s.handlers) == 1:
                h = ast.unparse(s.handlers[0].body[0]) if s.handlers[0].body else ''
                if not h.startswith('rollback_and_reraise('): raise TranslateError('_commit_or_rollback: unexpected handler %s' % h)
                vals += assigns_can_commit(s.body); continue
            raise TranslateError('_commit_or_rollback: statement not in subset: %s' % ast.unparse(s)[:80])
        return vals

    if ast.unparse(dec.test) != 'exc_type is None' or assigns_can_commit(dec.body) != ['True']:
        raise TranslateError('_commit_or_rollback: first branch is not `if exc_type is None: can_commit = True`')
    if len(dec.orelse) != 1 or not isinstance(dec.orelse[0], ast.If):
        raise TranslateError('_commit_or_rollback: expected elif on callable(allowed_exceptions)')
    el = dec.orelse[0]
    if ast.unparse(el.test) != 'not callable(%s)' % A:
        raise TranslateError('_commit_or_rollback: elif test changed: %s' % ast.unparse(el.test))
    if assigns_can_commit(el.body) != ['issubclass(exc_type, tuple(%s))' % A]:
        raise TranslateError('_commit_or_rollback: class-list branch changed: %r' % assigns_can_commit(el.body))
    if assigns_can_commit(el.orelse) != ['%s(exc)' % A]:
        raise TranslateError('_commit_or_rollback: callable branch changed: %r' % assigns_can_commit(el.orelse))
    # action
    t = ast.unparse(act.test)
    if t == 'can_commit': yes, no = act.body, act.orelse
    elif t == 'not can_commit': yes, no = act.orelse, act.body
    else: raise TranslateError('_commit_or_rollback: action test changed: %s' % t)
    def first_call(stmts):
        for s in stmts:
            for n in ast.walk(s):
                if isinstance(n, ast.Call) and isinstance(n.func, ast.Name) and n.func.id in ('commit', 'rollback'):
                    return n.func.id
        return None
    a_yes, a_no = first_call(yes), first_call(no)
    if a_yes is None or a_no is None: raise TranslateError('_commit_or_rollback: a branch calls neither commit() nor rollback()')
    return a_yes, a_no, line


def generate():
    passes, fl = flask_facts()
    var, formula, allowed_is_pred, retry, bl = bottle_facts()
    a_yes, a_no, cl = commit_decision()
    act = {'commit': 'ActCommit', 'rollback': 'ActRollback'}
    out = ['(* GENERATED by tools/py2coq/c18web.py from /repo on every run -- do not edit *)',
           'Inductive action := ActCommit | ActRollback.',
           '',
           '(* pony/flask/__init__.py:%d _exit_session: does session.__exit__ receive the exception type? *)' % fl,
           'Definition flask_passes_exc_type : bool := %s.' % ('true' if passes else 'false'),
           '',
           '(* pony/orm/integration/bottle_plugin.py:%d is_allowed_exception *)' % bl,
           'Definition bottle_is_allowed {E : Type} (isinst_HTTPResponse isinst_HTTPError : E -> bool) (%s : E) : bool :=\n  %s.' % (var, formula),
           'Definition bottle_allowed_is_predicate : bool := %s.' % ('true' if allowed_is_pred else 'false'),
           'Definition bottle_retry : nat := %d.' % retry,
           '',
           '(* pony/orm/core.py:%d DBSessionContextManager._commit_or_rollback: decision and the action taken on each side *)' % cl,
           'Definition can_commit_src {E : Type} (allowed : E -> bool) (exc : option E) : bool :=\n  match exc with None => true | Some e => allowed e end.',
           'Definition action_src (can_commit : bool) : action := if can_commit then %s else %s.' % (act[a_yes], act[a_no]),
           '']
    return '\n'.join(out)


if __name__ == '__main__':
    print(generate())
