"""py2coq core: a fail-closed translator from a small subset of Python (read with `ast` from /repo's
current sources) to Gallina text.  Method: symbolic execution with path splitting.

    if c: A else: B; rest     |->   if [c] then [A; rest] else [B; rest]
    x[0] == 'TAG' (x opaque)  |->   match x with STag .. => .. | _ => ..
    x is None     (x option)  |->   match x with None => .. | Some x' => ..

Values known at translation time (string tags, list literals, Python constants) are folded; anything outside the
subset raises TranslateError, which the check treats like a broken proof (DESIGN 2.1).  A per-function *spec*
(a small Python class, see stringslice.py) says what the parameters are and how attribute reads, calls and
raises are to be understood.

Symbolic values
    Const(v)           Python constant (None, bool, int, str)
    Tuple(items) / List(items)
    Node(tag, args)    list literal whose head is a string constant: Pony's SQL AST node
    Sym(coq, ty)       opaque Coq term of Coq type ty ('Z', 'bool', 'sx', 'option sx', 'option Z', ...)
    Undef(name)        a variable not assigned on this path
"""
import ast, os, textwrap, inspect

import vlib
from vlib import TranslateError


class Const(object):
    def __init__(self, v): self.v = v
    def __repr__(self): return 'Const(%r)' % (self.v,)

class Tuple(object):
    def __init__(self, items): self.items = list(items)

class List(object):
    def __init__(self, items): self.items = list(items)

class Node(object):
    def __init__(self, tag, args): self.tag = tag; self.args = list(args)

class Sym(object):
    def __init__(self, coq, ty, facts=None):
        self.coq = coq; self.ty = ty
        self.facts = facts or {}      # e.g. {'nottag': {'VALUE'}} for an sx known not to be a VALUE node
    def __repr__(self): return 'Sym(%s : %s)' % (self.coq, self.ty)

class Undef(object):
    def __init__(self, name): self.name = name


def load_function(relpath, qualname):
    """Return (FunctionDef node, source segment, lineno) of Class.method / function in REPO/relpath."""
    path = os.path.join(vlib.REPO, relpath)
    try:
        src = open(path).read()
        tree = ast.parse(src)
    except (IOError, SyntaxError) as e:
        raise TranslateError('cannot read/parse %s: %s' % (relpath, e))
    parts = qualname.split('.')
    body = tree.body
    node = None
    for i, p in enumerate(parts):
        found = None
        for n in body:
            if isinstance(n, (ast.FunctionDef, ast.ClassDef)) and n.name == p:
                found = n     # last definition wins, as in Python
        if found is None:
            raise TranslateError('%s: %s not found' % (relpath, qualname))
        node = found
        body = found.body
    return node, ast.get_source_segment(src, node), node.lineno


def load_class(relpath, name):
    return load_function(relpath, name)


class Spec(object):
    """Override in per-function specs."""
    Z_ARITH = True
    def param(self, name):            # -> symbolic value for a formal parameter
        raise TranslateError('no spec for parameter %r' % name)
    def attribute(self, ex, base, attr, node):    # value of  <base>.<attr>
        raise TranslateError('attribute read not in subset: %s' % ast.dump(node))
    def call(self, ex, node, env):                # value of a call expression
        raise TranslateError('call not in subset: %s' % ast.unparse(node))
    def emit_node(self, ex, n):                   # Coq text for an SQL AST Node
        raise TranslateError('no constructor for node %r' % n.tag)
    def emit_return(self, ex, v):
        return ex.emit(v)
    def emit_raise(self, ex, node, env):
        raise TranslateError('raise not in subset: %s' % ast.unparse(node))
    def emit_undef(self, ex, name):
        raise TranslateError('variable %r may be used before assignment' % name)
    def emit_assert_false(self, ex):
        raise TranslateError('assert False reached on a path that is not statically dead')
    def fallthrough(self, ex, env):               # function body ended without return
        raise TranslateError('function may fall off its end')
    def tag_pattern(self, ex, tag, varname, xcoq): # -> (Coq pattern, Node value bound by it, scrutinee term)
        raise TranslateError('no pattern for tag %r' % tag)
    def stmt_call(self, ex, node, env):           # expression statement that is a call
        raise TranslateError('call statement not in subset: %s' % ast.unparse(node))


class Exec(object):
    def __init__(self, spec):
        self.spec = spec
        self.fresh = 0

    def gensym(self, base):
        self.fresh += 1
        return '%s_%d' % (base, self.fresh)

    # ---------------------------------------------------------------- emission
    def emit(self, v, ty=None):
        if isinstance(v, Sym): return v.coq
        if isinstance(v, Node): return self.spec.emit_node(self, v)
        if isinstance(v, Const):
            if v.v is None: return 'None'
            if v.v is True: return 'true'
            if v.v is False: return 'false'
            if isinstance(v.v, int): return vlib.cz(v.v)
            if isinstance(v.v, str): return '"%s"' % v.v.replace('"', '""')
        if isinstance(v, Undef): return self.spec.emit_undef(self, v.name)
        raise TranslateError('cannot emit %r' % (v,))

    def emit_opt(self, v):
        """Emit at an option type: None -> None, x -> Some x, option-typed Sym as is."""
        if isinstance(v, Const) and v.v is None: return 'None'
        if isinstance(v, Sym) and v.ty.startswith('option'): return v.coq
        return '(Some %s)' % self.emit(v)

    def zterm(self, v):
        if isinstance(v, Const) and isinstance(v.v, int) and not isinstance(v.v, bool): return vlib.cz(v.v)
        if isinstance(v, Sym) and v.ty == 'Z': return v.coq
        raise TranslateError('integer expected, got %r' % (v,))

    # ---------------------------------------------------------------- expressions
    def eval(self, e, env):
        if isinstance(e, ast.Constant):
            if isinstance(e.value, (bool, int, str)) or e.value is None: return Const(e.value)
            raise TranslateError('constant not in subset: %r' % (e.value,))
        if isinstance(e, ast.Name):
            if e.id in env: return env[e.id]
            if e.id in ('True', 'False', 'None'): return Const({'True': True, 'False': False, 'None': None}[e.id])
            raise TranslateError('unknown name %r' % e.id)
        if isinstance(e, ast.List):
            items = [self.eval(x, env) for x in e.elts]
            if items and isinstance(items[0], Const) and isinstance(items[0].v, str) and items[0].v.isupper():
                return Node(items[0].v, items[1:])
            return List(items)
        if isinstance(e, ast.Tuple):
            return Tuple([self.eval(x, env) for x in e.elts])
        if isinstance(e, ast.Subscript):
            base = self.eval(e.value, env)
            idx = self.eval(e.slice, env)
            if not (isinstance(idx, Const) and isinstance(idx.v, int)):
                raise TranslateError('subscript index must be a constant: %s' % ast.unparse(e))
            if isinstance(base, Node):
                if idx.v == 0: return Const(base.tag)
                if 1 <= idx.v <= len(base.args): return base.args[idx.v - 1]
                raise TranslateError('index out of range in %s' % ast.unparse(e))
            if isinstance(base, (Tuple, List)):
                try: return base.items[idx.v]
                except IndexError: raise TranslateError('index out of range in %s' % ast.unparse(e))
            raise TranslateError('subscript of opaque value outside a tag test: %s' % ast.unparse(e))
        if isinstance(e, ast.UnaryOp):
            v = self.eval(e.operand, env)
            if isinstance(e.op, ast.USub):
                if isinstance(v, Const) and isinstance(v.v, int): return Const(-v.v)
                return Sym('(- %s)' % self.zterm(v), 'Z')
            if isinstance(e.op, ast.Not):
                if isinstance(v, Const): return Const(not v.v)
                if isinstance(v, Sym) and v.ty == 'bool': return Sym('(negb %s)' % v.coq, 'bool')
            raise TranslateError('unary op not in subset: %s' % ast.unparse(e))
        if isinstance(e, ast.BinOp):
            a, b = self.eval(e.left, env), self.eval(e.right, env)
            ops = {ast.Add: ('+', lambda x, y: x + y), ast.Sub: ('-', lambda x, y: x - y), ast.Mult: ('*', lambda x, y: x * y)}
            for k, (sym, fn) in ops.items():
                if isinstance(e.op, k):
                    if isinstance(a, Const) and isinstance(b, Const) and isinstance(a.v, int) and isinstance(b.v, int):
                        return Const(fn(a.v, b.v))
                    return Sym('(%s %s %s)' % (self.zterm(a), sym, self.zterm(b)), 'Z')
            if isinstance(e.op, ast.FloorDiv):
                return Sym('(py_floordiv %s %s)' % (self.zterm(a), self.zterm(b)), 'Z')
            if isinstance(e.op, ast.Mod) and not (isinstance(a, Const) and isinstance(a.v, str)):
                return Sym('(py_mod %s %s)' % (self.zterm(a), self.zterm(b)), 'Z')
            if isinstance(e.op, ast.Pow) and isinstance(a, Const) and isinstance(b, Const):
                return Const(a.v ** b.v)
            raise TranslateError('binary op not in subset: %s' % ast.unparse(e))
        if isinstance(e, ast.IfExp):
            res = []
            def kt(env2): res.append(('t', self.eval(e.body, env2))); return ''
            def kf(env2): res.append(('f', self.eval(e.orelse, env2))); return ''
            c = self.cond_value(e.test, env)
            if isinstance(c, Const):
                return self.eval(e.body if c.v else e.orelse, env)
            a, b = self.eval(e.body, env), self.eval(e.orelse, env)
            ty = a.ty if isinstance(a, Sym) else (b.ty if isinstance(b, Sym) else 'sx')
            return Sym('(if %s then %s else %s)' % (c.coq, self.emit(a), self.emit(b)), ty)
        if isinstance(e, ast.Attribute):
            return self.spec.attribute(self, e, e.value, e.attr, e)
        if isinstance(e, ast.Call):
            return self.spec.call(self, e, env)
        if isinstance(e, (ast.Compare, ast.BoolOp)):
            return self.cond_value(e, env)
        raise TranslateError('expression not in subset: %s' % ast.unparse(e))

    def cond_value(self, e, env):
        """A condition in value position: must be a constant or a plain boolean term (no matching)."""
        if isinstance(e, ast.BoolOp):
            vals = [self.cond_value(x, env) for x in e.values]
            isand = isinstance(e.op, ast.And)
            out = None
            for v in vals:
                if isinstance(v, Const):
                    if bool(v.v) != isand:      # absorbing element
                        return Const(not isand) if out is None else Sym('(%s %s %s)' % ('andb' if isand else 'orb', out.coq, 'false' if isand else 'true'), 'bool')
                    continue
                out = v if out is None else Sym('(%s %s %s)' % ('andb' if isand else 'orb', out.coq, v.coq), 'bool')
            return Const(isand) if out is None else out
        if isinstance(e, ast.UnaryOp) and isinstance(e.op, ast.Not):
            v = self.cond_value(e.operand, env)
            return Const(not v.v) if isinstance(v, Const) else Sym('(negb %s)' % v.coq, 'bool')
        if isinstance(e, ast.Compare) and len(e.ops) == 1:
            a, b = self.eval(e.left, env), self.eval(e.comparators[0], env)
            op = e.ops[0]
            if isinstance(a, Const) and isinstance(b, Const):
                tbl = {ast.Eq: lambda x, y: x == y, ast.NotEq: lambda x, y: x != y, ast.Lt: lambda x, y: x < y,
                       ast.LtE: lambda x, y: x <= y, ast.Gt: lambda x, y: x > y, ast.GtE: lambda x, y: x >= y,
                       ast.Is: lambda x, y: x is y, ast.IsNot: lambda x, y: x is not y}
                for k, fn in tbl.items():
                    if isinstance(op, k): return Const(fn(a.v, b.v))
            if isinstance(op, (ast.Is, ast.IsNot)) and isinstance(b, Const) and b.v is None:
                if isinstance(a, (Node, Tuple, List)) or (isinstance(a, Sym) and not a.ty.startswith('option')):
                    return Const(isinstance(op, ast.IsNot))
                if isinstance(a, Sym):
                    t = '(match %s with None => true | Some _ => false end)' % a.coq
                    return Sym(t if isinstance(op, ast.Is) else '(negb %s)' % t, 'bool')
            ztbl = {ast.Eq: '=?', ast.Lt: '<?', ast.LtE: '<=?', ast.Gt: '>?', ast.GtE: '>=?'}
            for k, sym in ztbl.items():
                if isinstance(op, k):
                    if isinstance(a, Sym) and a.ty == 'bool' and isinstance(b, Const) and isinstance(b.v, bool):
                        return a if b.v else Sym('(negb %s)' % a.coq, 'bool')
                    return Sym('(%s %s %s)' % (self.zterm(a), sym, self.zterm(b)), 'bool')
            if isinstance(op, ast.NotEq):
                return Sym('(negb (%s =? %s))' % (self.zterm(a), self.zterm(b)), 'bool')
        v = self.eval(e, env) if not isinstance(e, (ast.Compare, ast.BoolOp)) else None
        if isinstance(v, Const): return Const(bool(v.v))
        if isinstance(v, Sym) and v.ty == 'bool': return v
        raise TranslateError('condition not in subset: %s' % ast.unparse(e))

    # ---------------------------------------------------------------- branching with pattern matching
    def branch(self, test, env, kt, kf):
        """Coq text for `if test: kt(env') else: kf(env'')`; env copies carry what the test taught us."""
        if isinstance(test, ast.BoolOp):
            vals = test.values
            if isinstance(test.op, ast.And):
                def chain(i, env_i):
                    if i == len(vals): return kt(env_i)
                    return self.branch(vals[i], env_i, lambda e2: chain(i + 1, e2), kf)
                return chain(0, env)
            else:
                def chain(i, env_i):
                    if i == len(vals): return kf(env_i)
                    return self.branch(vals[i], env_i, kt, lambda e2: chain(i + 1, e2))
                return chain(0, env)
        if isinstance(test, ast.UnaryOp) and isinstance(test.op, ast.Not):
            return self.branch(test.operand, env, kf, kt)
        if isinstance(test, ast.Compare) and len(test.ops) == 1:
            op, left, right = test.ops[0], test.left, test.comparators[0]
            # x is None / x is not None on an option-typed variable
            if isinstance(op, (ast.Is, ast.IsNot)) and isinstance(right, ast.Constant) and right.value is None \
                    and isinstance(left, ast.Name) and isinstance(env.get(left.id), Sym) and env[left.id].ty.startswith('option '):
                x = env[left.id]
                inner = self.gensym(left.id)
                e_none = dict(env); e_none[left.id] = Const(None)
                e_some = dict(env); e_some[left.id] = Sym(inner, x.ty[len('option '):])
                a, b = (kt, kf) if isinstance(op, ast.Is) else (kf, kt)
                return '(match %s with\n | None => %s\n | Some %s => %s\n end)' % (x.coq, a(e_none), inner, b(e_some))
            # x[0] == 'TAG' on an opaque sx variable
            if isinstance(op, (ast.Eq, ast.NotEq)) and isinstance(left, ast.Subscript) and isinstance(left.value, ast.Name) \
                    and isinstance(left.slice, ast.Constant) and left.slice.value == 0 \
                    and isinstance(right, ast.Constant) and isinstance(right.value, str):
                x = env.get(left.value.id)
                tag = right.value
                if isinstance(x, Sym) and x.ty == 'sx':
                    a, b = (kt, kf) if isinstance(op, ast.Eq) else (kf, kt)
                    if tag in x.facts.get('nottag', ()):
                        return b(env)
                    pat, node, scrut = self.spec.tag_pattern(self, tag, left.value.id, x.coq)
                    e_yes = dict(env); e_yes[left.value.id] = node
                    e_no = dict(env); e_no[left.value.id] = Sym(x.coq, 'sx', {'nottag': set(x.facts.get('nottag', ())) | {tag}})
                    return '(match %s with\n | %s => %s\n | _ => %s\n end)' % (scrut, pat, a(e_yes), b(e_no))
        iv = self.interval_test(test, env)
        if iv is not None:
            name, lo_t, hi_t, lo_f, hi_f = iv      # intervals of `name` on the true / false side (None = unbounded)
            cur = env.get('__iv__', {}).get(name, (None, None))
            it, if_ = self.meet(cur, (lo_t, hi_t)), self.meet_not(cur, iv)
            if it is None: return kf(env)            # test cannot be true on this path
            if if_ is None: return kt(env)           # test cannot be false on this path
            c = self.cond_value(test, env)
            et = dict(env); et['__iv__'] = dict(env.get('__iv__', {})); et['__iv__'][name] = it
            ef = dict(env); ef['__iv__'] = dict(env.get('__iv__', {})); ef['__iv__'][name] = if_
            return '(if %s\n then %s\n else %s)' % (c.coq, kt(et), kf(ef))
        c = self.cond_value(test, env)
        if isinstance(c, Const):
            return kt(env) if c.v else kf(env)
        return '(if %s\n then %s\n else %s)' % (c.coq, kt(env), kf(env))

    # interval facts about atomic integer variables compared with constants (prunes statically dead paths)
    def interval_test(self, test, env):
        import re
        if not (isinstance(test, ast.Compare) and len(test.ops) == 1): return None
        try:
            a, b = self.eval(test.left, env), self.eval(test.comparators[0], env)
        except TranslateError:
            return None
        if not (isinstance(a, Sym) and a.ty == 'Z' and re.match(r'^\w+$', a.coq) and isinstance(b, Const)
                and isinstance(b.v, int) and not isinstance(b.v, bool)): return None
        c, op = b.v, test.ops[0]
        if isinstance(op, ast.Lt): return (a.coq, None, c - 1, c, None)
        if isinstance(op, ast.LtE): return (a.coq, None, c, c + 1, None)
        if isinstance(op, ast.Gt): return (a.coq, c + 1, None, None, c)
        if isinstance(op, ast.GtE): return (a.coq, c, None, None, c - 1)
        return None

    @staticmethod
    def meet(cur, new):
        lo = cur[0] if new[0] is None else (new[0] if cur[0] is None else max(cur[0], new[0]))
        hi = cur[1] if new[1] is None else (new[1] if cur[1] is None else min(cur[1], new[1]))
        if lo is not None and hi is not None and lo > hi: return None
        return (lo, hi)

    def meet_not(self, cur, iv):
        return self.meet(cur, (iv[3], iv[4]))

    # ---------------------------------------------------------------- statements
    def run(self, stmts, env, k):
        if not stmts: return k(env)
        s, rest = stmts[0], stmts[1:]
        if isinstance(s, ast.Expr) and isinstance(s.value, ast.Constant):      # docstring
            return self.run(rest, env, k)
        if isinstance(s, ast.Pass):
            return self.run(rest, env, k)
        if isinstance(s, ast.Assign):
            v = self.eval(s.value, env)
            env = dict(env)
            for t in s.targets:
                self.assign(t, v, env)
            return self.run(rest, env, k)
        if isinstance(s, ast.AugAssign) and isinstance(s.target, ast.Name):
            v = self.eval(ast.BinOp(left=ast.Name(id=s.target.id, ctx=ast.Load()), op=s.op, right=s.value), env)
            env = dict(env); env[s.target.id] = v
            return self.run(rest, env, k)
        if isinstance(s, ast.If):
            return self.branch(s.test, env,
                               lambda e2: self.run(s.body, e2, lambda e3: self.run(rest, e3, k)),
                               lambda e2: self.run(s.orelse, e2, lambda e3: self.run(rest, e3, k)))
        if isinstance(s, ast.Return):
            v = Const(None) if s.value is None else self.eval(s.value, env)
            return self.spec.emit_return(self, v)
        if isinstance(s, ast.Assert):
            c = self.cond_value(s.test, env)
            if isinstance(c, Const):
                if c.v: return self.run(rest, env, k)
                return self.spec.emit_assert_false(self)
            return self.run(rest, env, k)      # symbolic asserts are not part of the model
        if isinstance(s, ast.Raise):
            return self.spec.emit_raise(self, s, env)
        if isinstance(s, ast.Expr) and isinstance(s.value, ast.Call):
            r = self.spec.stmt_call(self, s.value, env)
            if r is not None and r[0] == 'stop': return r[1]
            if r is not None and r[0] == 'env': return self.run(rest, r[1], k)
            return self.run(rest, env, k)
        raise TranslateError('statement not in subset (line %s): %s' % (getattr(s, 'lineno', '?'), ast.unparse(s)[:120]))

    def assign(self, target, v, env):
        if isinstance(target, ast.Name):
            env[target.id] = v
        elif isinstance(target, ast.Tuple) and isinstance(v, (Tuple, List)) and len(v.items) == len(target.elts):
            for t, x in zip(target.elts, v.items): self.assign(t, x, env)
        elif isinstance(target, ast.Attribute) and isinstance(target.value, ast.Name):
            env['%s.%s' % (target.value.id, target.attr)] = v
        else:
            raise TranslateError('assignment target not in subset: %s' % ast.unparse(target))

    def function(self, fdef, skip_self=True):
        """Translate a FunctionDef body; returns Coq text of the body term. Parameters come from spec.param."""
        env = {}
        args = fdef.args
        if args.vararg or args.kwarg or args.kwonlyargs:
            raise TranslateError('signature not in subset')
        names = [a.arg for a in args.args]
        for i, n in enumerate(names):
            if i == 0 and skip_self:
                env[n] = Sym('<self>', 'self')
                continue
            env[n] = self.spec.param(n)
        env['__names__'] = names
        return self.run(fdef.body, env, lambda e: self.spec.fallthrough(self, e))
