"""C29 implementation driver: real Pony JSON / array helpers and end-to-end queries on SQLite (JSON1 and forced fallback)."""
import json


def real_funcs():
    from pony.orm.sqlbuilding import SQLBuilder
    from pony.orm.dbproviders import sqlite as S
    import vlib
    vlib.stub_modules()
    from pony.orm.dbproviders.postgres import PGSQLBuilder
    return {'eval_json_path': lambda keys: SQLBuilder.eval_json_path(list(keys)),
            'pg_eval_json_path': lambda keys: PGSQLBuilder.eval_json_path(None, list(keys)),
            'parse_path': lambda p: (S.path_cache.pop(p, None), S._parse_path(p))[1],
            'traverse': S._traverse, 'py_json_contains': S.py_json_contains, 'py_json_array_length': S.py_json_array_length,
            'py_json_extract': S.py_json_extract, 'py_array_index': S.py_array_index, 'py_array_slice': S.py_array_slice,
            'dumps': S.dumps, 'SQLiteBuilder': S.SQLiteBuilder}


def nonzero_literals():
    """the literal list of SQLiteBuilder.JSON_NONZERO, read from what the real builder emits"""
    import re
    from pony.orm.dbproviders.sqlite import SQLiteBuilder
    class Cap(SQLiteBuilder):
        def __call__(b, x): return 'X'
    cap = object.__new__(Cap)
    parts = cap.JSON_NONZERO(['COLUMN', 'e', 'j'])
    text = ''.join(str(p) for p in parts)
    m = re.match(r"^X NOT IN \((.*)\)$", text.strip())
    if not m: raise ValueError('JSON_NONZERO no longer has the shape  expr NOT IN (...): %r' % text)
    lits = re.findall(r"'((?:[^']|'')*)'", m.group(1))
    return text, [l.replace("''", "'") for l in lits]


_dbs = {}

def sqlite_db(json1):
    """(db, E) on in-memory SQLite; json1=False forces the py_json_* fallback through provider.json1_available"""
    if json1 not in _dbs:
        from pony import orm
        db = orm.Database('sqlite', ':memory:')
        class E(db.Entity):
            j = orm.Optional(orm.Json)
            a = orm.Optional(orm.IntArray)
        db.generate_mapping(create_tables=True)
        have = db.provider.json1_available
        if not json1: db.provider.json1_available = False
        _dbs[json1] = (db, E, orm, have)
    return _dbs[json1]


def mock_db(provider):
    key = 'mock-' + provider
    if key not in _dbs:
        import vlib
        from pony import orm
        db = vlib.mock_database(provider)
        class E(db.Entity):
            j = orm.Optional(orm.Json)
            a = orm.Optional(orm.IntArray)
        db.generate_mapping()
        _dbs[key] = (db, E, orm, None)
    return _dbs[key]


def load_rows(json1, docs, arrays):
    """replace the table content; -> ids in order"""
    db, E, orm, _ = sqlite_db(json1)
    with orm.db_session:
        orm.delete(e for e in E)
    ids = []
    with orm.db_session:
        n = max(len(docs), len(arrays))
        for i in range(n):
            kw = {}
            if i < len(docs): kw['j'] = docs[i]
            if i < len(arrays): kw['a'] = arrays[i]
            e = E(**kw); orm.flush(); ids.append(e.id)
    return ids


def run_query(json1, src, params):
    """-> ('ok', rows) | ('exc', 'Type: message')"""
    db, E, orm, _ = sqlite_db(json1)
    g = dict(params); g['E'] = E
    with orm.db_session:
        try:
            rows = orm.select(src, g)[:]
            return 'ok', [list(r) if isinstance(r, tuple) else r for r in rows]
        except Exception as e:
            return 'exc', '%s: %s' % (type(e).__name__, str(e)[:160])


def plain(v):
    """Json results come back as plain structures or Json wrappers"""
    from pony.orm.ormtypes import Json
    if isinstance(v, Json): v = v.wrapped
    if isinstance(v, dict): return {k: plain(x) for k, x in v.items()}
    if isinstance(v, (list, tuple)): return [plain(x) for x in v]
    return v


def index_ast(provider, src, params):
    """the SQL AST of the selected expression of `src` on a mock database of `provider`"""
    db, E, orm, _ = mock_db(provider)
    g = dict(params); g['E'] = E
    with orm.db_session:
        q = orm.select(src, g)
        cols = q._translator.expr_columns
    return cols[0]


def eval_ast(x, env, length):
    """tiny evaluator for the index expressions ArrayMixin._index builds"""
    t = x[0]
    if t == 'VALUE': return x[1]
    if t == 'PARAM': return eval(x[1][0][1], {}, dict(env))
    if t == 'ADD': return eval_ast(x[1], env, length) + eval_ast(x[2], env, length)
    if t == 'SUB': return eval_ast(x[1], env, length) - eval_ast(x[2], env, length)
    if t == 'GE': return eval_ast(x[1], env, length) >= eval_ast(x[2], env, length)
    if t == 'ARRAY_LENGTH': return length
    if t == 'CASE' and x[1] is None:
        for cond, val in x[2]:
            if eval_ast(cond, env, length): return eval_ast(val, env, length)
        return eval_ast(x[3], env, length)
    raise ValueError('index AST node outside the modelled shapes: %r' % (t,))


def record_paramkeys(queries):
    """run `queries` = [(src, params)] on a fresh SQLite database while SQLBuilder.make_composite_param is wrapped (in this process only)
    -> [(src, [key item ...], [path item ...])] for every parameterised JSON path the real build_json_path registered:
    key item / path item = ['P', n] (n = number of the external expression) | ['V', value] | ['E'] | ['N' or 'S']"""
    from pony import orm
    from pony.orm.sqlbuilding import SQLBuilder, Param, Value
    db = orm.Database('sqlite', ':memory:')
    class E(db.Entity):
        j = orm.Optional(orm.Json)
        a = orm.Optional(orm.IntArray)
    db.generate_mapping(create_tables=True)
    log = []
    orig = SQLBuilder.make_composite_param
    def wrapped(builder, paramkey, items, func):
        log.append((paramkey, list(items)))
        return orig(builder, paramkey, items, func)
    SQLBuilder.make_composite_param = wrapped
    out = []
    try:
        for src, params in queries:
            del log[:]
            g = dict(params); g['E'] = E
            with orm.db_session:
                orm.select(src, g)[:]
            ids = {}
            def pid(k): return ids.setdefault(repr(k), len(ids))
            for paramkey, items in log:
                path = []
                for it in items:
                    if isinstance(it, Param): path.append(['P', pid(it.paramkey)])
                    elif it.value is Ellipsis: path.append(['E'])
                    elif type(it.value) is slice: path.append(['S'])
                    else: path.append(['V', it.value])
                key = []
                for k, it in zip(paramkey, items):
                    if isinstance(it, Param): key.append(['P', pid(k)])
                    elif k is None: key.append(['N'])
                    elif k is Ellipsis: key.append(['E'])
                    else: key.append(['V', k])
                out.append((src, key, path))
    finally:
        SQLBuilder.make_composite_param = orig
    return out


def pg_array_parse(text):
    """PostgreSQL text[] literal -> list of str / None, by the documented syntax (mirror of Model/C29Json.v pg_array; no whitespace rules)"""
    if not text.startswith('{') or not text.endswith('}'): return 'ERR'
    if text == '{}': return []
    s, i, out = text, 1, []
    while True:
        if i >= len(s): return 'ERR'
        if s[i] == '"':
            i += 1; buf = []
            while True:
                if i >= len(s): return 'ERR'
                if s[i] == '"': i += 1; break
                if s[i] == '\\':
                    if i + 1 >= len(s): return 'ERR'
                    buf.append(s[i + 1]); i += 2
                else: buf.append(s[i]); i += 1
            out.append(''.join(buf))
        else:
            j = i
            while j < len(s) and s[j] not in ',{}"\\': j += 1
            if j == i: return 'ERR'
            w = s[i:j]; i = j
            out.append(None if w.lower() == 'null' else w)
        if i >= len(s): return 'ERR'
        if s[i] == ',': i += 1; continue
        if s[i] == '}': return out if i == len(s) - 1 else 'ERR'
        return 'ERR'
