"""C07 implementation driver: real Pony (from vlib.REPO) codecs and a real write -> commit -> new session -> read sweep
on a file-backed SQLite database.  No model knowledge in here."""
import datetime as dt, os, uuid
from decimal import Decimal


def entity_spec():
    """attribute name -> (python type, args, kwargs)"""
    from pony import orm
    return {
        'b': (bool, (), {}),
        'i8': (int, (), {'size': 8}), 'i16': (int, (), {'size': 16}), 'i24': (int, (), {'size': 24}), 'i32': (int, (), {'size': 32}), 'i64': (int, (), {'size': 64}),
        'u8': (int, (), {'size': 8, 'unsigned': True}), 'u16': (int, (), {'size': 16, 'unsigned': True}), 'u32': (int, (), {'size': 32, 'unsigned': True}),
        'f': (float, (), {}),
        'd2': (Decimal, (12, 2), {}), 'd4': (Decimal, (20, 4), {}), 'd10': (Decimal, (28, 10), {}),
        's': (str, (), {}), 'sns': (str, (), {'autostrip': False}), 'ls': (orm.LongStr, (), {}),
        'by': (bytes, (), {}),
        'da': (dt.date, (), {}),
        'ti': (dt.time, (), {}), 'ti0': (dt.time, (0,), {}), 'ti3': (dt.time, (3,), {}),
        'dtm': (dt.datetime, (), {}), 'dtm0': (dt.datetime, (0,), {}), 'dtm3': (dt.datetime, (3,), {}),
        'td': (dt.timedelta, (), {}), 'td0': (dt.timedelta, (0,), {}), 'td3': (dt.timedelta, (3,), {}),
        'u': (uuid.UUID, (), {}),
        'j': (orm.Json, (), {}),
        'ia': (orm.IntArray, (), {}), 'sa': (orm.StrArray, (), {}), 'fa': (orm.FloatArray, (), {}),
    }


def make_db(path, create):
    from pony import orm
    db = orm.Database('sqlite', path, create_db=create)
    ns = {}
    for name, (ty, args, kw) in entity_spec().items():
        ns[name] = orm.Optional(ty, *args, **kw)
    T = type('T', (db.Entity,), ns)
    db.generate_mapping(create_tables=create)
    return db, T


_mem = {}

def converters():
    """attribute name -> the real converter object (in-memory SQLite mapping)."""
    if 'c' not in _mem:
        db, T = make_db(':memory:', True)
        _mem['c'] = {name: getattr(T, name).converters[0] for name in entity_spec()}
        _mem['db'] = db
    return _mem['c']


def untrack(v):
    return v.get_untracked() if hasattr(v, 'get_untracked') else v


def write_values(path, items):
    """items: list of (attr name, value).  One transaction per value.  Returns per item
    {'id', 'after': value seen in the writing session after flush/commit} or {'write_error': class name}."""
    from pony import orm
    db, T = make_db(path, True)
    out = []
    for name, v in items:
        rec = {}
        try:
            with orm.db_session:
                o = T(**{name: v})
                orm.flush()
                rec['id'] = o.id
                rec['after'] = untrack(getattr(o, name))
        except Exception as e:
            rec = {'write_error': type(e).__name__, 'msg': str(e)[:200]}
        out.append(rec)
    db.disconnect()
    return out


def read_values(path, items, recs, lookups):
    """A fresh Database object on the same file: per item {'reloaded': v} | {'read_error': ..}; plus, for the attribute names in
    `lookups`, whether T.get(id=.., attr=after-flush value) finds the row (the value used as a query parameter) and what a
    projection query returns."""
    from pony import orm
    db, T = make_db(path, False)
    out = []
    for (name, v), rec in zip(items, recs):
        r = {}
        if 'id' not in rec:
            out.append(r); continue
        try:
            with orm.db_session:
                o = T[rec['id']]
                r['reloaded'] = untrack(getattr(o, name))
        except Exception as e:
            r['read_error'] = type(e).__name__; r['msg'] = str(e)[:200]
        if 'reloaded' in r:
            try:
                with orm.db_session:
                    q = orm.select('getattr(o, name) for o in T if o.id == oid', {'T': T, 'name': name, 'oid': rec['id']})[:]
                    r['projected'] = untrack(q[0]) if len(q) == 1 else ('ROWS', len(q))
            except Exception as e:
                r['project_error'] = type(e).__name__
            if name in lookups:
                try:
                    with orm.db_session:
                        got = T.get(**{'id': rec['id'], name: rec['after']})
                        r['lookup_found'] = got is not None
                except Exception as e:
                    r['lookup_error'] = type(e).__name__; r['lookup_msg'] = str(e)[:200]
        out.append(r)
    db.disconnect()
    return out


# ------------------------------------------------------------------------------------------------ tracked Json / array values across objects

def plain(v):
    import json
    v = untrack(v)
    return json.loads(json.dumps(v))


def make_hist_db(path, create):
    from pony import orm
    db = orm.Database('sqlite', path, create_db=create)
    class H(db.Entity):
        name = orm.Required(str)
        j = orm.Optional(orm.Json)
        j2 = orm.Optional(orm.Json)
        ia = orm.Optional(orm.IntArray)
    db.generate_mapping(create_tables=create)
    return db, H


HISTORIES = ['whole', 'whole-required-edit-after-commit', 'nested-part', 'own-value', 'other-attribute', 'array-whole', 'create-with-foreign', 'whole-then-edit-source']


def run_history(path, kind):
    """Session 1 stores two rows; session 2 loads both, assigns a tracked value of `a` to `b` (whole value / nested part / ...),
    flushes, edits b's value in place, records what the program sees after the flush, commits; a fresh Database object reads the rows.
    -> list of (label, seen after flush, read by a fresh session)."""
    from pony import orm
    if os.path.exists(path): os.remove(path)
    db, H = make_hist_db(path, True)
    with orm.db_session:
        H(name='a', j={'n': 1, 'tags': ['x'], 'opts': {'a': True}}, j2={'k': [1, 2]}, ia=[1, 2, 3])
        H(name='b', j={'n': 0, 'tags': [], 'opts': {}}, j2={'k': []}, ia=[])
    seen = {}
    with orm.db_session:
        a, b = H.get(name='a'), H.get(name='b')
        a.j, b.j, a.ia, b.ia, a.j2      # load
        if kind == 'whole':
            b.j = a.j; orm.flush()
            b.j['n'] = 2; b.j['tags'].append('y'); b.j['opts']['b'] = False
        elif kind == 'whole-required-edit-after-commit':
            b.j = a.j; orm.commit()
            b.j['n'] = 3
        elif kind == 'nested-part':
            b.j = a.j['opts']; orm.flush()
            b.j['z'] = 1
        elif kind == 'own-value':
            b.j = b.j; orm.flush()
            b.j['q'] = 1
        elif kind == 'other-attribute':
            b.j = a.j2; orm.flush()
            b.j['k'].append(3)
        elif kind == 'array-whole':
            b.ia = a.ia; orm.flush()
            b.ia.append(9)
        elif kind == 'create-with-foreign':
            c = H(name='c', j=a.j); orm.flush()
            c.j['n'] = 5
        elif kind == 'whole-then-edit-source':
            b.j = a.j; orm.flush()
            a.j['n'] = 7
        orm.flush()
        for o in H.select():
            seen[o.name] = {'j': plain(o.j), 'j2': plain(o.j2), 'ia': plain(o.ia)}
        orm.commit()
    db.disconnect()
    db2, H2 = make_hist_db(path, False)
    out = []
    with orm.db_session:
        for o in H2.select():
            got = {'j': plain(o.j), 'j2': plain(o.j2), 'ia': plain(o.ia)}
            for k in ('j', 'j2', 'ia'):
                out.append(('%s.%s' % (o.name, k), seen[o.name][k], got[k]))
    db2.disconnect()
    try: os.remove(path)
    except OSError: pass
    return out


def tracked_validate_cases():
    """Real JsonConverter.validate / ArrayConverter.validate on values tracked by this / another object / another attribute.
    -> list of (conv kind, case label, target ('b'), value description (owner, attr) or None, kept as is?, (owner, attr) notified by the result)."""
    from pony import orm
    db, H = make_hist_db(':memory:', True)
    out = []
    with orm.db_session:
        a = H(name='a', j={'n': 1, 'opts': {'a': True}}, j2={'k': [1]}, ia=[1, 2])
        b = H(name='b', j={'n': 0, 'opts': {}}, j2={'k': []}, ia=[5])
        ids = {id(a): 1, id(b): 2}
        attrs = {H.j: 1, H.j2: 2, H.ia: 3}
        def who(v):
            return (ids[id(v.obj_ref())], attrs[v.attr]) if hasattr(v, 'obj_ref') else None
        jc, ac = H.j.converters[0], H.ia.converters[0]
        for label, v in (('plain', {'x': 1}), ('own', b.j), ('other-object', a.j), ('other-object-nested', a.j['opts']), ('own-nested', b.j['opts']),
                         ('other-attribute-same-object', b.j2), ('other-attribute-other-object', a.j2),
                         ('wrapped-plain', orm.Json({'x': 1})), ('wrapped-own', orm.Json(b.j)), ('wrapped-other-object', orm.Json(a.j))):
            r = jc.validate(v, b)
            inner = v.wrapped if isinstance(v, orm.Json) else v
            desc = ('W', who(inner)) if isinstance(v, orm.Json) else who(v)
            out.append(('json', label, 2, 1, desc, r is inner, who(r)))
        for label, v in (('plain', [7]), ('own', b.ia), ('other-object', a.ia)):
            r = ac.validate(v, b)
            out.append(('array', label, 2, 3, who(v), r is v, who(r)))
        orm.rollback()
    return out
