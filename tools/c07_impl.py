"""C07 implementation driver: real Pony (from vlib.REPO) codecs and a real write -> commit -> new session -> read sweep
on a file-backed SQLite database.  No model knowledge in here."""
import datetime as dt, os, uuid
from decimal import Decimal


def entity_spec():
    """attribute name -> (python type, args, kwargs)"""
    from pony import orm
    return {
        'b': (bool, (), {}),
        'i8': (int, (), {'size': 8}), 'i16': (int, (), {'size': 16}), 'i24': (int, (), {'size': 24}), 'i32': (int, (), {'size': 32}), 'i64': (int, (), {'size': 64}),
        'u8': (int, (), {'size': 8, 'unsigned': True}), 'u16': (int, (), {'size': 16, 'unsigned': True}), 'u32': (int, (), {'size': 32, 'unsigned': True}),
        'f': (float, (), {}),
        'd2': (Decimal, (12, 2), {}), 'd4': (Decimal, (20, 4), {}), 'd10': (Decimal, (28, 10), {}),
        's': (str, (), {}), 'sns': (str, (), {'autostrip': False}), 'ls': (orm.LongStr, (), {}),
        'by': (bytes, (), {}),
        'da': (dt.date, (), {}),
        'ti': (dt.time, (), {}), 'ti0': (dt.time, (0,), {}), 'ti3': (dt.time, (3,), {}),
        'dtm': (dt.datetime, (), {}), 'dtm0': (dt.datetime, (0,), {}), 'dtm3': (dt.datetime, (3,), {}),
        'td': (dt.timedelta, (), {}), 'td0': (dt.timedelta, (0,), {}), 'td3': (dt.timedelta, (3,), {}),
        'u': (uuid.UUID, (), {}),
        'j': (orm.Json, (), {}),
        'ia': (orm.IntArray, (), {}), 'sa': (orm.StrArray, (), {}), 'fa': (orm.FloatArray, (), {}),
    }


def make_db(path, create):
    from pony import orm
    db = orm.Database('sqlite', path, create_db=create)
    ns = {}
    for name, (ty, args, kw) in entity_spec().items():
        ns[name] = orm.Optional(ty, *args, **kw)
    T = type('T', (db.Entity,), ns)
    db.generate_mapping(create_tables=create)
    return db, T


_mem = {}

def converters():
    """attribute name -> the real converter object (in-memory SQLite mapping)."""
    if 'c' not in _mem:
        db, T = make_db(':memory:', True)
        _mem['c'] = {name: getattr(T, name).converters[0] for name in entity_spec()}
        _mem['db'] = db
    return _mem['c']


def untrack(v):
    return v.get_untracked() if hasattr(v, 'get_untracked') else v


def write_values(path, items):
    """items: list of (attr name, value).  One transaction per value.  Returns per item
    {'id', 'after': value seen in the writing session after flush/commit} or {'write_error': class name}."""
    from pony import orm
    db, T = make_db(path, True)
    out = []
    for name, v in items:
        rec = {}
        try:
            with orm.db_session:
                o = T(**{name: v})
                orm.flush()
                rec['id'] = o.id
                rec['after'] = untrack(getattr(o, name))
        except Exception as e:
            rec = {'write_error': type(e).__name__, 'msg': str(e)[:200]}
        out.append(rec)
    db.disconnect()
    return out


def read_values(path, items, recs, lookups):
    """A fresh Database object on the same file: per item {'reloaded': v} | {'read_error': ..}; plus, for the attribute names in
    `lookups`, whether T.get(id=.., attr=after-flush value) finds the row (the value used as a query parameter) and what a
    projection query returns."""
    from pony import orm
    db, T = make_db(path, False)
    out = []
    for (name, v), rec in zip(items, recs):
        r = {}
        if 'id' not in rec:
            out.append(r); continue
        try:
            with orm.db_session:
                o = T[rec['id']]
                r['reloaded'] = untrack(getattr(o, name))
        except Exception as e:
            r['read_error'] = type(e).__name__; r['msg'] = str(e)[:200]
        if 'reloaded' in r:
            try:
                with orm.db_session:
                    q = orm.select('getattr(o, name) for o in T if o.id == oid', {'T': T, 'name': name, 'oid': rec['id']})[:]
                    r['projected'] = untrack(q[0]) if len(q) == 1 else ('ROWS', len(q))
            except Exception as e:
                r['project_error'] = type(e).__name__
            if name in lookups:
                try:
                    with orm.db_session:
                        got = T.get(**{'id': rec['id'], name: rec['after']})
                        r['lookup_found'] = got is not None
                except Exception as e:
                    r['lookup_error'] = type(e).__name__; r['lookup_msg'] = str(e)[:200]
        out.append(r)
    db.disconnect()
    return out
