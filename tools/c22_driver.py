"""C22 implementation driver: real threads interleaved deterministically at the access points of one shared dict.

The dict under test (db._translator_cache, core.string2ast_cache, core.adapted_sql_cache, decompiling.ast_cache) is replaced
by a dict subclass whose get / __getitem__ / __setitem__ / __delitem__ / pop / setdefault / __contains__ first ask a scheduler
for the turn.  The schedule is a list of thread indexes; each entry lets that thread perform ONE dict operation and run on
until it reaches its next dict operation or finishes.  Exactly one managed thread runs at any time; every wait has a hard
timeout (Stuck).  No hook in /repo.

JSON in: {"cases": [...]}, kinds:
  {"kind": "translator", "warm": null | x0, "xs": [x...], "sched": [...]}
  {"kind": "setonly", "cache": "string2ast" | "adapt_sql" | "decompile", "inputs": [pool index...], "sched": [...]}
  {"kind": "cross"}"""
import ast, inspect, json, os, sqlite3, sys, tempfile, shutil, threading, time

import vlib
sys.path.insert(0, vlib.REPO)
from pony import orm
from pony.orm import core, decompiling

TIMEOUT = float(os.environ.get('VERIF_STEP_TIMEOUT', '60'))


class Stuck(Exception):
    pass


class Scheduler(object):
    def __init__(self):
        self.cv = threading.Condition()
        self.managed = {}        # thread name -> index
        self.turn = None
        self.points = {}         # name -> number of yield points reached
        self.waiting = set()
        self.done = set()
        self.log = []

    def point(self, op):
        me = threading.current_thread().name
        if me not in self.managed: return
        with self.cv:
            self.points[me] = self.points.get(me, 0) + 1
            self.waiting.add(me)
            self.cv.notify_all()
            if not self.cv.wait_for(lambda: self.turn == me, timeout=TIMEOUT * 3):
                raise Stuck('thread %s was never granted its turn' % me)
            self.turn = None
            self.waiting.discard(me)
            self.log.append((self.managed[me], op))

    def finished(self):
        me = threading.current_thread().name
        with self.cv:
            self.done.add(me)
            self.cv.notify_all()

    def wait_parked(self, name, old_points):
        """wait until thread `name` has reached a new yield point or has finished"""
        with self.cv:
            if not self.cv.wait_for(lambda: name in self.done or self.points.get(name, 0) > old_points, timeout=TIMEOUT):
                raise Stuck('thread %s neither reached a dict operation nor finished within %.0f s' % (name, TIMEOUT))

    def grant(self, name):
        with self.cv:
            if name in self.done: return False
            old = self.points.get(name, 0)
            self.turn = name
            self.cv.notify_all()
        self.wait_parked(name, old)
        return True


SCHED = Scheduler()


class SchedDict(dict):
    def get(self, *a):
        SCHED.point('get'); return dict.get(self, *a)
    def __getitem__(self, k):
        SCHED.point('get'); return dict.__getitem__(self, k)
    def __contains__(self, k):
        SCHED.point('get'); return dict.__contains__(self, k)
    def __setitem__(self, k, v):
        SCHED.point('set'); return dict.__setitem__(self, k, v)
    def setdefault(self, *a):
        SCHED.point('set'); return dict.setdefault(self, *a)
    def __delitem__(self, k):
        SCHED.point('del'); return dict.__delitem__(self, k)
    def pop(self, *a):
        SCHED.point('del'); return dict.pop(self, *a)


def run_threads(fns, sched):
    """fns: one closure per thread. Returns (results, log). results[i] = ('ok', value) | ('exc', name, text) | ('unfinished',)"""
    global SCHED
    SCHED = Scheduler()
    S = SCHED
    n = len(fns)
    results = [('unfinished',)] * n
    names = ['T%d-%d' % (i, id(S) % 100000) for i in range(n)]
    for i, nm in enumerate(names): S.managed[nm] = i
    def body(i):
        try:
            results[i] = ('ok', fns[i]())
        except Stuck as e:
            results[i] = ('exc', 'Stuck', str(e))
        except BaseException as e:
            results[i] = ('exc', type(e).__name__, str(e)[:300])
        finally:
            S.finished()
    threads = []
    for i in range(n):
        t = threading.Thread(target=body, args=(i,), name=names[i], daemon=True)
        threads.append(t)
        t.start()
        S.wait_parked(names[i], 0)            # runs alone up to its first dict operation
    for i in sched:
        S.grant(names[i])
    with S.cv:
        done_at_end = set(S.done)
        n_log = len(S.log)
    # release whatever is still parked so that no thread is left behind: grant turns round-robin until all finish
    guard = 0
    while len(S.done) < n:
        progressed = False
        for nm in names:
            if nm not in S.done:
                S.grant(nm); progressed = True
        guard += 1
        if not progressed or guard > 50: raise Stuck('threads did not finish')
    for t in threads: t.join(TIMEOUT)
    results = [r if names[i] in done_at_end else ('unfinished',) for i, r in enumerate(results)]
    return results, [list(x) for x in S.log[:n_log]]


# ------------------------------------------------------------------------------------------------ translator cache

NAMES = ['abcdef', 'uvwxyz']

def setup_db(path):
    db = orm.Database('sqlite', path, create_db=True)
    class P(db.Entity):
        name = orm.Required(str)
    db.generate_mapping(create_tables=True)
    with orm.db_session:
        for i, nm in enumerate(NAMES): P(id=i + 1, name=nm)
    return db, P

QTEXT = 'p.name[x:] for p in P'

def translator_variant():
    src = inspect.getsource(core.Query._get_translator)
    if 'del database._translator_cache[query_key]' in src: return 'del'
    if '_translator_cache.pop(query_key, None)' in src: return 'pop'
    return 'unknown'


def key_shape():
    """the translator cache key and the lookup comparison, read from the source (tie for Model/C22Key.v)"""
    import textwrap
    src = textwrap.dedent(inspect.getsource(core.Query.__init__))
    comps = None
    for node in ast.walk(ast.parse(src)):
        if isinstance(node, ast.Assign) and isinstance(node.targets[0], ast.Attribute) and node.targets[0].attr == '_key' \
                and isinstance(node.value, ast.Call) and getattr(node.value.func, 'id', '') == 'HashableDict':
            comps = [kw.arg for kw in node.value.keywords]
    gsrc = inspect.getsource(core.Query._get_translator)
    return {'components': comps,
            'looks_up_by_key': '_translator_cache.get(query_key)' in gsrc,
            'compares_fixed_values': 'for key, val in translator.fixed_param_values.items():' in gsrc and 'if val != new_vars[key]:' in gsrc}


def run_translator(db, P, case):
    def one(x):
        with orm.db_session:
            q = orm.select(QTEXT, {'P': P, 'x': x})
            rows = sorted(q[:])
            return [list(q._translator.fixed_param_values.values()), rows]
    alone = {}
    for x in set(case['xs']):                               # what each thread gets running alone, with cold caches
        db._translator_cache = {}
        db._constructed_sql_cache = {}
        alone[x] = one(x)[1]
    db._translator_cache = SchedDict()
    db._constructed_sql_cache = {}
    if case['warm'] is not None: one(case['warm'])          # main thread is not managed: passes through
    results, log = run_threads([(lambda x=x: one(x)) for x in case['xs']], case['sched'])
    n_sched = len(log)
    res = []
    for x, r in zip(case['xs'], results):
        if r[0] == 'ok':
            fixed, rows = r[1]
            res.append({'kind': 'got', 'fixed': fixed, 'rows_ok': rows == alone[x]})
        elif r[0] == 'exc': res.append({'kind': 'exc', 'name': r[1], 'text': r[2]})
        else: res.append({'kind': 'unfinished'})
    vals = [list(t.fixed_param_values.values()) for t in dict.values(db._translator_cache)]
    return {'results': res, 'log': log, 'cache': vals}


# ------------------------------------------------------------------------------------------------ set-only caches

def f0(a): return a + 1
def f1(a): return a.b
LAMBDAS = [lambda p: p.x > 1, lambda p: p.y, f0]

CACHES = {
    'string2ast': dict(pool=['a + 1', 'b.c', 'a + 1', 'f(x, 2)'],
                       install=lambda d: setattr(core, 'string2ast_cache', d),
                       call=lambda s: ast.dump(core.string2ast(s))),
    'adapt_sql': dict(pool=[['select $x from t', 'qmark'], ['select 1', 'qmark'], ['select $x from t', 'qmark'], ['select $x from t', 'numeric']],
                      install=lambda d: setattr(core, 'adapted_sql_cache', d),
                      call=lambda s: (lambda r: [r[0], list(r[1].co_names), repr(r[1].co_consts)])(core.adapt_sql(s[0], s[1]))),
    'decompile': dict(pool=[0, 1, 0, 2],
                      install=lambda d: setattr(decompiling, 'ast_cache', d),
                      call=lambda i: ast.dump(decompiling.decompile(LAMBDAS[i])[0])),
}


def _extractors_call(src):
    from pony.orm import asttranslation
    tree = ast.parse('(%s)' % src).body[0].value            # a fresh GeneratorExp each time (the cache stores the first one)
    t, ex = asttranslation.create_extractors(src, tree, {}, {}, core.special_functions, core.const_functions)
    return [src, sorted(ex)]            # the key (source text) is part of the canonical value: equal class <=> equal key

def _lambda_args_call(i):
    from pony.utils import utils
    return [i, list(utils.get_lambda_args(LAMBDAS[i]))]      # key = id of the code object = the pool index

QUERIES = ['p for p in P', 'p.name for p in P', 'p for p in P', 'p for p in P if p.id > 1']
_DBP = []

def _constructed_sql_call(i):
    db, P = _DBP
    with orm.db_session:
        return orm.select(QUERIES[i], {'P': P}).get_sql()

def _install_lambda_args(d):
    from pony.utils import utils
    utils.lambda_args_cache = d

def _install_extractors(d):
    from pony.orm import asttranslation
    asttranslation.extractors_cache = d

CACHES.update({
    'extractors': dict(pool=['x.a for x in y', 'x for x in y if x.b > z', 'x.a for x in y', 'x.c for x in y'],
                       install=_install_extractors, call=_extractors_call),
    'lambda_args': dict(pool=[0, 1, 0, 2], install=_install_lambda_args, call=_lambda_args_call),
    'constructed_sql': dict(pool=[0, 1, 2, 3], install=lambda d: setattr(_DBP[0], '_constructed_sql_cache', d), call=_constructed_sql_call),
})


def run_setonly(case):
    spec = CACHES[case['cache']]
    pool = spec['pool']
    if _DBP: _DBP[0]._translator_cache = {}; _DBP[0]._constructed_sql_cache = {}       # only the cache under test is instrumented
    spec['install'](dict())
    alone = []
    for x in pool:
        spec['install'](dict())
        alone.append(json.dumps(spec['call'](x)))
    classes = [alone.index(a) for a in alone]                 # input index -> index of the first input with the same value
    d = SchedDict()
    spec['install'](d)
    results, log = run_threads([(lambda x=pool[i]: json.dumps(spec['call'](x))) for i in case['inputs']], case['sched'])
    res = []
    for i, r in zip(case['inputs'], results):
        if r[0] == 'ok': res.append({'kind': 'got', 'cls': alone.index(r[1]) if r[1] in alone else -1})
        elif r[0] == 'exc': res.append({'kind': 'exc', 'name': r[1], 'text': r[2]})
        else: res.append({'kind': 'unfinished'})
    spec['install'](dict())
    return {'results': res, 'log': log, 'classes': classes, 'entries': len(d)}


# ------------------------------------------------------------------------------------------------ cross-thread object use

def run_cross(tmp):
    import c20_sessions as S
    path = os.path.join(tmp, 'cross.sqlite')
    db = orm.Database('sqlite', path, create_db=True)
    class G(db.Entity):
        name = orm.Optional(str)
        items = orm.Set('I')
    class I(db.Entity):
        name = orm.Optional(str)
        big = orm.Optional(str, lazy=True)
        owner = orm.Optional(G)
    db.generate_mapping(create_tables=True)
    wa, wb = S.Worker('A'), S.Worker('B')
    def reset():
        con = sqlite3.connect(path)
        for t in ('I', 'G'): con.execute('delete from %s' % t)
        con.commit(); con.close()
        with orm.db_session:
            g1 = G(id=1, name='g1'); G(id=2, name='g2')
            I(id=1, name='i1', big='B', owner=g1); I(id=2, name='i2', owner=g1)
    loaded_i = lambda: {'i': I[1], 'g': G[1], 'n': len(G[1].items)}          # attributes and collection of both objects are in A's cache
    seeds = lambda: {'i': I._get_by_raw_pkval_((1,)), 'g': I[2].owner}                # objects known to A's session only by primary key
    table = [
        ('XReadAttr', True, loaded_i, lambda b: b['i'].name),
        ('XReadAttr', False, seeds, lambda b: b['g'].name),
        ('XReadLazyAttr', True, lambda: {'i': I[1], 'x': I[1].big}, lambda b: b['i'].big),
        ('XReadLazyAttr', False, loaded_i, lambda b: b['i'].big),
        ('XAssignAttr', True, loaded_i, lambda b: setattr(b['i'], 'name', 'zz')),
        ('XAssignAttr', False, seeds, lambda b: setattr(b['g'], 'name', 'zz')),
        ('XObjSet', True, loaded_i, lambda b: b['i'].set(name='yy')),
        ('XObjSet', False, seeds, lambda b: b['g'].set(name='yy')),
        ('XDelete', True, loaded_i, lambda b: b['i'].delete()),
        ('XDelete', False, seeds, lambda b: b['i'].delete()),
        ('XObjLoad', True, loaded_i, lambda b: b['i'].load()),
        ('XObjLoad', False, seeds, lambda b: b['g'].load()),
        ('XToDict', True, loaded_i, lambda b: b['i'].to_dict()),
        ('XToDict', False, seeds, lambda b: b['g'].to_dict()),
        ('XCollLen', True, loaded_i, lambda b: len(b['g'].items)),
        ('XCollLen', False, lambda: {'g': G[1]}, lambda b: len(b['g'].items)),
        ('XCollIter', True, loaded_i, lambda b: sorted(x.id for x in b['g'].items)),
        ('XCollIter', False, lambda: {'g': G[1]}, lambda b: sorted(x.id for x in b['g'].items)),
        ('XCollAdd', True, loaded_i, lambda b: b['g'].items.add(I(id=9, name='n'))),
        ('XCollAdd', False, lambda: {'g': G[1]}, lambda b: b['g'].items.add(I(id=9, name='n'))),
        ('XAssignRelation', True, loaded_i, lambda b: setattr(I[2], 'owner', b['g'])),
        ('XAssignRelation', False, seeds, lambda b: setattr(I[2], 'owner', b['g'])),
        ('XCreateWith', True, loaded_i, lambda b: I(id=8, name='x', owner=b['g']).id),
        ('XCreateWith', False, seeds, lambda b: I(id=8, name='x', owner=b['g']).id),
    ]
    out = []
    for op, loaded, prep, use in table:
        reset()
        a = S.Session(wa, orm); a.begin()
        box = {}
        r = a.do(lambda: box.update(prep()))
        if r[0] != 'ok':
            out.append({'op': op, 'loaded': loaded, 'raised': None, 'detail': 'preparation failed: %r' % (r[1],)}); continue
        b = S.Session(wb, orm); b.begin()
        rb = b.do(lambda: use(box))
        if b.alive: b.leave(None)
        a.abort()
        raised = rb[0] == 'exc'
        out.append({'op': op, 'loaded': loaded, 'raised': raised, 'exc': type(rb[1]).__name__ if raised else None,
                    'detail': ('%s: %s' % (type(rb[1]).__name__, str(rb[1])[:120])) if raised else repr(rb[1])[:80]})
    return {'table': out, 'lock_left_held': db.provider.transaction_lock.locked()}


def main():
    payload = json.load(sys.stdin)
    tmp = tempfile.mkdtemp(prefix='c22-', dir=os.environ.get('VERIF_TMP', '/tmp'))
    out = {'results': [], 'stuck': None, 'variant': translator_variant(), 'key_shape': key_shape()}
    try:
        db, P = setup_db(os.path.join(tmp, 'c22.sqlite'))
        _DBP[:] = [db, P]
        t0 = time.time()
        for k, case in enumerate(payload['cases']):
            try:
                if case['kind'] == 'translator': out['results'].append(run_translator(db, P, case))
                elif case['kind'] == 'setonly': out['results'].append(run_setonly(case))
                elif case['kind'] == 'cross': out['results'].append(run_cross(tmp))
                else: raise ValueError(case['kind'])
            except Stuck as e:
                out['stuck'] = {'case': k, 'what': str(e)}
                break
        out['seconds'] = round(time.time() - t0, 2)
        out['threads_alive'] = sum(1 for t in threading.enumerate() if t.name.startswith('T') and '-' in t.name)
    except BaseException as e:
        import traceback
        out['error'] = '%s: %s\n%s' % (type(e).__name__, e, traceback.format_exc()[-3000:])
    finally:
        sys.stdout.write('\n@@JSON@@' + json.dumps(out))
        sys.stdout.flush()
        shutil.rmtree(tmp, ignore_errors=True)
        os._exit(0)


if __name__ == '__main__':
    main()
