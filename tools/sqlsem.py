"""Python-side reference evaluation of Pony's list SQL AST under a dialect's documented function semantics.
Used by the *search* oracles (implementation output vs specification side).  Mirrors coq/Sql/Dialect.v; the SQLite
functions are validated against the real SQLite by the checks that use them."""


class SqlError(Exception):
    pass


def seg(s, lo, cnt):
    lo = max(0, lo); cnt = max(0, cnt)
    return s[lo:lo + cnt]


def pg_substr(s, p, c=None):
    n = len(s)
    if c is None: return seg(s, max(1, p) - 1, n)
    if c < 0: raise SqlError('negative substring length not allowed')
    lo = max(1, p); hi = min(n + 1, p + c)
    return seg(s, lo - 1, hi - lo)


def mysql_substr(s, p, c=None):
    n = len(s)
    if p == 0 or abs(p) > n: return ''
    lo = n + p if p < 0 else p - 1
    return seg(s, lo, n if c is None else c)


def oracle_substr(s, p, c=None):
    n = len(s)
    if p == 0: p = 1
    if abs(p) > n: return None
    lo = n + p if p < 0 else p - 1
    r = seg(s, lo, n if c is None else c)
    return r if r else None


def sqlite_substr(s, p1, z=None):
    n = len(s)
    if z is None:
        lo = max(0, p1 + n) if p1 < 0 else (p1 - 1 if p1 > 0 else 0)
        return s[lo:]
    neg = z < 0
    p2 = abs(z)
    if p1 < 0:
        p1 += n
        if p1 < 0:
            p2 += p1
            if p2 < 0: p2 = 0
            p1 = 0
    elif p1 > 0:
        p1 -= 1
    elif p2 > 0:
        p2 -= 1
    if neg:
        p1 -= p2
        if p1 < 0:
            p2 += p1
            p1 = 0
    return s[p1:p1 + p2]


SUBSTR = {'postgres': pg_substr, 'mysql': mysql_substr, 'oracle': oracle_substr, 'sqlite': sqlite_substr}
GREATEST_IGNORES_NULL = {'postgres': True, 'mysql': False, 'oracle': False, 'sqlite': False}


def ev(d, x, env):
    """d: 'postgres' | 'mysql' | 'oracle' | 'sqlite'; env: column name -> value. None is NULL."""
    t = x[0]
    if t == 'VALUE': return x[1]
    if t == 'COLUMN': return env[x[2].lower()]
    if t == 'PARAM': return env[('param', x[1])]
    if t == 'LENGTH':
        v = ev(d, x[1], env); return None if v is None else len(v)
    if t in ('ADD', 'SUB', 'MUL', 'GE', 'LT', 'GT', 'LE', 'EQ', 'NE'):
        a, b = ev(d, x[1], env), ev(d, x[2], env)
        if a is None or b is None: return None
        return {'ADD': lambda: a + b, 'SUB': lambda: a - b, 'MUL': lambda: a * b, 'GE': lambda: a >= b, 'LT': lambda: a < b,
                'GT': lambda: a > b, 'LE': lambda: a <= b, 'EQ': lambda: a == b, 'NE': lambda: a != b}[t]()
    if t == 'NEG':
        a = ev(d, x[1], env); return None if a is None else -a
    if t == 'AND':
        vals = [ev(d, y, env) for y in x[1:]]
        if any(v is False for v in vals): return False
        if any(v is None for v in vals): return None
        return True
    if t == 'OR':
        vals = [ev(d, y, env) for y in x[1:]]
        if any(v is True for v in vals): return True
        if any(v is None for v in vals): return None
        return False
    if t == 'IF':
        c = ev(d, x[1], env); return ev(d, x[2], env) if c is True else ev(d, x[3], env)
    if t == 'CASE':
        assert x[1] is None
        for c, v in x[2]:
            if ev(d, c, env) is True: return ev(d, v, env)
        return ev(d, x[3], env) if len(x) > 3 and x[3] is not None else None
    if t == 'MAX':
        assert x[1] is False and len(x) == 4
        a, b = ev(d, x[2], env), ev(d, x[3], env)
        if a is None or b is None:
            if GREATEST_IGNORES_NULL[d]: return a if b is None else b
            return None
        return max(a, b)
    if t == 'COALESCE':
        for y in x[1:]:
            v = ev(d, y, env)
            if v is not None: return v
        return None
    if t == 'SUBSTR':
        s = ev(d, x[1], env); p = ev(d, x[2], env)
        c = ev(d, x[3], env) if len(x) > 3 and x[3] is not None else 'omit'
        if s is None or p is None or c is None: return None
        return SUBSTR[d](s, p) if c == 'omit' else SUBSTR[d](s, p, c)
    if t == 'STRING_SLICE':
        raise SqlError('STRING_SLICE must be expanded by the builder first')
    raise SqlError('no semantics for %r' % t)
