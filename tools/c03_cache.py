"""C03, the tree cache of decompile(): `ast_cache[get_codeobject_id(code)]` (pony/orm/decompiling.py, pony/utils/utils.py).

Tie A (generate): read the two functions from /repo and emit coq/Gen/C03CacheKey.v with
    pins_codeobjects : bool      - does get_codeobject_id keep every code object it has seen alive (module-level dict)?
The theorem C03_cache_own_tree (Props/C03.v) is stated for `crun pins_codeobjects ...` and only type-checks when it is true.
Anything the scanner does not recognise is refused (TranslateError), never guessed.

Real-run sweep (sweep): many short-lived lambdas / generators built with eval, decompiled through the public entry point and
dropped before the next one is built - the way a program that builds its queries from strings behaves - each compared with
ITS OWN source."""
import ast, gc, os
import vlib


def _module(rel):
    with open(os.path.join(vlib.REPO, rel)) as f:
        return ast.parse(f.read())


def _find_func(mod, name):
    for n in mod.body:
        if isinstance(n, ast.FunctionDef) and n.name == name: return n
    raise vlib.TranslateError('function %s not found' % name)


def scan():
    """-> dict(pins=bool, registry=name|None)"""
    utils = _module('pony/utils/utils.py')
    fn = _find_func(utils, 'get_codeobject_id')
    if len(fn.args.args) != 1: raise vlib.TranslateError('get_codeobject_id: unexpected signature')
    param = fn.args.args[0].arg
    def is_id_of_param(e):
        return (isinstance(e, ast.Call) and isinstance(e.func, ast.Name) and e.func.id == 'id' and len(e.args) == 1
                and isinstance(e.args[0], ast.Name) and e.args[0].id == param and not e.keywords)
    idvars = set()
    stores = []          # (dict name) of  D[<id>] = <param>
    returned = None
    for st in ast.walk(fn):
        if isinstance(st, ast.Assign) and len(st.targets) == 1:
            t = st.targets[0]
            if isinstance(t, ast.Name) and is_id_of_param(st.value): idvars.add(t.id)
    def is_key(e):
        return is_id_of_param(e) or (isinstance(e, ast.Name) and e.id in idvars)
    for st in ast.walk(fn):
        if isinstance(st, ast.Assign) and len(st.targets) == 1:
            t = st.targets[0]
            if (isinstance(t, ast.Subscript) and isinstance(t.value, ast.Name) and is_key(t.slice)
                    and isinstance(st.value, ast.Name) and st.value.id == param):
                stores.append((t.value.id, st))
        if isinstance(st, ast.Return):
            if returned is not None: raise vlib.TranslateError('get_codeobject_id: several return statements')
            returned = st.value
    if returned is None or not is_key(returned):
        raise vlib.TranslateError('get_codeobject_id does not return id(<code object>): the cache model does not apply')
    # statements of the function: only the recognised forms
    for st in fn.body:
        ok = (isinstance(st, ast.Return) or
              (isinstance(st, ast.Assign) and (st in [s for _, s in stores] or (isinstance(st.targets[0], ast.Name) and is_id_of_param(st.value)))) or
              (isinstance(st, ast.If) and not st.orelse and all(s in [x for _, x in stores] for s in st.body)) or
              (isinstance(st, ast.Expr) and isinstance(st.value, ast.Constant)))
        if not ok: raise vlib.TranslateError('get_codeobject_id: unrecognised statement at line %d' % st.lineno)
    pins, registry = False, None
    for name, st in stores:
        # the store must be reachable for every object not yet stored: either unconditional, or guarded by `<id> not in D`
        guarded_ok = True
        for top in fn.body:
            if isinstance(top, ast.If) and st in top.body:
                t = top.test
                guarded_ok = (isinstance(t, ast.Compare) and len(t.ops) == 1 and isinstance(t.ops[0], ast.NotIn) and is_key(t.left)
                              and isinstance(t.comparators[0], ast.Name) and t.comparators[0].id == name)
        # D is a module-level dict that nothing else in the module touches
        defs = [n for n in utils.body if isinstance(n, ast.Assign) and any(isinstance(t, ast.Name) and t.id == name for t in n.targets)]
        is_dict = len(defs) == 1 and (isinstance(defs[0].value, ast.Dict) and not defs[0].value.keys
                                      or (isinstance(defs[0].value, ast.Call) and isinstance(defs[0].value.func, ast.Name) and defs[0].value.func.id == 'dict' and not defs[0].value.args))
        others = [n for n in ast.walk(utils) if isinstance(n, ast.Name) and n.id == name]
        inside = [n for n in ast.walk(fn) if isinstance(n, ast.Name) and n.id == name]
        untouched = len(others) == len(inside) + 1
        if guarded_ok and is_dict and untouched: pins, registry = True, name
    # decompile() must key its cache by that id
    dec = _module('pony/orm/decompiling.py')
    dfn = _find_func(dec, 'decompile')
    keyvars = set()
    for st in ast.walk(dfn):
        if (isinstance(st, ast.Assign) and len(st.targets) == 1 and isinstance(st.targets[0], ast.Name) and isinstance(st.value, ast.Call)
                and isinstance(st.value.func, ast.Name) and st.value.func.id == 'get_codeobject_id'):
            keyvars.add(st.targets[0].id)
    uses = [n for n in ast.walk(dfn) if isinstance(n, ast.Name) and n.id == 'ast_cache']
    keyed = bool(keyvars) and bool(uses)
    for st in ast.walk(dfn):
        if isinstance(st, ast.Subscript) and isinstance(st.value, ast.Name) and st.value.id == 'ast_cache':
            if not (isinstance(st.slice, ast.Name) and st.slice.id in keyvars): keyed = False
        if (isinstance(st, ast.Call) and isinstance(st.func, ast.Attribute) and isinstance(st.func.value, ast.Name) and st.func.value.id == 'ast_cache'):
            if not (st.func.attr == 'get' and st.args and isinstance(st.args[0], ast.Name) and st.args[0].id in keyvars): keyed = False
    if not keyed: raise vlib.TranslateError('decompile() does not key ast_cache by get_codeobject_id(code): the cache model does not apply')
    return {'pins': pins, 'registry': registry}


def generate():
    r = scan()
    return ('(* GENERATED by tools/c03_cache.py from pony/utils/utils.py:get_codeobject_id and pony/orm/decompiling.py:decompile *)\n'
            '(* registry dict: %s *)\n'
            'Definition pins_codeobjects : bool := %s.\n' % (r['registry'], 'true' if r['pins'] else 'false'))


# ------------------------------------------------------------------------------------------------ real-run sweep

TEMPLATES = [
    ('lambda', 'lambda x, y: x == %d and y != %d'),
    ('lambda', 'lambda x: x.a + %d > x.b * %d'),
    ('gen', '(p.name for p in T if p.a == %d and p.b != %d)'),
    ('gen', '((p.a, %d) for p in T if p.b > %d)'),
    ('lambda', 'lambda p: p.a in (%d, %d)'),
]


def sweep_text(i):
    kind, tpl = TEMPLATES[i % len(TEMPLATES)]
    return kind, tpl % (i, i + 1)


def expected_dump(kind, text):
    import c03_struct as S
    return ast.dump(S.Norm().visit(S.expected_tree(text)))


def sweep(n, start=0):
    """Decompile n short-lived code objects one after the other.  -> (n_done, n_trees, first_failure | None, stats)
    first_failure = dict(index, text, got, stale_from)"""
    import copy
    import c03_struct as S
    from pony.orm.decompiling import decompile
    seen_ids, reused, trees = {}, 0, 0
    dumps = {}
    fail = None
    for i in range(start, start + n):
        kind, text = sweep_text(i)
        obj = eval(text, {'T': []})
        code = obj.__code__ if kind == 'lambda' else obj.gi_code
        cid = id(code)
        if cid in seen_ids: reused += 1
        seen_ids[cid] = i
        del code
        try:
            tree = decompile(obj)[0]
        except Exception:
            del obj
            continue
        trees += 1
        try:
            got = ast.dump(S.Norm().visit(copy.deepcopy(tree)))
        except Exception:
            got = '<malformed>'
        want = expected_dump(kind, text)
        dumps[got] = i if got not in dumps else dumps[got]
        if got != want and fail is None:
            fail = {'index': i, 'text': text, 'got': got[:300], 'stale_from': dumps.get(got) if dumps.get(got) != i else None}
        del obj, tree           # the program drops its query; nothing of ours keeps the code object alive
    return n, trees, fail, {'addresses_reused': reused, 'distinct_addresses': len(seen_ids)}
