"""C03, tie of the Coq model (coq/Model/C03Decomp.v) to reality: serialise what CPython's compiler and Pony's Decompiler
really produce for an expression of the fragment into literals of the model's types.

    raw `dis` stream  --(own merge of POP_JUMP_IF_x ; JUMP_BACKWARD)-->  list instr      (compared with `compile ps e` in Coq)
    Decompiler.instructions (after Pony's get_instructions)  --> list instr              (must equal the above, checked here)
    Decompiler.or_jumps / conditions_end  --> positions of the model                     (compared with or_jumps/conditions_end in Coq)
    Decompiler.ast  --> real_result                                                      (compared with decompile_code in Coq)
"""
import ast, dis
import c03_lib as L

POSITION = {'filter': 'PFilter', 'filter2': 'PFilter2', 'filter3': 'PFilter3', 'elt': 'PElt', 'lambda': 'PLambda'}


class Unmodelled(Exception):
    pass


def cb(b):
    return 'true' if b else 'false'


def _atom_index(name):
    if name in L.NAMES: return L.NAMES.index(name)
    raise Unmodelled('name %r' % name)


def group(instrs, top_offset):
    """instrs: list of (offset, opname, argval, arg).  Returns the model instruction list as
    [(start_offset, ctor, args)] with jump targets still as byte offsets."""
    out = []
    i, n = 0, len(instrs)
    while i < n:
        off, op, argval, arg = instrs[i]
        nxt = instrs[i + 1] if i + 1 < n else None
        if op in ('LOAD_GLOBAL', 'LOAD_FAST', 'LOAD_DEREF', 'LOAD_NAME'):
            name = argval
            if name == 'U' and i + 3 < n and [x[1] for x in instrs[i + 1:i + 4]] == ['GET_ITER', 'FOR_ITER', 'STORE_FAST']:
                out.append((off, 'IPushComp', ())); i += 4; continue
            if name == 'x': out.append((off, 'ILoadElt', ()))
            else: out.append((off, 'ILoad', (_atom_index(name),)))
        elif op == 'LOAD_CONST':
            if argval is None and nxt and nxt[1] == 'IS_OP':
                out.append((off, 'IIs', (nxt[3] == 1,))); i += 2; continue
            if not any(argval is v for v in L.DOM[:3]) and argval != 'x': raise Unmodelled('constant %r' % (argval,))
            out.append((off, 'IConst', (argval,)))
        elif op == 'UNARY_NOT': out.append((off, 'INot', ()))
        elif op == 'COMPARE_OP':
            if argval not in ('==', '!='): raise Unmodelled('compare %r' % argval)
            out.append((off, 'ICmp', (argval == '!=',)))
        elif op == 'COPY':
            if arg != 1: raise Unmodelled('COPY %r' % arg)
            out.append((off, 'ICopy', ()))
        elif op == 'POP_TOP': out.append((off, 'IPopTop', ()))
        elif op in ('POP_JUMP_IF_TRUE', 'POP_JUMP_IF_FALSE', 'POP_JUMP_IF_NONE', 'POP_JUMP_IF_NOT_NONE'):
            none = 'NONE' in op
            c = op in ('POP_JUMP_IF_TRUE', 'POP_JUMP_IF_NONE')
            if nxt and nxt[1] == 'JUMP_BACKWARD' and i + 2 < n and argval == instrs[i + 2][0]:
                # CPython 3.12 has no backward conditional jump: `POP_JUMP_IF_c +1 ; JUMP_BACKWARD top` = "back to the top if not c"
                if nxt[2] != top_offset: raise Unmodelled('backward jump not to the innermost loop')
                out.append((off, 'IBackNone' if none else 'IBack', (not c,))); i += 2; continue
            out.append((off, 'IJumpNone' if none else 'IJump', (c, ('T', argval))))
        elif op in ('POP_JUMP_BACKWARD_IF_TRUE', 'POP_JUMP_BACKWARD_IF_FALSE', 'POP_JUMP_BACKWARD_IF_NONE', 'POP_JUMP_BACKWARD_IF_NOT_NONE'):
            # Pony's own merged pseudo-instructions
            if argval != top_offset: raise Unmodelled('backward jump not to the innermost loop')
            none = 'NONE' in op
            out.append((off, 'IBackNone' if none else 'IBack', (op in ('POP_JUMP_BACKWARD_IF_TRUE', 'POP_JUMP_BACKWARD_IF_NONE'),)))
        elif op == 'JUMP_FORWARD': out.append((off, 'IFwd', (('T', argval),)))
        elif op == 'YIELD_VALUE': out.append((off, 'IYield', ()))
        elif op == 'RETURN_VALUE': out.append((off, 'IReturn', ()))
        else:
            raise Unmodelled(op)
        i += 1
    return out


def resolve(groups, extra_end=None):
    """byte offsets -> model positions (index + 2)"""
    index = {off: k for k, (off, _, _) in enumerate(groups)}
    if extra_end is not None: index.setdefault(extra_end, len(groups))
    def pos(off):
        if off not in index: raise Unmodelled('jump into the middle of a modelled instruction (offset %d)' % off)
        return index[off] + 2
    out = []
    for off, ctor, args in groups:
        out.append((ctor, tuple(pos(a[1]) if isinstance(a, tuple) else a for a in args)))
    return out, pos


def coq_instr(ins):
    ctor, args = ins
    if not args: return ctor
    if ctor == 'IConst': return '(IConst %s)' % L.VAL_COQ[args[0]]
    parts = []
    for a in args:
        if isinstance(a, bool): parts.append(cb(a))
        elif isinstance(a, int): parts.append(str(a))
        elif a is None or isinstance(a, str): parts.append(L.VAL_COQ[a])
        else: raise ValueError(a)
    return '(%s %s)' % (ctor, ' '.join(parts))


def coq_code(code):
    return '[' + ';'.join(coq_instr(i) for i in code) + ']'


def split_stream(kind, seq):
    """seq: [(offset, opname, argval, arg)] of the whole code object (before the yield / to the end for a lambda).
    Strips the fixed prefix of the position; returns (body, top_offset)."""
    names = [x[1] for x in seq]
    if kind == 'lambda':
        if names[:1] != ['RESUME']: raise Unmodelled('lambda prefix %r' % names[:2])
        return seq[1:], None
    want = ['RETURN_GENERATOR', 'POP_TOP', 'RESUME', 'LOAD_FAST', 'FOR_ITER', 'STORE_FAST']
    if names[:6] != want: raise Unmodelled('generator prefix %r' % names[:6])
    body = seq[6:]
    top = seq[4][0]
    if kind == 'filter3':
        # the condition belongs to the second loop: its FOR_ITER is the target of the backward jumps
        if [x[1] for x in body[:4]] != ['LOAD_GLOBAL', 'GET_ITER', 'FOR_ITER', 'STORE_FAST']: raise Unmodelled('second loop prefix')
        top = body[2][0]
    return body, top


def raw_stream(code):
    seq = []
    for ins in dis.get_instructions(code):
        seq.append((ins.offset, ins.opname, ins.argval, ins.arg))
    return seq


def cut_at_yield(seq, kind):
    if kind == 'lambda':
        # drop nothing: everything up to the last instruction (exception-table-free code)
        return seq
    out = []
    for x in seq:
        out.append(x)
        if x[1] == 'YIELD_VALUE': break
    return out


def ptree(t):
    if isinstance(t, ast.Name):
        if t.id == 'x': return 'PVar'
        return '(PAtom %d)' % _atom_index(t.id)
    if isinstance(t, ast.Constant) and (any(t.value is v for v in L.DOM[:3]) or t.value == 'x'): return '(PConst %s)' % L.VAL_COQ[t.value]
    if isinstance(t, ast.UnaryOp) and isinstance(t.op, ast.Not): return '(PNot %s)' % ptree(t.operand)
    if isinstance(t, ast.BoolOp): return '(PBool %s [%s])' % (cb(isinstance(t.op, ast.Or)), ';'.join(ptree(v) for v in t.values))
    if isinstance(t, ast.IfExp):
        return '(PIf %s %s %s)' % (ptree(t.test), ptree(t.body), 'None' if t.orelse is None else '(Some %s)' % ptree(t.orelse))
    if isinstance(t, ast.Compare) and len(t.ops) == 1:
        r = t.comparators[0]
        if isinstance(t.ops[0], (ast.Is, ast.IsNot)) and isinstance(r, ast.Constant) and r.value is None:
            return '(PIsNone %s %s)' % (cb(isinstance(t.ops[0], ast.IsNot)), ptree(t.left))
        if isinstance(t.ops[0], (ast.Eq, ast.NotEq)): return '(PCmp %s %s %s)' % (cb(isinstance(t.ops[0], ast.NotEq)), ptree(t.left), ptree(r))
    if isinstance(t, ast.comprehension): return 'PComp'
    raise Unmodelled('tree node %s' % type(t).__name__)


def observe(e, kind):
    """Everything the real implementation produces for e at position kind, as Coq literals.
    -> dict(code=..., orj=..., ce=..., result=...)   raises Unmodelled when the stream leaves the modelled instruction set."""
    from pony.orm.decompiling import Decompiler
    text = L.source_text(e, kind)
    code = L.compile_code(text)
    body, top = split_stream(kind, cut_at_yield(raw_stream(code), kind))
    groups = group(body, top)
    model_code, pos = resolve(groups)

    class Probe(Decompiler):
        def decompile(self):
            self.probe = (list(self.instructions), set(self.or_jumps), self.conditions_end)
            return Decompiler.decompile(self)
    d = Probe.__new__(Probe)
    exc = None
    try:
        d.__init__(code)
    except RecursionError:
        raise
    except Exception as ex:
        exc = ex
    if not hasattr(d, 'probe'):
        raise Unmodelled('decompiler failed before decompile(): %r' % (exc,))
    pinstr, porj, pce = d.probe
    pseq = [(p, op, (arg[0] if arg else None), (arg[0] if arg else None)) for (p, nx, op, arg) in pinstr]
    # Pony keeps ['name', push_null] for LOAD_GLOBAL and the raw oparg for COPY / IS_OP
    pbody, ptop = split_stream(kind, cut_at_yield(pseq, kind))
    pgroups = group(pbody, ptop)
    pony_code, ppos = resolve(pgroups)
    if pony_code != model_code:
        raise Unmodelled('get_instructions normalisation differs from the modelled merge: %r vs %r' % (pony_code, model_code))
    orj = sorted(ppos(o) for o in porj)
    ce = 0 if pce == 0 else ppos(pce)
    if exc is not None:
        res = 'XExc'
    else:
        t = d.ast
        if kind == 'lambda': res = '(XLambda %s)' % ptree(t)
        else:
            if not isinstance(t, ast.GeneratorExp): raise Unmodelled('result %s' % type(t).__name__)
            res = '(XGen %s [%s])' % (ptree(t.elt), ';'.join('[' + ';'.join(ptree(c) for c in g.ifs) + ']' for g in t.generators))
    return {'code': model_code, 'orj': orj, 'ce': ce, 'result': res, 'exc': type(exc).__name__ if exc else None}


COQ_HEADER = L.COQ_HEADER + 'Require Import PonyV.Model.C03Decomp PonyV.Model.C03Tie.\n'
