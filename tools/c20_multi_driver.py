"""C20 (model Multi) implementation driver: ONE real optimistic db_session on a worker thread that reads and writes SEVERAL objects
(rows 1 and 2 of one table) over several transactions, while another session (raw sqlite3 connection, committed at once) changes the
rows whenever the session does not hold the provider's write lock.
JSON in: {"cases": [{"d0": [[a, b], [a, b]], "evs": [...]}]}; events (o = 0 | 1 is the object, i.e. row id o + 1)
  ["R", o, a] | ["W", o, a, ["C", v] | ["P", b, d]] | ["K"] (commit(), the session goes on) | ["X", o, a, v] (other session)"""
import json, os, sqlite3, sys, tempfile, shutil, time
import vlib
sys.path.insert(0, vlib.REPO)
import c20_sessions as S
from pony import orm

ATTRS = ['a', 'b']


def setup(path):
    S.install_trace()
    db = orm.Database('sqlite', path, create_db=True)
    class P(db.Entity):
        a = orm.Optional(int)
        b = orm.Optional(int)
    db.generate_mapping(create_tables=True)
    return db, P


def run_case(db, P, raw, worker, case):
    raw.execute('DELETE FROM P')
    for i, r in enumerate(case['d0']): raw.execute('INSERT INTO P (id, a, b) VALUES (?, ?, ?)', [i + 1] + r)
    raw.commit()
    n = len(case['d0'])
    def rows():
        return [list(raw.execute('SELECT a, b FROM P WHERE id = ?', (i + 1,)).fetchone()) for i in range(n)]
    lock = db.provider.transaction_lock
    sess = S.Session(worker, orm); sess.begin()
    events, other, failed = [], [], False
    del S.TRACE[:]
    def statements(t0, before):
        out = []
        for t, sql in S.TRACE[t0:]:
            if t != worker.name: continue
            u = S.parse_update(sql)
            if u is not None:
                assert u[0] == 'P' and u[2][0][0] == 'id', u
                out.append(['upd', u[2][0][1] - 1, [[ATTRS.index(c), v] for c, v in u[1]], [[ATTRS.index(c), v] for c, v in u[2][1:]], True, before])
        return out
    for ev in case['evs']:
        if ev[0] == 'X':
            if lock.locked(): continue                     # the other session would block
            raw.execute('UPDATE P SET %s = ? WHERE id = ?' % ATTRS[ev[2]], (ev[3], ev[1] + 1)); raw.commit()
            continue
        if failed: continue
        t0 = len(S.TRACE)
        before = rows()
        seen = []
        if ev[0] == 'R':
            r = sess.do(lambda: getattr(P[ev[1] + 1], ATTRS[ev[2]]))
            obs_after = [['obs', ev[1], ev[2], r[1]]] if r[0] == 'ok' else []
            obs_before = []
        elif ev[0] == 'W' and ev[3][0] == 'C':
            r = sess.do(lambda: setattr(P[ev[1] + 1], ATTRS[ev[2]], ev[3][1]))
            obs_after, obs_before = [], []
        elif ev[0] == 'W':
            box = []
            def f():
                obj = P[ev[1] + 1]
                x = getattr(obj, ATTRS[ev[3][1]]); box.append(x)
                setattr(obj, ATTRS[ev[2]], x + ev[3][2])
            r = sess.do(f)
            obs_after = [['obs', ev[1], ev[3][1], box[0]]] if box else []
        elif ev[0] == 'K':
            r = sess.do(lambda: orm.commit())
            obs_after = []
        else:
            raise ValueError(ev)
        st = statements(t0, before)          # the auto-flush in front of a load comes before the observation
        if r[0] == 'exc':
            failed = True
            name = type(r[1]).__name__
            code = {'OptimisticCheckError': 1, 'TypeError': 2, 'UnrepeatableReadError': 3}.get(name, 9)
            if code == 9: other.append('%s: %s' % (name, str(r[1])[:300]))
            if code == 1 and st: st[-1][4] = False
            events += st + obs_after
            events.append(['fail', code, before, rows()])
        else:
            events += st + obs_after
    locked_at_end = lock.locked()
    if sess.alive: sess.abort()
    return {'final': rows(), 'locked': locked_at_end, 'events': events, 'other': other, 'lock_left_held': lock.locked()}


def main():
    payload = json.load(sys.stdin)
    tmp = tempfile.mkdtemp(prefix='c20m-', dir=os.environ.get('VERIF_TMP', '/tmp'))
    out = {'results': [], 'stuck': None}
    try:
        path = os.path.join(tmp, 'multi.sqlite')
        db, P = setup(path)
        raw = sqlite3.connect(path, timeout=5)
        worker = S.Worker('A')
        t0 = time.time()
        for k, case in enumerate(payload['cases']):
            try:
                out['results'].append(run_case(db, P, raw, worker, case))
            except S.Stuck as e:
                out['stuck'] = {'case': k, 'what': str(e)}
                break
        out['seconds'] = round(time.time() - t0, 2)
    except BaseException as e:
        import traceback
        out['error'] = '%s: %s\n%s' % (type(e).__name__, e, traceback.format_exc()[-3000:])
    finally:
        sys.stdout.write('\n@@JSON@@' + json.dumps(out))
        sys.stdout.flush()
        shutil.rmtree(tmp, ignore_errors=True)
        os._exit(0)


if __name__ == '__main__':
    main()
