"""C27 implementation driver: random entity hierarchies built with the real EntityMeta on in-memory SQLite.

A hierarchy spec (JSON-able):
    {'mode': 'default' | 'str' | 'int', 'classes': [{'bases': [ids of earlier classes], 'discr': value or None}, ...]}
class i is named 'K<i>' and gets an attribute v<i>; every root R gets  holders<R> = Set('Holder')  and Holder gets  ref<R> = Optional(K<R>).
"""
import itertools


class Built(object):
    pass


def build(spec, mapping=True):
    """-> Built(db, classes, Holder, roots) or raises the exception of the first failing class statement"""
    from pony import orm
    db = orm.Database('sqlite', ':memory:')
    Meta = type(db.Entity)
    classes = []
    roots = []
    holder_attrs = {}
    nonleaf = set(b_ for c in spec['classes'] for b_ in c['bases'])
    for i, c in enumerate(spec['classes']):
        ns = {'v%d' % i: orm.Optional(int), '__module__': __name__}
        if not c['bases']:
            ns['inmany%d' % i] = orm.Set('Holder', reverse='many%d' % i)          # many-to-many collection typed as the root
        if not c['bases'] or i in nonleaf:
            # a reference typed as this class: roots (all routes) and every other class that has subclasses (seed route)
            ns['holders%d' % i] = orm.Set('Holder', reverse='ref%d' % i)
            holder_attrs['ref%d' % i] = i
        if not c['bases']:
            roots.append(i)
            if spec['mode'] == 'int':
                ns['kind'] = orm.Discriminator(int)
        if c.get('discr') is not None:
            ns['_discriminator_'] = c['discr']
        bases = tuple(classes[b] for b in c['bases']) or (db.Entity,)
        classes.append(Meta('K%d' % i, bases, ns))
        globals()['K%d' % i] = classes[-1]                                        # importable by name: needed for pickling
    hns = {name: orm.Optional(classes[r], reverse='holders%d' % r) for name, r in holder_attrs.items()}
    for r in roots: hns['many%d' % r] = orm.Set(classes[r], reverse='inmany%d' % r)
    hns['links'] = orm.Set('Link', reverse='h')
    hns['__module__'] = __name__
    Holder = Meta('Holder', (db.Entity,), hns)
    Link = Meta('Link', (db.Entity,), {'h': orm.Optional(Holder, reverse='links'), '__module__': __name__})
    globals()['Holder'] = Holder; globals()['Link'] = Link
    if mapping:
        db.generate_mapping(create_tables=True)
    b = Built()
    b.db, b.classes, b.Holder, b.roots, b.orm, b.spec = db, classes, Holder, roots, orm, spec
    b.ref_classes = sorted(holder_attrs.values())
    b.Link = Link
    return b


def introspect(b):
    """what Pony computed, by class id"""
    idx = {c: i for i, c in enumerate(b.classes)}
    out = []
    for i, c in enumerate(b.classes):
        da = c._discriminator_attr_
        crit = c._construct_discriminator_criteria_()
        out.append({'all_bases': sorted(idx[x] for x in c._all_bases_),
                    'subclasses': sorted(idx[x] for x in c._subclasses_),
                    'direct': [idx[x] for x in c._direct_bases_],
                    'root': idx[c._root_],
                    'discr': c._discriminator_,
                    'has_discr_attr': da is not None,
                    'criteria': None if crit is None else [v[1] for v in crit[2]],
                    'code2cls': None if da is None else {k: idx[v] for k, v in da.code2cls.items()}})
    return out


def isinstance_condition(b, e, cs, negate=False):
    """the condition FuncIsinstanceMonad.call produced for  select(x for x in K<e> if isinstance(x, (K<c>..)))"""
    g = {'K%d' % i: c for i, c in enumerate(b.classes)}
    tup = '(%s,)' % ', '.join('K%d' % c for c in cs)
    src = 'x for x in K%d if %sisinstance(x, %s)' % (e, 'not ' if negate else '', tup)
    with b.orm.db_session:
        q = b.orm.select(src, g)
        cond = q._translator.conditions[-1]
    return cond


def populate(b, per_class=2):
    """create objects of every class, one Holder per object referencing it through the root-typed attribute, and (first object of each
    class only) one Holder per non-root reference class above it; -> {(root, pk): class id}, {holder pk: (root, pk)}; b.seed_holders =
    {holder pk: (reference class, root, pk)}"""
    created, holders = {}, {}
    b.seed_holders = {}
    b.vals = {}             # (root, pk) -> the value n of all its v<a> attributes
    b.links = {}            # Link pk -> holder pk (for every seed holder): chain Link.h -> Holder.ref<c> -> object
    b.many_multi = {}       # root -> [(holder pk, [(pk, class id)])]: three owners of the same m2m attribute with disjoint members
    b.many = {}             # root -> (holder pk, [(pk, class id)]): a many-to-many collection holding the first object of every class of the tree
    seen_cls = set()
    with b.orm.db_session:
        objs = []
        for i, c in enumerate(b.classes):
            for n in range(per_class):
                objs.append((i, c(**{'v%d' % a: n for a, ca in enumerate(b.classes) if issubclass(c, ca)})))      # own and inherited attributes
        b.orm.flush()
        idx = {c: i for i, c in enumerate(b.classes)}
        for i, o in objs:
            r = idx[b.classes[i]._root_]
            h = b.Holder(**{'ref%d' % r: o})
            b.orm.flush()
            created[(r, o.get_pk())] = i
            b.vals[(r, o.get_pk())] = getattr(o, 'v%d' % i)
            holders[h.get_pk()] = (r, o.get_pk())
            if i not in seen_cls:      # first object of this class
                seen_cls.add(i)
                b.seed_holders[h.get_pk()] = (r, r, o.get_pk())
                for c in b.ref_classes:
                    if c != r and issubclass(b.classes[i], b.classes[c]):
                        h2 = b.Holder(**{'ref%d' % c: o}); b.orm.flush()
                        b.seed_holders[h2.get_pk()] = (c, r, o.get_pk())
        for hpk in sorted(b.seed_holders):
            l = b.Link(h=b.Holder[hpk]); b.orm.flush()
            b.links[l.get_pk()] = hpk
        for r in b.roots:
            members = [(pk, k) for (rr, pk), k in sorted(created.items()) if rr == r and any(s[2] == pk and s[1] == r for s in b.seed_holders.values())]
            h = b.Holder(**{'many%d' % r: [b.classes[r][pk] for pk, k in members]}); b.orm.flush()
            b.many[r] = (h.get_pk(), members)
            # several owners of the same many-to-many attribute, with disjoint member sets (every object of the tree, dealt round-robin)
            allm = [(pk, k) for (rr, pk), k in sorted(created.items()) if rr == r]
            groups = [allm[j::3] for j in range(3)]
            b.many_multi[r] = []
            for g_ in groups:
                h = b.Holder(**{'many%d' % r: [b.classes[r][pk] for pk, k in g_]}); b.orm.flush()
                b.many_multi[r].append((h.get_pk(), g_))
    return created, holders


def cname(o):
    return int(type(o).__name__[1:])


def seed_lookup(b, hpk, e, pkname, pk):
    """fresh session: load only the Holder row (the referenced object enters the identity map as an unloaded seed of the reference's
    declared class), then look the object up by primary key through class e -> class id | None | 'EXC name'; also reports whether the
    object really was an unloaded seed"""
    with b.orm.db_session:
        b.Holder[hpk]
        cache = b.db._get_cache()
        E = b.classes[e]
        seeds = cache.seeds.get(E._pk_attrs_, ())
        was_seed = any(o.get_pk() == pk for o in seeds)
        try:
            o = E.get(**{pkname: pk})
            return (None if o is None else cname(o)), was_seed
        except Exception as ex:
            return 'EXC ' + type(ex).__name__, was_seed


def chain_lookup(b, lpk, c):
    """fresh session: only the Link row is loaded, so its Holder is an unloaded placeholder; link.h.ref<c> has to fetch the Holder row
    inside Attribute.get (attr.load) and then hand out the referenced object -> class id at first access"""
    with b.orm.db_session:
        try:
            l = b.Link[lpk]
            o = getattr(l.h, 'ref%d' % c)
            first = cname(o)
            again = cname(getattr(l.h, 'ref%d' % c))
            return first, again
        except Exception as ex:
            return 'EXC ' + type(ex).__name__, None


def many_iter(b, r):
    """fresh session: iterate the many-to-many collection typed as root r -> [(pk, class id at first access)]"""
    hpk, members = b.many[r]
    with b.orm.db_session:
        h = b.Holder[hpk]
        return sorted((o.get_pk(), cname(o)) for o in getattr(h, 'many%d' % r))


def many_iter_multi(b, r, order, pre='iter'):
    """fresh session: all owners of the many-to-many attribute are fetched first (they sit in the session cache together, so that reading the
    collection of a second owner lets Pony bulk-load the collections of all remaining owners), then the collections are read one after
    another in `order` -> [(owner index, pk, class id at first access)].  pre: how each collection is touched before iterating
    ('iter' = just iterate, 'len' = len() first, 'in' = a membership test first)"""
    owners = b.many_multi[r]
    out = []
    with b.orm.db_session:
        hs = [b.Holder[hpk] for hpk, _ in owners]
        for n in order:
            coll = getattr(hs[n], 'many%d' % r)
            if pre == 'len': len(coll)
            elif pre == 'in': (hs[n] in coll)
            out += sorted((n, o.get_pk(), cname(o)) for o in coll)
    return out


def unpickled_ref(b, hpk, c):
    """pickle a Holder whose reference was never read, unpickle it in a new session, read the reference -> class id"""
    import pickle
    with b.orm.db_session:
        data = pickle.dumps(b.Holder[hpk])
    with b.orm.db_session:
        try:
            h = pickle.loads(data)
            return cname(getattr(h, 'ref%d' % c))
        except Exception as ex:
            return 'EXC ' + type(ex).__name__
