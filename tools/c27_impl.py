"""C27 implementation driver: random entity hierarchies built with the real EntityMeta on in-memory SQLite.

A hierarchy spec (JSON-able):
    {'mode': 'default' | 'str' | 'int', 'classes': [{'bases': [ids of earlier classes], 'discr': value or None}, ...]}
class i is named 'K<i>' and gets an attribute v<i>; every root R gets  holders<R> = Set('Holder')  and Holder gets  ref<R> = Optional(K<R>).
"""
import itertools


class Built(object):
    pass


def build(spec, mapping=True):
    """-> Built(db, classes, Holder, roots) or raises the exception of the first failing class statement"""
    from pony import orm
    db = orm.Database('sqlite', ':memory:')
    Meta = type(db.Entity)
    classes = []
    roots = []
    holder_attrs = {}
    for i, c in enumerate(spec['classes']):
        ns = {'v%d' % i: orm.Optional(int)}
        if not c['bases']:
            ns['holders%d' % i] = orm.Set('Holder', reverse='ref%d' % i)
            holder_attrs['ref%d' % i] = i
            roots.append(i)
            if spec['mode'] == 'int':
                ns['kind'] = orm.Discriminator(int)
        if c.get('discr') is not None:
            ns['_discriminator_'] = c['discr']
        bases = tuple(classes[b] for b in c['bases']) or (db.Entity,)
        classes.append(Meta('K%d' % i, bases, ns))
    hns = {name: orm.Optional(classes[r], reverse='holders%d' % r) for name, r in holder_attrs.items()}
    Holder = Meta('Holder', (db.Entity,), hns)
    if mapping:
        db.generate_mapping(create_tables=True)
    b = Built()
    b.db, b.classes, b.Holder, b.roots, b.orm, b.spec = db, classes, Holder, roots, orm, spec
    return b


def introspect(b):
    """what Pony computed, by class id"""
    idx = {c: i for i, c in enumerate(b.classes)}
    out = []
    for i, c in enumerate(b.classes):
        da = c._discriminator_attr_
        crit = c._construct_discriminator_criteria_()
        out.append({'all_bases': sorted(idx[x] for x in c._all_bases_),
                    'subclasses': sorted(idx[x] for x in c._subclasses_),
                    'direct': [idx[x] for x in c._direct_bases_],
                    'root': idx[c._root_],
                    'discr': c._discriminator_,
                    'has_discr_attr': da is not None,
                    'criteria': None if crit is None else [v[1] for v in crit[2]],
                    'code2cls': None if da is None else {k: idx[v] for k, v in da.code2cls.items()}})
    return out


def isinstance_condition(b, e, cs, negate=False):
    """the condition FuncIsinstanceMonad.call produced for  select(x for x in K<e> if isinstance(x, (K<c>..)))"""
    g = {'K%d' % i: c for i, c in enumerate(b.classes)}
    tup = '(%s,)' % ', '.join('K%d' % c for c in cs)
    src = 'x for x in K%d if %sisinstance(x, %s)' % (e, 'not ' if negate else '', tup)
    with b.orm.db_session:
        q = b.orm.select(src, g)
        cond = q._translator.conditions[-1]
    return cond


def populate(b, per_class=2):
    """create objects of every class and one Holder per object; -> {pk: class id}, {holder pk: (root, pk)}"""
    created, holders = {}, {}
    with b.orm.db_session:
        objs = []
        for i, c in enumerate(b.classes):
            for n in range(per_class):
                objs.append((i, c(**{'v%d' % i: n})))
        b.orm.flush()
        idx = {c: i for i, c in enumerate(b.classes)}
        for i, o in objs:
            r = idx[b.classes[i]._root_]
            h = b.Holder(**{'ref%d' % r: o})
            b.orm.flush()
            created[(r, o.get_pk())] = i
            holders[h.get_pk()] = (r, o.get_pk())
    return created, holders


def cname(o):
    return int(type(o).__name__[1:])
