"""Many-to-many link sets (Stage 2 piece of the session model): generator, implementation runner and correspondence with coq/Model/SessionM2M.v.

Fixed schema  A(id, bs = Set('B'))  /  B(id, as_ = Set('A'));  na / nb objects and some link rows are committed first; a history then runs
in one db_session that has fetched every object (a rollback starts a new session, the objects are fetched again):
    ['add'|'remove'|'assign', side, obj, [items]]   side 0 = a.bs, side 1 = b.as_      ['read', side, obj]      ['flush'] ['commit'] ['rollback']
Results: 'ok' | sorted list of primary keys | raised (the history ends there).  After commit / rollback the link table is dumped through a second connection.

Script protocol (vlib.run_impl): {"histories": [{"na", "nb", "links", "ops"}]} -> {"runs": [{"results": [...], "dumps": [...]}]}
Library: gen_history(rng), correspondence(ctx, seed, n) -> (cases, [problem text])
"""
import json, os, random, sys


def gen_history(rng):
    na, nb = rng.randint(1, 3), rng.randint(1, 3)
    links = sorted({(rng.randint(1, na), rng.randint(1, nb)) for _ in range(rng.randint(0, 5))})
    ops = []
    for _ in range(rng.randint(6, 22)):
        k = rng.choices(['add', 'remove', 'assign', 'read', 'flush', 'commit', 'rollback'], [6, 5, 3, 6, 2, 2, 1])[0]
        if k in ('flush', 'commit', 'rollback'):
            ops.append([k]); continue
        side = rng.randint(0, 1)
        n_own, n_oth = (na, nb) if side == 0 else (nb, na)
        o = rng.randint(1, n_own)
        if k == 'read': ops.append([k, side, o]); continue
        items = [rng.randint(1, n_oth) for _ in range(rng.choice([0, 1, 1, 1, 2, 2, 3]))]
        ops.append([k, side, o, items])
    return {'na': na, 'nb': nb, 'links': [list(p) for p in links], 'ops': ops}


# ---------------------------------------------------------------- implementation side

def run_history(h, workdir, idx):
    import sqlite3, warnings
    warnings.simplefilter('ignore')
    from pony import orm
    path = os.path.join(workdir, 'm2m%d.sqlite' % idx)
    if os.path.exists(path): os.remove(path)
    db = orm.Database()
    class A(db.Entity):
        id = orm.PrimaryKey(int)
        bs = orm.Set('B')
    class B(db.Entity):
        id = orm.PrimaryKey(int)
        as_ = orm.Set('A')
    db.bind('sqlite', path, create_db=True)
    db.generate_mapping(create_tables=True)
    table = A.bs.table if isinstance(A.bs.table, str) else A.bs.table[-1]
    with orm.db_session:
        for i in range(1, h['na'] + 1): A(id=i)
        for j in range(1, h['nb'] + 1): B(id=j)
        orm.flush()
        for a, b in h['links']: A[a].bs.add(B[b])

    def dump():
        con = sqlite3.connect(path)
        try:
            # the column named after entity a holds a's key
            info = [r[1] for r in con.execute('PRAGMA table_info("%s")' % table)]
            ca = [c for c in info if c.lower().startswith('a')][0]
            cb = [c for c in info if c.lower().startswith('b')][0]
            return sorted([list(r) for r in con.execute('SELECT "%s", "%s" FROM "%s"' % (ca, cb, table))])
        finally:
            con.close()

    results, dumps = [], []
    sess = orm.db_session()
    sess.__enter__()
    def fetch():
        return ({i: A[i] for i in range(1, h['na'] + 1)}, {j: B[j] for j in range(1, h['nb'] + 1)})
    objs = fetch()
    try:
        for op in h['ops']:
            k = op[0]
            try:
                if k in ('add', 'remove', 'assign', 'read'):
                    side, o = op[1], op[2]
                    obj = objs[side][o]
                    coll = obj.bs if side == 0 else obj.as_
                    if k == 'read':
                        r = sorted(x.id for x in coll)
                    else:
                        items = [objs[1 - side][x] for x in op[3]]
                        if k == 'add': coll.add(items)
                        elif k == 'remove': coll.remove(items)
                        else:
                            if side == 0: obj.bs = items
                            else: obj.as_ = items
                        r = 'ok'
                elif k == 'flush': orm.flush(); r = 'ok'
                elif k == 'commit': orm.commit(); r = 'ok'
                else:
                    orm.rollback()
                    sess.__exit__(None, None, None)
                    sess = orm.db_session(); sess.__enter__()
                    objs = fetch()
                    r = 'ok'
            except Exception as e:
                results.append({'raised': type(e).__name__ + ': ' + str(e)[:120]})
                dumps.append(None)
                break
            results.append(r)
            dumps.append(dump() if k in ('commit', 'rollback') else None)
    finally:
        try: sess.__exit__(None, None, None)
        except Exception: pass
        db.disconnect()
        try: os.remove(path)
        except OSError: pass
    return {'results': results, 'dumps': dumps}


def main():
    import tempfile, shutil
    payload = json.loads(sys.stdin.read())
    work = tempfile.mkdtemp(prefix='m2m_', dir='/tmp')
    try:
        runs = [run_history(h, work, i) for i, h in enumerate(payload['histories'])]
    finally:
        shutil.rmtree(work, ignore_errors=True)
    sys.stdout.write('\n@@JSON@@' + json.dumps({'runs': runs}))


# ---------------------------------------------------------------- model side

HEADER = ('Require Import PonyV.Model.SessionBase PonyV.Model.SessionM2M.\nOpen Scope nat_scope.\n')


def _nl(l): return '[' + '; '.join(str(int(x)) for x in l) + ']'
def _pl(l): return '[' + '; '.join('(%d, %d)' % (a, b) for a, b in l) + ']'


def coq_op(op):
    k = op[0]
    if k == 'add': return '(MAdd %d %d %s)' % (op[1], op[2], _nl(op[3]))
    if k == 'remove': return '(MRemove %d %d %s)' % (op[1], op[2], _nl(op[3]))
    if k == 'assign': return '(MAssign %d %d %s)' % (op[1], op[2], _nl(op[3]))
    if k == 'read': return '(MRead %d %d)' % (op[1], op[2])
    return {'flush': 'MFlush', 'commit': 'MCommit', 'rollback': 'MRollback'}[k]


def coq_result(r):
    if isinstance(r, dict): return '(MErr, true)'
    if r == 'ok': return '(MOk, false)'
    return '(MList %s, false)' % _nl(r)


def case_term(h, run):
    n = len(run['results'])
    return '(check_m2m (minit %d %d %s) [%s] [%s] [%s] 0)' % (
        h['na'], h['nb'], _pl(h['links']),
        '; '.join(coq_op(op) for op in h['ops'][:n]),
        '; '.join(coq_result(r) for r in run['results']),
        '; '.join('None' if d is None else '(Some %s)' % _pl(d) for d in run['dumps']))


def check_runs(ctx, hs, runs, chunk=60):
    import re
    import vlib, session_coq
    ok, log = vlib.make_targets(['Model/SessionM2M.vo'])
    if not ok: raise RuntimeError('making Model/SessionM2M.vo failed:\n' + log[-3000:])
    chunks = []
    for i in range(0, len(hs), chunk):
        chunks.append('Definition cases : list (nat * nat) := [\n' + ';\n'.join(case_term(h, r) for h, r in zip(hs[i:i + chunk], runs[i:i + chunk])) +
                      '].\nEval vm_compute in cases.\n')
    outs = session_coq.coq_eval_many_robust(ctx, HEADER, chunks, name='m2m')
    res = []
    for out in outs:
        vals = vlib.parse_eval_outputs(out)
        assert len(vals) == 1, out[-800:]
        res += [(int(a), int(b)) for a, b in re.findall(r'\(\s*(\d+)(?:%nat)?\s*,\s*(\d+)(?:%nat)?\)', vals[0])]
    assert len(res) == len(hs), (len(res), len(hs))
    return res


def correspondence(ctx, seed, n):
    """n generated histories: real Pony + SQLite against the model.  -> (compared histories, compared ops, [problem text])"""
    import vlib
    rng = random.Random(1000003 * seed + 77)
    hs = [gen_history(rng) for _ in range(n)]
    runs = vlib.run_impl('session_m2m.py', {'histories': hs}, timeout=900)['runs']
    verdicts = check_runs(ctx, hs, runs)
    problems, nops = [], 0
    for h, r, (code, i) in zip(hs, runs, verdicts):
        nops += len(r['results'])
        if code == 0: continue
        what = {3: 'result differs', 4: 'committed link rows differ', 5: 'the model reaches an assertion / error site, the implementation does not raise',
                6: 'the implementation raised, the model did not'}.get(code, 'the implementation raised at model site %d' % (code - 100))
        problems.append('many-to-many model vs implementation: %s at op %d of %s (implementation: %s)' % (
            what, i, json.dumps(h), json.dumps(r['results'][i] if i < len(r['results']) else None)))
    return len(hs), nops, problems


def extend_corr(ctx, corr, n_quick=120, n_thorough=1000):
    """Add the many-to-many correspondence run to the Corr of a session check (C09 / C12)."""
    n, nops, problems = correspondence(ctx, ctx.seed, ctx.scale(n_quick, n_thorough))
    corr.cases += nops
    corr.distribution['m2m_histories'] = n
    corr.distribution['m2m_ops_compared'] = nops
    for p in problems:
        corr.disagreements.append({'what': p})
    corr.note += '; plus %d many-to-many histories (%d ops) against coq/Model/SessionM2M.v' % (n, nops)
    return corr


if __name__ == '__main__':
    main()
