"""C23 implementation driver.

(1) "criteria": call construct_batchload_criteria_list of /repo with given shapes and serialise the SQL AST.
(2) "programs": run one generated program (data + list of steps) under the loading regimes
        default | lazy (every non-key attribute lazy) | prefetch (every query prefetches every relation)
        | np0 (nplus1_threshold=0 on every collection) | nphuge (nplus1_threshold=10**9)
    on SQLite and return, per regime, the list of observations (canonical values / exception classes) and the number of
    SELECT statements executed.  The observations must be identical across regimes; only the query counts may differ.

data  = {"groups": [[id, name]], "students": [[id, name, note_or_null, group_id_or_null]], "courses": [[name, sem, title]],
         "enrol": [[student_id, cname, sem]]}
steps = [["get", var, "S"|"G"|"C", pk], ["select", var, "S"|"G"|"C", [pks] | null], ["ref", var, src_var, "group"],
         ["attr", src_var, attr], ["coll", src_var, coll, "list"|"len"|"count"|"is_empty"|"contains"|"bool", operand?],
         ["each", list_var, attr | [coll, how]], ["add" | "remove" | "add_rev" | "remove_rev", s_var, c_pk]  (operands from the identity map: no SQL),
         ["set_group", s_var, g_id_or_null], ["gadd" | "gremove", g_var, s_pk]  (one-to-many collection changed from the group side),
         ["flush"]]
"""
import json, sys

from pony import orm
from pony.orm import core

REGIMES = ['default', 'lazy', 'prefetch', 'np0', 'nphuge']


def make_db(regime):
    db = orm.Database('sqlite', ':memory:')
    lazy = {'lazy': True} if regime == 'lazy' else {}
    np = {'nplus1_threshold': 0} if regime == 'np0' else ({'nplus1_threshold': 10 ** 9} if regime == 'nphuge' else {})

    class G(db.Entity):
        id = orm.PrimaryKey(int)
        name = orm.Required(str, **lazy)
        students = orm.Set('S', **np)
    class S(db.Entity):
        id = orm.PrimaryKey(int)
        name = orm.Required(str, **lazy)
        note = orm.Optional(str, nullable=True, **lazy)
        group = orm.Optional(G)
        courses = orm.Set('C', **np)
    class C(db.Entity):
        name = orm.Required(str)
        sem = orm.Required(int)
        title = orm.Optional(str, **lazy)
        students = orm.Set(S, **np)
        orm.PrimaryKey(name, sem)
    db.generate_mapping(create_tables=True)
    return db


def populate(db, data):
    with orm.db_session:
        gs = {g[0]: db.G(id=g[0], name=g[1]) for g in data['groups']}
        ss = {s[0]: db.S(id=s[0], name=s[1], note=s[2], group=gs.get(s[3])) for s in data['students']}
        cs = {(c[0], c[1]): db.C(name=c[0], sem=c[1], title=c[2]) for c in data['courses']}
        for sid, cn, sem in data['enrol']:
            ss[sid].courses.add(cs[(cn, sem)])


def canon(v):
    if isinstance(v, core.Entity):
        pk = v._pkval_
        return '%s#%s' % (type(v).__name__, json.dumps(pk))
    if isinstance(v, (list, tuple, set, frozenset)): return sorted((canon(x) for x in v), key=lambda x: json.dumps(x, sort_keys=True))
    if isinstance(v, (int, str, bool, type(None))): return v
    if isinstance(v, core.SetInstance): return canon(set(v))
    return repr(v)


def run_program(db, regime, steps):
    E = {'S': db.S, 'G': db.G, 'C': db.C}
    env, obs = {}, []
    sel = [0]
    def count(stmt):
        if stmt.lstrip().upper().startswith('SELECT'): sel[0] += 1
    def q(ent, pks):
        if pks is None: query = ent.select()
        elif ent is db.C: query = ent.select()
        else: query = ent.select(lambda x: x.id in pks)
        if regime == 'prefetch':
            if ent is db.S: query = query.prefetch(db.S.group, db.S.courses, db.G.students, db.C.students, db.S.note, db.C.title)
            elif ent is db.G: query = query.prefetch(db.G.students, db.S.courses, db.S.group, db.S.note)
            else: query = query.prefetch(db.C.students, db.S.group, db.S.courses, db.C.title)
        return sorted(query[:], key=lambda o: json.dumps(o._pkval_))
    def observe(fn):
        try: obs.append(['v', canon(fn())])
        except Exception as e: obs.append(['exc', type(e).__name__])
    def cached(ent, pk):
        """object by primary key, from the session's identity map when it is there (no SQL, hence no auto-flush)"""
        key = pk if ent is not db.C else tuple(pk)
        o = db._get_cache().indexes[ent._pk_attrs_].get(key)
        if o is None:           # never seen in this session: ask the database (a query; whether it is needed may depend on the regime)
            o = ent.get(**({'id': pk} if ent is not db.C else {'name': pk[0], 'sem': pk[1]}))
        return o
    def coll(o, cname, how, operand):
        c = getattr(o, cname)
        if how == 'list': return set(c)
        if how == 'len': return len(c)
        if how == 'count': return c.count()
        if how == 'is_empty': return c.is_empty()
        if how == 'bool': return bool(c)
        if how == 'contains':
            ent = db.S if cname == 'students' else db.C
            x = cached(ent, operand)
            return x in c if x is not None else None
        raise ValueError(how)
    with orm.db_session:
        con = db.get_connection()
        con.set_trace_callback(count)
        try:
            for st in steps:
                op = st[0]
                if op == 'get':
                    ent = E[st[2]]
                    pk = st[3]
                    def f(ent=ent, pk=pk):
                        if regime == 'prefetch' and ent is not db.C:
                            r = q(ent, [pk])
                            o = r[0] if r else None
                        else:
                            o = ent.get(**({'id': pk} if ent is not db.C else {'name': pk[0], 'sem': pk[1]}))
                        env[st[1]] = o
                        return o
                    observe(f)
                elif op == 'select':
                    def f(): env[st[1]] = q(E[st[2]], st[3]); return env[st[1]]
                    observe(f)
                elif op == 'ref':
                    def f():
                        o = env.get(st[2]); r = getattr(o, st[3]) if o is not None else None
                        env[st[1]] = r; return r
                    observe(f)
                elif op == 'attr':
                    observe(lambda: getattr(env[st[1]], st[2]) if env.get(st[1]) is not None else None)
                elif op == 'coll':
                    observe(lambda: coll(env[st[1]], st[2], st[3], st[4] if len(st) > 4 else None) if env.get(st[1]) is not None else None)
                elif op == 'each':
                    def f():
                        out = []
                        for o in env.get(st[1]) or []:
                            if isinstance(st[2], str):
                                v = getattr(o, st[2])
                                out.append([canon(o), canon(v)])
                            else: out.append([canon(o), canon(coll(o, st[2][0], st[2][1], None))])
                        return out
                    observe(f)
                elif op in ('add', 'remove', 'add_rev', 'remove_rev'):
                    def f():
                        s_obj = env.get(st[1]); c_obj = cached(db.C, st[2])
                        if s_obj is None or c_obj is None or not isinstance(s_obj, db.S): return 'no such object'
                        if op == 'add': s_obj.courses.add(c_obj)
                        elif op == 'remove': s_obj.courses.remove(c_obj)
                        elif op == 'add_rev': c_obj.students.add(s_obj)         # the same link, changed from the other side
                        else: c_obj.students.remove(s_obj)
                    observe(f)
                elif op in ('gadd', 'gremove'):
                    def f():
                        g_obj = env.get(st[1]); s_obj = cached(db.S, st[2])
                        if g_obj is None or s_obj is None or not isinstance(g_obj, db.G): return 'no such object'
                        if op == 'gadd': g_obj.students.add(s_obj)
                        else: g_obj.students.remove(s_obj)
                    observe(f)
                elif op == 'set_group':
                    def f():
                        o = env.get(st[1])
                        if o is not None: o.group = db.G[st[2]] if st[2] is not None else None
                    observe(f)
                elif op == 'flush':
                    observe(orm.flush)
                else: raise ValueError(op)
        finally:
            con.set_trace_callback(None)
            orm.rollback()
    return obs, sel[0]


_dbs = {}

def get_db(regime):
    if regime not in _dbs: _dbs[regime] = make_db(regime)
    db = _dbs[regime]
    with orm.db_session:
        for t in ('c_s', 's', 'c', 'g'): db.execute('delete from %s' % t)
    return db


def run_programs(payload):
    out = []
    for prog in payload:
        res = {}
        for regime in REGIMES:
            try:
                db = get_db(regime)
                populate(db, prog['data'])
                obs, n = run_program(db, regime, prog['steps'])
                res[regime] = {'obs': obs, 'selects': n}
            except Exception as e:
                res[regime] = {'obs': [['driver-exc', '%s: %s' % (type(e).__name__, str(e)[:200])]], 'selects': -1}
        out.append(res)
    return out


# ------------------------------------------------------------------------------------------------ criteria

class Conv(object):
    EQ = 'EQ'
    def __init__(self, j): self.j = j


def ser_param(p):
    assert p[0] == 'PARAM'
    i, a, b = p[1]
    return [i, b if b is not None else a]


def ser_crit(c, colix):
    t = c[0]
    if t == 'EQ': return ['EQ', colix[c[1][2]], ser_param(c[2])]
    if t == 'IN':
        if c[1][0] == 'COLUMN': return ['IN', colix[c[1][2]], [ser_param(p) for p in c[2]]]
        assert c[1][0] == 'ROW'
        return ['INROW', [colix[x[2]] for x in c[1][1:]], [[ser_param(p) for p in r[1:]] for r in c[2]]]
    if t == 'OR':
        return ['OR', [[[colix[e[1][2]], ser_param(e[2])] for e in conj[1:]] for conj in c[1:]]]
    raise ValueError(t)


def run_criteria(reqs):
    out = []
    for ncols, batch, start, rvs in reqs:
        cols = ['c%d' % j for j in range(ncols)]
        colix = {c: j for j, c in enumerate(cols)}
        try:
            crit = core.construct_batchload_criteria_list('T', cols, [Conv(j) for j in range(ncols)], batch, bool(rvs), start)
            out.append([ser_crit(c, colix) for c in crit])
        except Exception as e:
            out.append({'exc': '%s: %s' % (type(e).__name__, e)})
    return out


def run_sql_semantics(reqs):
    """Validate the model's reading of the four shapes against SQLite itself: build the SQL with the real builder and run it."""
    import sqlite3
    from pony.orm.dbproviders.sqlite import SQLiteProvider
    db = orm.Database('sqlite', ':memory:')
    out = []
    for ncols, keys, rows, rvs, start in reqs:
        cols = ['c%d' % j for j in range(ncols)]
        class Cv(object):
            EQ = 'EQ'
            attr = None
            optimistic = True
            def __init__(self): pass
            def sql2py(self, v): return v
            def py2sql(self, v): return v
            def val2dbval(self, v, obj=None): return v
        batch = len(keys)
        crit = core.construct_batchload_criteria_list(None, cols, [Cv() for _ in cols], batch, bool(rvs), start, from_seeds=False)
        ast = ['SELECT', ['ALL'] + [['COLUMN', None, c] for c in cols], ['FROM', [None, 'TABLE', 't']], ['WHERE'] + crit]
        sql, adapter = db._ast2sql(ast)
        args = adapter([tuple([0] * ncols)] * start + [tuple(k) for k in keys])
        con = sqlite3.connect(':memory:')
        con.execute('create table t (%s)' % ', '.join('%s integer' % c for c in cols))
        con.executemany('insert into t values (%s)' % ', '.join('?' * ncols), [tuple(r) for r in rows])
        got = sorted(list(r) for r in con.execute(sql, args).fetchall())
        out.append(got)
    return out


# ------------------------------------------------------------------------------------------------ SetData histories (tie of Model/C23Load.v)

def run_coll_history(h):
    """One owner (student 1) and its `courses` collection.  h = {"regime", "courses": n, "rows": [course indexes linked to student 1],
    "others": [[student id, [course indexes]]], "preload": "none"|"partial"|"full", "ops": [[op, arg?]]}
    ops: len | iter | count | is_empty | contains i | add i | remove i | add_rev i | remove_rev i | flush | other_len sid
    After every op: result, link rows of the owner (raw cursor: no flush), the SetData fields of the owner's collection."""
    regime = h['regime']
    db = get_db(regime)
    n = h['courses']
    with orm.db_session:
        cs = [db.C(name='c%d' % i, sem=1, title='') for i in range(n)]
        s1 = db.S(id=1, name='s1')
        for i in h['rows']: s1.courses.add(cs[i])
        for sid, idx in h['others']:
            so = db.S(id=sid, name='s%d' % sid)
            for i in idx: so.courses.add(cs[i])
    out = []
    with orm.db_session:
        con = db.get_connection()
        allc = {c.name: c for c in db.C.select()[:]}          # every course is in the identity map: operands need no SQL
        cobj = [allc['c%d' % i] for i in range(n)]
        others = {x.id: x for x in db.S.select(lambda x: x.id != 1)[:]}
        s = db.S.get(id=1)
        if h['preload'] == 'full': list(s.courses)
        elif h['preload'] == 'partial' and n: cobj[0] in s.courses
        attr = db.S.courses
        def snap():
            sd = s._vals_.get(attr)
            rows = sorted(int(r[0][1:]) for r in con.execute('select c_name from C_S where s = 1').fetchall())
            if sd is None: return rows, None
            ix = lambda xs: sorted(int(c.name[1:]) for c in xs)
            return rows, {'items': ix(sd), 'full': bool(sd.is_fully_loaded), 'added': ix(sd.added or ()), 'removed': ix(sd.removed or ()),
                          'absent': None if sd.absent is None else ix(sd.absent), 'count': sd.count}
        for op in h['ops']:
            before = snap()
            try:
                k = op[0]
                if k == 'len': r = len(s.courses)
                elif k == 'iter': r = sorted(int(c.name[1:]) for c in s.courses)
                elif k == 'count': r = s.courses.count()
                elif k == 'is_empty': r = s.courses.is_empty()
                elif k == 'contains': r = cobj[op[1]] in s.courses
                elif k == 'add': r = s.courses.add(cobj[op[1]])
                elif k == 'remove': r = s.courses.remove(cobj[op[1]])
                elif k == 'assign': s.courses = [cobj[i] for i in op[1]]; r = None       # Set.__set__: only the invariant is checked afterwards
                elif k == 'add_rev': r = cobj[op[1]].students.add(s)
                elif k == 'remove_rev': r = cobj[op[1]].students.remove(s)
                elif k == 'flush': r = orm.flush()
                elif k == 'other_len': r = len(others[op[1]].courses) if op[1] in others else None
                else: raise ValueError(k)
                res = ['v', r]
            except Exception as e:
                res = ['exc', type(e).__name__]
            after = snap()
            out.append({'op': op, 'before': before, 'result': res, 'after': after})
        orm.rollback()
    return out


def run_coll_history_o2m(h):
    """One owner (group 1) and its one-to-many `students` collection; items are students 0..n-1 (all loaded first, so their `group`
    attribute is in _vals_: Set.load(obj, items) has nothing to ask).  ops: len | iter | count | is_empty | contains i | add i | remove i |
    flush | other_len.  rows = students whose group column is 1 (raw cursor)."""
    regime = h['regime']
    db = get_db(regime)
    n = h['courses']
    with orm.db_session:
        g1 = db.G(id=1, name='g1'); g2 = db.G(id=2, name='g2')
        for i in range(n):
            db.S(id=i + 1, name='s%d' % i, group=(g1 if i in h['rows'] else (g2 if i % 2 else None)))
    out = []
    with orm.db_session:
        con = db.get_connection()
        g = db.G.get(id=1); g_other = db.G.get(id=2)
        if h['preload'] == 'full': list(g.students)
        lazy_items = bool(h.get('lazy_items'))
        sobj = {} if lazy_items else {x.id - 1: x for x in db.S.select()[:]}
        attr = db.G.students
        def item(i):
            """student i if its `group` attribute is loaded in this session (identity map only, no SQL), else None"""
            x = sobj.get(i) or db._get_cache().indexes[db.S._pk_attrs_].get(i + 1)
            return x if x is not None and x._vals_ is not None and db.S.group in x._vals_ else None
        def snap():
            sd = g._vals_.get(attr)
            rows = sorted(r[0] - 1 for r in con.execute('select id from S where "group" = 1').fetchall())
            loaded = sorted(x.id - 1 for x in db._get_cache().indexes[db.S._pk_attrs_].values() if x._vals_ is not None and db.S.group in x._vals_)
            if sd is None: return rows, None, loaded
            ix = lambda xs: sorted(x.id - 1 for x in xs)
            return rows, {'items': ix(sd), 'full': bool(sd.is_fully_loaded), 'added': ix(sd.added or ()), 'removed': ix(sd.removed or ()),
                          'absent': None if sd.absent is None else ix(sd.absent), 'count': sd.count}, loaded
        for op in h['ops']:
            if op[0] in ('contains', 'add', 'remove', 'add_rev', 'remove_rev') and item(op[1]) is None: continue   # operand not loaded yet
            before = snap()
            try:
                k = op[0]
                if k == 'len': r = len(g.students)
                elif k == 'iter': r = sorted(x.id - 1 for x in g.students)
                elif k == 'count': r = g.students.count()
                elif k == 'is_empty': r = g.students.is_empty()
                elif k == 'load_item':
                    x = db.S.get(id=op[1] + 1); r = None
                    if x is not None: sobj[op[1]] = x
                elif k == 'contains': r = item(op[1]) in g.students
                elif k == 'add': r = g.students.add(item(op[1]))
                elif k == 'remove': r = g.students.remove(item(op[1]))
                elif k == 'add_rev': item(op[1]).group = g; r = None
                elif k == 'remove_rev': item(op[1]).group = None; r = None
                elif k == 'flush': r = orm.flush()
                elif k == 'other_len': r = len(g_other.students)
                else: raise ValueError(k)
                res = ['v', r]
            except Exception as e:
                res = ['exc', type(e).__name__]
            out.append({'op': op, 'before': before, 'result': res, 'after': snap()})
        orm.rollback()
    return out


def main():
    payload = json.load(sys.stdin)
    res = {'criteria': run_criteria(payload.get('criteria', [])), 'programs': run_programs(payload.get('programs', [])),
           'sql': run_sql_semantics(payload.get('sql', [])), 'colls': [(run_coll_history_o2m(h) if h.get('kind') == 'o2m' else run_coll_history(h)) for h in payload.get('colls', [])]}
    sys.stdout.write('\n@@JSON@@' + json.dumps(res))


if __name__ == '__main__':
    main()
