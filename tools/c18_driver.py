"""C18 implementation driver: runs session programs against the real pony.orm.db_session on a file-backed SQLite DB.

stdin: {"dbdir": path, "cases": [case, ...]}      stdout: "\n@@JSON@@" + {"results": [obs, ...], "info": {...}}

Exceptions are small integers (kinds); kind k is raised as an instance of class K_k, which derives from the marker
classes A_k and R_k that the `allowed_exceptions` / `retry_exceptions` lists name (so that one kind can be in both lists
without tripping the constructor's "same exception in both lists" check), and carries `should_retry = True` if k is in
SHOULD_RETRY.  Kinds in BASE_ONLY derive from BaseException only; the `try` node of a program is `except Exception: pass`.  A poisoned write is an object whose before_insert hook raises (kind `cfail`) when commit() flushes it.

Observation of one case: the trace of [run i npend depth] / [commit n] / [commitfail n] / [rollback n] events (commit and
rollback are the module-level functions of pony.orm.core, wrapped from the outside), the committed markers afterwards
(read back by a separate session), the propagated exception kind, local.db_context_counter and pending writes afterwards.
"""
import json, os, sys, types

NK = 9
SHOULD_RETRY = (4, 5)
BASE_ONLY = (6, 7, 8)      # kinds derived from BaseException, not from Exception (like SystemExit / KeyboardInterrupt)
MUST_COMMIT = 100
ROLLBACK_FAILED = 101


def main():
    payload = json.load(sys.stdin)
    from pony import orm
    from pony.orm import core

    dbpath = os.path.join(payload['dbdir'], 'c18-%d.sqlite' % os.getpid())
    if os.path.exists(dbpath): os.remove(dbpath)
    db = orm.Database()
    LOG = []
    CF = [0]

    root = lambda k: BaseException if k in BASE_ONLY else Exception
    A = [type('A_%d' % k, (root(k),), {}) for k in range(NK)]
    R = [type('R_%d' % k, (root(k),), {}) for k in range(NK)]
    K = [type('K_%d' % k, (A[k], R[k]), {'should_retry': True} if k in SHOULD_RETRY else {}) for k in range(NK)]

    def kind_of(e):
        for k in range(NK):
            if type(e) is K[k]: return k
        if isinstance(e, core.TransactionError) and 'manually commit()' in str(e): return MUST_COMMIT
        if isinstance(e, core.RollbackException): return ROLLBACK_FAILED
        return 'other:%s' % type(e).__name__

    class T(db.Entity):
        marker = orm.Required(int)
        poison = orm.Required(bool, default=False)
        def before_insert(self):
            if self.poison: raise K[CF[0]]('poisoned write')

    db.bind('sqlite', dbpath, create_db=True)
    db.generate_mapping(create_tables=True)

    def npending():
        return sum(len([o for o in c.objects_to_save if o is not None]) for c in core.local.db2cache.values())

    orig_commit, orig_rollback = core.commit, core.rollback
    def commit_w():
        n = npending()
        try: orig_commit()
        except BaseException:
            LOG.append(['commitfail', n]); raise
        LOG.append(['commit', n])
    FAIL_RB = [False]
    def rollback_w():
        LOG.append(['rollback', npending()])
        orig_rollback()
        if FAIL_RB[0]:
            # fault injection at the boundary of core.rollback(): the session cache is gone (SessionCache.close forgets it before the
            # provider's rollback is attempted), then the failure surfaces as RollbackException
            raise core.RollbackException('injected: rollback failed', [(RuntimeError, RuntimeError('injected'), None)])
    core.commit, core.rollback = commit_w, rollback_w

    def mk_session(s):
        allowed, retryable = s['allowed'], s['retryable']
        rep = s.get('rep', 'list')
        kw = dict(s.get('flags') or {})
        if rep[0] == 'l': kw['allowed_exceptions'] = [A[k] for k in allowed]
        else: kw['allowed_exceptions'] = lambda e: any(isinstance(e, A[k]) for k in allowed)
        if rep[-1] == 'l': kw['retry_exceptions'] = [R[k] for k in retryable]
        else: kw['retry_exceptions'] = lambda e: any(isinstance(e, R[k]) for k in retryable)
        if s['retry']: kw['retry'] = s['retry']
        return orm.db_session(**kw)

    def leaf(i, poison, out):
        LOG.append(['run', i, npending(), core.local.db_context_counter])
        T(marker=i, poison=bool(poison))
        if out >= 0: raise K[out]('body raises kind %d' % out)

    def run_prog(p, as_with=True):
        tag = p[0]
        if tag == 'leaf': return leaf(p[1], p[2], p[3])
        if tag == 'seq':
            run_prog(p[1]); return run_prog(p[2])
        if tag == 'try':
            try: run_prog(p[1])
            except Exception: pass
            return
        if tag == 'with':
            with mk_session(p[1]):
                run_prog(p[2])
            return
        if tag == 'call':
            f = mk_session(p[1])(lambda: run_prog(p[2]))
            return f()
        raise ValueError(tag)

    def observe(thunk, kind_fn=None):
        del LOG[:]
        exc = -1
        try: thunk()
        except BaseException as e:
            exc = (kind_fn or kind_of)(e)
            if not isinstance(e, Exception) and not isinstance(exc, int): raise      # a real KeyboardInterrupt / SystemExit of the harness
        depth_after = core.local.db_context_counter
        pending_after = npending()
        session_after = core.local.db_session is not None
        trace = list(LOG)
        # make sure a broken implementation cannot leak state into the next case
        if depth_after or pending_after or session_after or core.local.db2cache:
            try: orig_rollback()
            except Exception: pass
            core.local.db_context_counter = 0
            core.local.db_session = None
        with orm.db_session:
            rows = [m for (i, m) in sorted(orm.select((t.id, t.marker) for t in T)[:])]
            db.execute('delete from T')
        return {'trace': trace, 'rows': rows, 'exc': exc, 'depth_after': depth_after, 'pending_after': pending_after,
                'session_after': session_after}

    # ------------------------------------------------------------------ web stubs
    def install_flask():
        req = types.SimpleNamespace()
        class Flask(object):
            def __init__(self, name='app'):
                self.before, self.teardown = [], []
            def before_request(self, f): self.before.append(f); return f
            def teardown_request(self, f): self.teardown.append(f); return f
            def dispatch(self, view):
                """before_request functions, the view, then the teardown functions with the unhandled exception (or None)."""
                for k in list(vars(req)): delattr(req, k)
                err = None
                try:
                    for f in self.before: f()
                    view()
                except BaseException as e:      # Flask.wsgi_app: `except Exception` and a bare `except:` both record the error for the teardown
                    err = e
                for f in reversed(self.teardown): f(err)
                if err is not None: raise err
        m = types.ModuleType('flask'); m.request = req; m.Flask = Flask
        sys.modules['flask'] = m
        sys.modules.pop('pony.flask', None)
        import pony.flask as pf
        app = Flask()
        pf.Pony(app)
        return app

    def install_bottle():
        class HTTPResponse(Exception): pass
        class HTTPError(HTTPResponse): pass
        m = types.ModuleType('bottle'); m.HTTPResponse = HTTPResponse; m.HTTPError = HTTPError
        sys.modules['bottle'] = m
        sys.modules.pop('pony.orm.integration.bottle_plugin', None)
        from pony.orm.integration import bottle_plugin
        class TE(core.TransactionError): pass
        class Abort(BaseException): pass
        excs = [Exception, HTTPResponse, HTTPError, TE, Abort]
        return bottle_plugin.PonyPlugin(), excs

    flask_app = bottle = None
    results = []
    for case in payload['cases']:
        kind = case['kind']
        CF[0] = case.get('cfail', 0)
        if kind == 'stream':
            stream = case['stream']
            n = [0]
            def fn():
                i = n[0]; n[0] += 1
                p, o = stream[i] if i < len(stream) else (0, -1)
                leaf(i, p, o)
            f = mk_session(case['sess'])(fn)
            results.append(observe(f))
        elif kind == 'fault':
            def pred(b):
                if b == 'yes': return lambda e: True
                if b == 'no': return lambda e: False
                k = b[1]
                def raising(e): raise K[k]('predicate raises kind %d' % k)
                return raising
            p, o = case['leaf']
            sess = orm.db_session(allowed_exceptions=pred(case['allowed']), retry_exceptions=pred(case['retryable']))
            if case['form'] == 'decor':
                thunk = sess(lambda: leaf(0, p, o))
            else:
                def thunk():
                    with sess: leaf(0, p, o)
            FAIL_RB[0] = bool(case['rb_fail'])
            try: results.append(observe(thunk))
            finally: FAIL_RB[0] = False
        elif kind == 'prog':
            results.append(observe(lambda: run_prog(case['prog'])))
        elif kind == 'gen':
            steps = case['steps']
            def genfn():
                for ops, end in steps:
                    for op in ops:
                        if op[0] == 'w':
                            LOG.append(['run', op[1], npending(), core.local.db_context_counter])
                            T(marker=op[1], poison=bool(op[2]))
                        elif op[0] == 'f':
                            core.flush()                                   # explicit flush: INSERTs go out, transaction stays open
                        elif op[0] == 'q':
                            orm.select(t.id for t in T)[:]                 # a query: auto-flush of pending changes first
                        else:
                            core.commit()
                    if end == 'yield': yield 1
                    elif end == 'stop': return
                    else: raise K[end[1]]('generator raises')
                while True: yield 0     # more steps than described are never requested
            class Susp(object):
                def __await__(self): yield 1
            async def cofn():
                # the same steps as an `async def` coroutine: suspension = await of something that yields to the event loop
                for ops, end in steps:
                    for op in ops:
                        if op[0] == 'w':
                            LOG.append(['run', op[1], npending(), core.local.db_context_counter])
                            T(marker=op[1], poison=bool(op[2]))
                        elif op[0] == 'f': core.flush()
                        elif op[0] == 'q': orm.select(t.id for t in T)[:]
                        else: core.commit()
                    if end == 'yield': await Susp()
                    elif end == 'stop': return
                    else: raise K[end[1]]('coroutine raises')
                while True: await Susp()
            g = mk_session(case['sess'])(cofn if case.get('coro') else genfn)
            state = {}
            def consume():
                it = g()
                state['finished'] = False
                for k in range(len(steps)):
                    if k and case.get('interleave'):
                        # while the generator is suspended the same thread runs another, read-only db_session
                        # (it gets the thread's pooled connection and rolls it back on release)
                        keep = len(LOG)
                        with orm.db_session:
                            orm.select(t.id for t in T)[:]
                        del LOG[keep:]          # the other session's own commit() call is not part of the generator's trace
                    try: it.send(None)
                    except StopIteration:
                        state['finished'] = True
                        return
                    except BaseException:
                        state['finished'] = True
                        raise
                it.close()      # the consumer drops the suspended generator (explicitly, so that it does not depend on the GC)
            obs = observe(consume)
            obs['finished'] = state.get('finished')
            results.append(obs)
        elif kind == 'flask':
            if flask_app is None: flask_app = install_flask()
            p, o = case['view']
            results.append(observe(lambda: flask_app.dispatch(lambda: leaf(0, p, o))))
        elif kind == 'bottle':
            if bottle is None: bottle = install_bottle()
            plugin, excs = bottle
            p, o = case['view']
            def cb():
                LOG.append(['run', 0, npending(), core.local.db_context_counter])
                T(marker=0, poison=bool(p))
                if o >= 0: raise excs[o]('callback raises')
            wrapped = plugin.apply(cb, None)
            def bk(e):
                for j, c in enumerate(excs):
                    if type(e) is c: return j
                return kind_of(e)
            results.append(observe(wrapped, bk))
        elif kind == 'with_retry':
            # `with db_session(retry=n)` is refused on entry
            del LOG[:]
            try:
                with orm.db_session(retry=case['retry']): leaf(0, 0, -1)
                r = 'entered'
            except TypeError: r = 'TypeError'
            if core.local.db_context_counter or core.local.db2cache:
                orig_rollback(); core.local.db_context_counter = 0; core.local.db_session = None
            with orm.db_session: db.execute('delete from T')
            results.append({'result': r})
        else:
            raise ValueError(kind)

    import sqlite3
    db.disconnect()
    try: os.remove(dbpath)
    except OSError: pass
    sys.stdout.write('\n@@JSON@@' + json.dumps({'results': results, 'info': {'sqlite': sqlite3.sqlite_version, 'python': sys.version.split()[0]}}))


if __name__ == '__main__':
    main()
