"""Tie A for the session model: behaviour switches read from the source of /repo on every run -> coq/Gen/SessionFlags.v.

The session model (coq/Model/Session.v) is hand-written, but three places where the code has a recorded defect with a small, local
repair (proposed or already committed) are modelled for BOTH shapes of the code; which shape /repo has is decided here by inspecting the function bodies (ast):

  remove_rebooks_one_to_many  SetInstance.remove repeats the bookkeeping (items, count, added / removed) that Set.reverse_remove - reached through
                              the items - has already done for a one-to-many collection (True: the cached count goes one too low) /
                              returns right after the reverse updates (False; /repo commit 11753a1)
  assign_rebooks_one_to_many  Set.__set__ records `to_remove` in added / removed also for one-to-many (True) / only for many-to-many (False; 11753a1)
  entity_set_registers_undo   Entity.set appends its own undo closure (status, written bits, queue, index updates) to undo_funcs and runs them in
                              reverse order (True; proposed_fixes/C13-entity-set-registers-and-reverses-undo.diff) / defines it but never
                              registers it and runs the others in forward order (False: the recorded defect)
  get_binds_before_flush      EntityMeta._find_in_db_ binds the query arguments before the auto-flush (True: a new object used as a
                              criterion has no primary key yet, the query gets NULL) / after prepare_connection_for_query_execution (False)
  select_binds_before_flush   Query._actual_fetch: the same for select(**kwargs) / queries with entity parameters
  failed_create_unregisters   Entity.__init__: when the creation raises after _get_from_identity_map_ registered the new object, the except block removes it
                              from the primary-key index again (True; /repo commit 751c8a4) / leaves the half-built object there (False: the recorded
                              defect "phantom").  The model keeps the phantom at its dirty site 1 (no claim is made after it); the flag guards the two
                              witnesses that refute the invariants for the old shape (Findings/C11.v, Findings/C12.v)

Anything else (the statements are missing or in an unexpected order) raises TranslateError: the model does not know that code.
"""
import ast, os
import vlib


def _functions(path):
    src = open(path).read()
    tree = ast.parse(src)
    out = {}
    for cls in [n for n in tree.body if isinstance(n, ast.ClassDef)]:
        for fn in [n for n in cls.body if isinstance(n, ast.FunctionDef)]:
            out[(cls.name, fn.name)] = ast.get_source_segment(src, fn)
    return out


def flags():
    fs = _functions(os.path.join(vlib.REPO, 'pony', 'orm', 'core.py'))
    def body(cls, name):
        if (cls, name) not in fs: raise vlib.TranslateError('%s.%s not found in core.py' % (cls, name))
        return fs[(cls, name)]
    out = {}
    b = body('SetInstance', 'remove')
    if 'setdata -= items' not in b or 'setdata.count -= len(items)' not in b:
        raise vlib.TranslateError('SetInstance.remove: the bookkeeping after the reverse updates has an unknown shape')
    early = 'if not reverse.is_collection: return' in b and b.index('if not reverse.is_collection: return') < b.index('setdata -= items')
    out['remove_rebooks_one_to_many'] = not early
    b = body('Set', '__set__')
    if 'if to_remove and reverse.is_collection:' in b: out['assign_rebooks_one_to_many'] = False
    elif 'if to_remove:' in b: out['assign_rebooks_one_to_many'] = True
    else: raise vlib.TranslateError('Set.__set__: the bookkeeping of removed items has an unknown shape')
    b = body('Entity', 'set')
    reg, rev = 'undo_funcs.append(undo_func)' in b, 'for undo_func in reversed(undo_funcs): undo_func()' in b
    if reg != rev or (not reg and 'for undo_func in undo_funcs: undo_func()' not in b):
        raise vlib.TranslateError('Entity.set: the undo handling has neither of the two known shapes')
    out['entity_set_registers_undo'] = reg
    b = body('EntityMeta', '_find_in_db_')
    if 'arguments = adapter(avdict)' not in b or '_exec_sql(sql, arguments)' not in b:
        raise vlib.TranslateError('EntityMeta._find_in_db_: argument binding / execution not found')
    ia, ie = b.index('arguments = adapter(avdict)'), b.index('_exec_sql(sql, arguments)')
    ip = b.find('prepare_connection_for_query_execution()')
    if ia > ie: raise vlib.TranslateError('EntityMeta._find_in_db_: arguments are bound after the execution?')
    out['get_binds_before_flush'] = not (0 <= ip < ia)
    b = body('Query', '_actual_fetch')
    if '_construct_sql_and_arguments(' not in b or 'prepare_connection_for_query_execution()' not in b:
        raise vlib.TranslateError('Query._actual_fetch: construction / connection preparation not found')
    out['select_binds_before_flush'] = b.index('_construct_sql_and_arguments(') < b.index('prepare_connection_for_query_execution()')
    b = body('Entity', '__init__')
    if 'for undo_func in reversed(undo_funcs): undo_func()' not in b or '_get_from_identity_map_(' not in b:
        raise vlib.TranslateError('Entity.__init__: creation through _get_from_identity_map_ / the undo of a failed creation not found')
    out['failed_create_unregisters'] = 'if pk_index.get(pkval) is obj: del pk_index[pkval]' in b
    return out


def generate():
    fl = flags()
    lines = ['(* GENERATED by tools/session_flags.py from pony/orm/core.py on every run - do not edit.',
             '   Which of the two modelled shapes three small pieces of the code have (see the docstring of the generator). *)',
             'Definition remove_rebooks_one_to_many : bool := %s.' % str(fl['remove_rebooks_one_to_many']).lower(),
             'Definition assign_rebooks_one_to_many : bool := %s.' % str(fl['assign_rebooks_one_to_many']).lower(),
             'Definition entity_set_registers_undo : bool := %s.' % str(fl['entity_set_registers_undo']).lower(),
             'Definition get_binds_before_flush : bool := %s.' % str(fl['get_binds_before_flush']).lower(),
             'Definition select_binds_before_flush : bool := %s.' % str(fl['select_binds_before_flush']).lower(),
             'Definition failed_create_unregisters : bool := %s.' % str(fl['failed_create_unregisters']).lower(), '']
    return '\n'.join(lines)


if __name__ == '__main__':
    print(generate())
