"""C04 implementation-side drivers: symbolic evaluation of expression trees, the real ast2src, end-to-end queries.

Oracle of the property ("regenerating source text from an expression tree and compiling it again never changes its meaning"):
    observe(eval(compile(tree)))  ==  observe(eval(compile(ast2src(tree))))
in a scope of *recording* values: every operator, attribute access, call, subscript, format and truth test builds a term that shows
how the operands were grouped, and truth tests are logged in order (short-circuit behaviour).  Two trees that Python groups differently
give different observations; semantically equal regroupings (a or (b or c)) give equal ones.
"""
import ast, copy, zlib
import c04_gen as G


class Trace(object):
    log = []


def _truth(s):
    return bool(zlib.crc32(s.encode('utf-8', 'replace')) & 1)


def show(x, depth=0):
    if isinstance(x, V): return x.r
    if isinstance(x, slice): return 'slice(%s,%s,%s)' % (show(x.start), show(x.stop), show(x.step))
    if isinstance(x, tuple): return 'T(' + ','.join(show(i, depth) for i in x) + ')'
    if isinstance(x, list): return 'L[' + ','.join(show(i, depth) for i in x) + ']'
    if isinstance(x, dict): return 'D{' + ','.join('%s:%s' % (show(k), show(v, depth)) for k, v in sorted(x.items(), key=lambda kv: show(kv[0]))) + '}'
    if callable(x) and getattr(x, '__name__', '') == '<lambda>':
        n = x.__code__.co_argcount
        if depth > 3: return 'lambda/%d' % n
        try:
            r = show(x(*[V('$%d' % i) for i in range(n)]), depth + 1)
        except Exception as e:
            r = 'EXC ' + type(e).__name__
        return 'lambda/%d:%s' % (n, r)
    return repr(x)


def _bin(sym):
    def f(self, o): return V('(%s%s%s)' % (self.r, sym, show(o)))
    def rf(self, o): return V('(%s%s%s)' % (show(o), sym, self.r))
    return f, rf


class V(object):
    """A recording value."""
    def __init__(self, r): self.__dict__['r'] = r
    def __repr__(self): return self.r
    def __str__(self): return 'str(%s)' % self.r
    def __format__(self, spec): return '<%s|%s>' % (self.r, spec)
    def __hash__(self): return hash(self.r)
    def __bool__(self):
        Trace.log.append(self.r)
        return _truth(self.r)
    def __contains__(self, item):
        s = '(%s in %s)' % (show(item), self.r)
        Trace.log.append(s)
        return _truth(s)
    def __getattr__(self, name):
        if name.startswith('__'): raise AttributeError(name)
        return V('%s.%s' % (self.r, name))
    def __call__(self, *a, **k):
        return V('%s(%s)' % (self.r, ','.join([show(x) for x in a] + ['%s=%s' % (n, show(v)) for n, v in sorted(k.items())])))
    def __getitem__(self, k): return V('%s[%s]' % (self.r, show(k)))
    def __iter__(self): return iter([V('%s#0' % self.r), V('%s#1' % self.r)])
    def keys(self): return ['m_' + ''.join(c for c in self.r if c.isalnum())[:6]]
    def __neg__(self): return V('(-%s)' % self.r)
    def __pos__(self): return V('(+%s)' % self.r)
    def __invert__(self): return V('(~%s)' % self.r)
    def __pow__(self, o, m=None): return V('(%s**%s)' % (self.r, show(o)))
    def __rpow__(self, o, m=None): return V('(%s**%s)' % (show(o), self.r))
    def __eq__(self, o): return V('(%s==%s)' % (self.r, show(o)))
    def __ne__(self, o): return V('(%s!=%s)' % (self.r, show(o)))
    def __lt__(self, o): return V('(%s<%s)' % (self.r, show(o)))
    def __le__(self, o): return V('(%s<=%s)' % (self.r, show(o)))
    def __gt__(self, o): return V('(%s>%s)' % (self.r, show(o)))
    def __ge__(self, o): return V('(%s>=%s)' % (self.r, show(o)))


for _name, _sym in [('add', '+'), ('sub', '-'), ('mul', '*'), ('truediv', '/'), ('floordiv', '//'), ('mod', '%'), ('lshift', '<<'),
                    ('rshift', '>>'), ('and', '&'), ('or', '|'), ('xor', '^')]:
    _f, _rf = _bin(_sym)
    setattr(V, '__%s__' % _name, _f)
    setattr(V, '__r%s__' % _name, _rf)


def sym_scope():
    return {n: V(n) for n in G.NAMES + ['g', 'h', 'm', 'n', 'x', 'y', 'w']}


def observe_code(code, scope):
    """('val', shown value, truth-test log) or ('exc', exception type name, log)"""
    Trace.log = []
    try:
        g = dict(scope); g['__builtins__'] = {}          # one namespace: lambda bodies look their free names up in globals
        v = eval(code, g)
        return ('val', show(v), tuple(Trace.log))
    except RecursionError:
        raise
    except Exception as e:
        return ('exc', type(e).__name__, tuple(Trace.log))


def real_src(tree_ast):
    """ast2src of /repo on a private copy of the tree (ast2src caches .src on nodes and mutates child .src)."""
    from pony.orm.asttranslation import ast2src
    return ast2src(copy.deepcopy(tree_ast))


def check_tree(t, scope_fn=sym_scope):
    """-> None if the property holds on this tree, else a dict describing the failure."""
    node = G.to_ast(t)
    expr = ast.fix_missing_locations(ast.Expression(body=copy.deepcopy(node)))
    try:
        code0 = compile(expr, '<tree>', 'eval')
    except (SyntaxError, ValueError, TypeError) as e:
        return {'skip': 'tree does not compile: %s' % e}
    want = observe_code(code0, scope_fn())
    try:
        src = real_src(node)
    except Exception as e:
        return {'kind': 'ast2src-raises', 'exc': type(e).__name__, 'msg': str(e)[:120], 'want': want}
    try:
        code1 = compile(src, '<pony ' + src + '>', 'eval')
    except SyntaxError as e:
        return {'kind': 'source-does-not-compile', 'src': src, 'exc': 'SyntaxError', 'want': want}
    got = observe_code(code1, scope_fn())
    if got != want:
        return {'kind': 'meaning-changed', 'src': src, 'got': got, 'want': want}
    return None


# ------------------------------------------------------------------------------------------------ end to end: queries on SQLite

_db = {}


def get_db():
    if 'db' in _db: return _db['db'], _db['P']
    from pony import orm
    db = orm.Database('sqlite', ':memory:')
    class P(db.Entity):
        x = orm.Optional(int)
        s = orm.Optional(str)
    db.generate_mapping(create_tables=True)
    with orm.db_session:
        for i in range(-4, 9): P(x=i, s=str(i))
        orm.commit()
    _db['db'], _db['P'] = db, P
    return db, P


INT_SCOPE = {'a': 1, 'b': 2, 'c': 0, 'd': 3, 'e': 5}


def py_value(t, scope):
    code = compile(G.fresh_ast(t), '<tree>', 'eval')
    g = dict(scope); g['__builtins__'] = {'len': len, 'abs': abs, 'str': str}
    return eval(code, g)


def check_query(t, scope=None, route='query-string'):
    """The external expression t inside `select(p for p in P if p.<col> == <t>)`: the value bound as query parameter must be the value
    Python computes for t in the caller's scope.  -> None (holds) | {'skip':..} | failure dict."""
    from pony import orm
    scope = dict(scope or INT_SCOPE)
    try:
        want = py_value(t, scope)
    except Exception as e:
        return {'skip': 'python raises %s' % type(e).__name__}
    if isinstance(want, bool) or not isinstance(want, (int, str)): return {'skip': 'value type %s' % type(want).__name__}
    if isinstance(want, int) and abs(want) > 10 ** 9: return {'skip': 'large'}
    col = 'x' if isinstance(want, int) else 's'
    text = G.render(G.print_tokens(t, G.ref_needs), True)            # correct source text of the expression
    db, P = get_db()
    g = dict(scope); g['P'] = P; g['orm'] = orm; g['len'] = len; g['abs'] = abs; g['str'] = str
    with orm.db_session:
        try:
            if route == 'query-string':
                q = orm.select('p for p in P if p.%s == (%s)' % (col, text), g)
            else:
                # the decompiler (property C03) stands between the source and ast2src on this route: judge ast2src against the tree it was given
                gen = eval('(p for p in P if p.%s == (%s))' % (col, text), g)
                from pony.orm.decompiling import decompile
                try:
                    dec = decompile(gen)[0].generators[0].ifs[0]
                except Exception as e:
                    return {'skip': 'the decompiler raises %s (C03), ast2src is not reached' % type(e).__name__}
                try:
                    sub = copy.deepcopy(dec.comparators[0] if isinstance(dec, ast.Compare) else dec.test.comparators[0])
                    gg = dict(scope); gg['__builtins__'] = {'len': len, 'abs': abs, 'str': str}
                    want_dec = eval(compile(ast.fix_missing_locations(ast.Expression(body=sub)), '<decompiled>', 'eval'), gg)
                    if want_dec != want or type(want_dec) is not type(want):
                        return {'skip': 'the decompiler changed the meaning (C03), not ast2src'}
                except Exception:
                    pass
                q = orm.select(gen)
            vals = {k[1]: v for k, v in q._vars.items() if k[1] not in ('P', '.0')}
            rows = sorted(getattr(p, col) for p in q[:])
        except Exception as e:
            name = type(e).__name__
            if name in ('DecompileError', 'NotImplementedError'):
                return {'skip': 'refused: %s' % name}
            if name == 'ExprEvalError' and G.has_kind(t, {'Lambda'}):
                return {'skip': 'a lambda keeps the expression from being external as a whole; its parts are evaluated eagerly'}
            if name == 'TranslationError' or (name == 'TypeError' and 'ncomparable' in str(e)): return {'skip': 'translator refuses: %s' % str(e)[:60]}
            return {'kind': 'query-raises', 'exc': name, 'msg': str(e)[:160], 'text': text, 'want': want}
    if not vals:
        return {'skip': 'no parameter (constant folded)'}
    in_range = (isinstance(want, int) and -4 <= want < 9) or (isinstance(want, str) and want in [str(i) for i in range(-4, 9)])
    exp_rows = [want] if in_range else []
    if len(vals) == 1 and list(vals.values())[0] == want and type(list(vals.values())[0]) is type(want):
        if rows != exp_rows:
            return {'kind': 'rows-differ', 'text': text, 'rows': rows, 'want_rows': exp_rows}
        return None
    # several parameters, or one that is not the whole expression: each must be a subexpression of the original (same tree)
    whole = ast.parse(text, mode='eval').body
    subs = set(G.dump_norm(n) for n in ast.walk(whole) if isinstance(n, ast.expr))
    def is_sub(src):
        try: return G.dump_norm(ast.parse(src, mode='eval').body) in subs
        except SyntaxError: return False
    if all(is_sub(src) for src in vals) and not (len(vals) == 1 and is_sub(list(vals)[0]) and G.dump_norm(ast.parse(list(vals)[0], mode='eval').body) == G.dump_norm(whole)):
        if rows != exp_rows and exp_rows:
            return {'kind': 'rows-differ', 'text': text, 'rows': rows, 'want_rows': exp_rows}
        return {'skip': 'decomposed into %d parameter(s), each a subexpression' % len(vals)}
    if rows == exp_rows and (exp_rows or any(v == want and type(v) is type(want) for v in vals.values())):
        return {'skip': 'parameters differ from the source text (constant folding / piecewise) but the rows and a parameter are right'}
    return {'kind': 'parameter-value-differs', 'text': text, 'params': {k: repr(v) for k, v in vals.items()}, 'want': repr(want), 'rows': rows}


# ------------------------------------------------------------------------------------------------ repeated execution of the same query code

REPEAT_TEMPLATES = {
    # name: (source of a function q(a, b) that runs ONE query, Python's value of the result for the row text 'abcdef' / n = 3)
    'gen-index':        ("def q(a, b):\n    return orm.select(w.text[%(E)s] for w in W).first()\n",          lambda s, v: s[v]),
    'gen-slice-upper':  ("def q(a, b):\n    return orm.select(w.text[:%(E)s] for w in W).first()\n",         lambda s, v: s[:v]),
    'gen-slice-lower':  ("def q(a, b):\n    return orm.select(w.text[%(E)s:] for w in W).first()\n",         lambda s, v: s[v:]),
    'gen-slice-both':   ("def q(a, b):\n    return orm.select(w.text[%(E)s:b + 3] for w in W).first()\n",    None),
    'str-index':        ("def q(a, b):\n    return orm.select('w.text[%(E)s] for w in W').first()\n",        lambda s, v: s[v]),
    'str-slice-upper':  ("def q(a, b):\n    return orm.select('w.text[:%(E)s] for w in W').first()\n",       lambda s, v: s[:v]),
    'str-slice-lower':  ("def q(a, b):\n    return orm.select('w.text[%(E)s:] for w in W').first()\n",       lambda s, v: s[v:]),
    'gen-compare':      ("def q(a, b):\n    return orm.select(w.n for w in W if w.n == %(E)s).first()\n",     None),
    'str-compare':      ("def q(a, b):\n    return orm.select('w.n for w in W if w.n == %(E)s').first()\n",   None),
    'gen-in-list':      ("def q(a, b):\n    return orm.select(w.n for w in W if w.n in [%(E)s, b]).first()\n", None),
}
REPEAT_EXPRS = ['a', 'a + b * 2', 'a - b', '-a', '(a if b else 1)', 'a + 1', 'b + a * 2']

_rdb = {}


def repeat_db():
    if 'W' in _rdb: return _rdb['W']
    from pony import orm
    db = orm.Database('sqlite', ':memory:')
    class W(db.Entity):
        text = orm.Required(str)
        n = orm.Required(int)
    db.generate_mapping(create_tables=True)
    with orm.db_session:
        W(text='abcdef', n=3); orm.commit()
    _rdb['W'] = W
    return W


def repeat_check(template, expr, calls):
    """The same query code (one function object, warm translator cache) executed with changing outer values; every call must give what a
    cold execution of the same query (fresh code object, nothing cached) gives for those values.  -> None | failure dict | {'skip':...}"""
    from pony import orm
    W = repeat_db()
    src = REPEAT_TEMPLATES[template][0] % {'E': expr}
    def fresh():
        g = {'orm': orm, 'W': W}
        exec(compile(src, '<c04-repeat %s %s>' % (template, expr), 'exec'), g)
        return g['q']
    warm = fresh()
    out = []
    with orm.db_session:
        for a, b in calls:
            try: cold_v = ('val', fresh()(a, b))
            except Exception as e: cold_v = ('exc', type(e).__name__)
            try: warm_v = ('val', warm(a, b))
            except Exception as e: warm_v = ('exc', type(e).__name__)
            out.append((a, b, warm_v, cold_v))
            if warm_v != cold_v:
                return {'kind': 'repeated-execution-differs', 'template': template, 'expr': expr, 'src': src, 'calls': [list(c) for c in calls],
                        'at': [a, b], 'warm': warm_v, 'cold': cold_v, 'history': [(x[0], x[1]) for x in out]}
    if all(x[2][0] == 'exc' for x in out): return {'skip': 'every call raises (%s)' % out[0][2][1]}
    return None
