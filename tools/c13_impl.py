"""C13 implementation driver: a small session-history interpreter over real Pony + SQLite with canonical snapshots
of the session cache, fault injection, and the property oracle "a raising modification leaves the snapshot unchanged".

Schemas are data (see SCHEMAS).  Attribute 0 of every entity is the explicit integer primary key.
Ops (JSON lists):
    ["new", ent, pk, [[attr, arg], ...]]     arg: ["i", z] | ["n"] | ["o", handle] | ["os", [handles]] | ["f"] (object of another session)
    ["set", h, attr, arg]                    setattr(obj, name, value)         (collections: arg ["os", ...])
    ["setm", h, [[attr, arg], ...]]          obj.set(**kwargs) (kwargs in this order)
    ["del", h]                               obj.delete()
    ["add", h, attr, [handles]]              obj.coll.add(items)
    ["rem", h, attr, [handles]]              obj.coll.remove(items)
    ["commit"]                               commit(), then every attribute of every live object is read back (so _vals_ is complete)
    ["fault", site, k, op]                   run op while the k-th call (1-based) of site raises InjectedFault instead of executing;
                                             site "idx" = SessionCache.update_simple_index / update_composite_index (one shared counter),
                                             site "radd" = Set.reverse_add
Handles are indexes into the list of successfully created objects (creation order).
"""
import itertools, json, os, sqlite3, sys, tempfile

ERRK = {'ValueError': 'EValue', 'TypeError': 'EType', 'CacheIndexError': 'ECacheIndex', 'ConstraintError': 'EConstraint',
        'TransactionError': 'ETransaction', 'OperationWithDeletedObjectError': 'EDeleted', 'AssertionError': 'EAssert',
        'InjectedFault': 'EInjected', 'KeyError': 'EKey', 'RecursionError': 'EFuel'}


class InjectedFault(Exception):
    pass


MAX_OBJECTS = 8      # objects hashed per history (see World._vhash)


# ---------------------------------------------------------------------------------------------- schemas
# attr: kind 'int' (required?, unique?) | 'ref' (required?, target, reverse, cascade None/True/False) | 'set' (target, reverse, cascade)
def A_int(required=False, unique=False): return {'kind': 'int', 'required': required, 'unique': unique}
def A_ref(target, reverse, required=False, cascade=None): return {'kind': 'ref', 'required': required, 'target': target, 'reverse': reverse, 'cascade': cascade}
def A_set(target, reverse, cascade=None): return {'kind': 'set', 'target': target, 'reverse': reverse, 'cascade': cascade}
PK = {'kind': 'pk'}

SCHEMAS = {
    # S1: scalar + unique + composite key; many-to-one; many-to-many; one-to-one (required holder); cascading and refusing one-to-many
    'S1': {'entities': [
        {'attrs': [PK, A_int(unique=True), A_int(unique=True), A_int(), A_int(), A_int(required=True),
                   A_ref(1, 1), A_set(2, 1), A_ref(3, 1), A_set(4, 1), A_set(5, 1, cascade=False)], 'ckeys': [[3, 4]]},
        {'attrs': [PK, A_set(0, 6)], 'ckeys': []},
        {'attrs': [PK, A_set(0, 7)], 'ckeys': []},
        {'attrs': [PK, A_ref(0, 8, required=True)], 'ckeys': []},
        {'attrs': [PK, A_ref(0, 9, required=True), A_set(6, 1)], 'ckeys': []},
        {'attrs': [PK, A_ref(0, 10, required=True)], 'ckeys': []},
        {'attrs': [PK, A_ref(4, 2, required=True)], 'ckeys': []},
    ]},
    # S2: other attribute orders and flags: refusing set first, optional-optional one-to-one, cascading one-to-one, unique scalar in a composite key,
    #     optional many-to-one with an explicit cascade on the set side
    'S2': {'entities': [
        {'attrs': [PK, A_set(1, 1, cascade=False), A_set(2, 1), A_int(unique=True), A_int(), A_ref(3, 1), A_ref(4, 1, cascade=True),
                   A_set(5, 1, cascade=True), A_int(required=True, unique=True), A_ref(6, 1)], 'ckeys': [[3, 4], [4, 8]]},
        {'attrs': [PK, A_ref(0, 1, required=True)], 'ckeys': []},
        {'attrs': [PK, A_set(0, 2), A_int(unique=True)], 'ckeys': []},
        {'attrs': [PK, A_ref(0, 5)], 'ckeys': []},
        {'attrs': [PK, A_ref(0, 6, required=True)], 'ckeys': []},
        {'attrs': [PK, A_ref(0, 7), A_set(5, 3), A_ref(5, 2)], 'ckeys': []},
        {'attrs': [PK, A_ref(0, 9, required=True)], 'ckeys': []},      # one-to-one without cascade, declared after the cascading one: refuses late
    ]},
    # S3: the many-to-many side that _calc_modified_m2m skips (second in name order) also owns a refusing one-to-many, after the
    #     many-to-many in attribute order; a second, cascading one-to-many with grandchildren; a one-to-one whose column side cascades
    'S3': {'entities': [
        {'attrs': [PK, A_set(1, 1), A_int(unique=True), A_ref(5, 1, cascade=True)], 'ckeys': []},
        {'attrs': [PK, A_set(0, 1), A_set(3, 1), A_set(2, 1, cascade=False), A_int()], 'ckeys': []},
        {'attrs': [PK, A_ref(1, 3, required=True)], 'ckeys': []},
        {'attrs': [PK, A_ref(1, 2, required=True), A_set(4, 1), A_int(unique=True)], 'ckeys': []},
        {'attrs': [PK, A_ref(3, 2, required=True)], 'ckeys': []},
        {'attrs': [PK, A_ref(0, 3)], 'ckeys': []},           # one-to-one, both optional: E0 holds the column and cascades
    ]},
}


def ename(i): return 'E%d' % i
def aname(j): return 'a%02d' % j


class World(object):
    """One Database (fresh SQLite file) for one schema; one open db_session per history."""

    def __init__(self, schema, path=None, trace=None):
        from pony import orm
        self.orm = orm
        self.schema = schema
        self.path = path
        self.db = db = orm.Database()
        self.hash_next = [1000]          # objects of the foreign session hash to 1000.. ; objects of the history to 0, 1, 2, ...
        hash_next = self.hash_next

        def _vhash(obj):
            # Deterministic set iteration order: CPython iterates a set of small distinct integer hashes (< 8, the minimal table
            # size) in ascending order, so collections are walked in creation order.  MAX_OBJECTS keeps the hashes below 8.
            h = obj.__dict__.get('_vh_')
            if h is None:
                h = obj.__dict__['_vh_'] = hash_next[0]
                hash_next[0] += 1
            return h
        self.ents = []
        for i, e in enumerate(schema['entities']):
            d = {'__hash__': _vhash}          # deterministic set iteration order: creation order (small distinct hashes)
            for j, a in enumerate(e['attrs']):
                k = a['kind']
                if k == 'pk': d[aname(j)] = orm.PrimaryKey(int)
                elif k == 'int':
                    kw = {}
                    if a.get('unique'): kw['unique'] = True
                    d[aname(j)] = (orm.Required if a.get('required') else orm.Optional)(int, **kw)
                elif k == 'ref':
                    kw = {'reverse': aname(a['reverse'])}
                    if a.get('cascade') is not None: kw['cascade_delete'] = a['cascade']
                    d[aname(j)] = (orm.Required if a.get('required') else orm.Optional)(ename(a['target']), **kw)
                elif k == 'set':
                    kw = {'reverse': aname(a['reverse'])}
                    if a.get('cascade') is not None: kw['cascade_delete'] = a['cascade']
                    d[aname(j)] = orm.Set(ename(a['target']), **kw)
            for ck in e.get('ckeys', []):
                # composite_key() inspects the caller's frame; the entity is built with type(), so put the Index objects in directly
                pass
            if e.get('ckeys'):
                from pony.orm.core import Index
                d['_indexes_'] = [Index(*[d[aname(j)] for j in ck], is_pk=False, is_unique=True) for ck in e['ckeys']]
            self.ents.append(type(db.Entity)(ename(i), (db.Entity,), d))
        if path: db.bind('sqlite', path, create_db=True)
        else: db.bind('sqlite', ':memory:')
        db.generate_mapping(create_tables=True)
        self.attrs = [[getattr(E, aname(j)) for j in range(len(schema['entities'][i]['attrs']))] for i, E in enumerate(self.ents)]
        self.handles = []
        self.foreign = None
        self.session = None
        self.trace = trace

    # ---- derived schema facts as the mapping computed them (handed to the model)
    def facts(self):
        out = []
        for i, e in enumerate(self.schema['entities']):
            fa = []
            for j, a in enumerate(e['attrs']):
                at = self.attrs[i][j]
                bit = self.ents[i]._bits_[at]
                f = {'kind': a['kind'], 'required': bool(at.is_required), 'unique': bool(at.is_unique) and a['kind'] != 'pk',
                     'bitpos': (bit.bit_length() - 1) if bit else None}
                if a['kind'] in ('ref', 'set'):
                    f.update(target=a['target'], reverse=a['reverse'], cascade=bool(at.cascade_delete))
                fa.append(f)
            out.append({'attrs': fa, 'ckeys': [list(ck) for ck in e.get('ckeys', [])],
                        'simple_keys': [self.attrs[i].index(k) for k in self.ents[i]._simple_keys_],
                        'composite_keys': [[self.attrs[i].index(x) for x in ks] for ks in self.ents[i]._composite_keys_]})
        return out

    # ---- session handling
    def begin(self):
        orm = self.orm
        if self.foreign is None:
            # objects of an earlier, finished session (one per entity that can be created alone) for "mixed session" arguments
            self.foreign = {}
        self.hash_next[0] = 0
        self.session = orm.db_session()
        self.session.__enter__()
        self.cache = self.db._get_cache()

    def make_foreign(self, recipe):
        """recipe: list of 'new' ops run in a separate session; the created objects stay around as foreign objects by entity index."""
        orm = self.orm
        with orm.db_session:
            objs = []
            for op in recipe:
                kw = self._kwargs(op[1], op[3], objs)
                kw[aname(0)] = op[2]
                objs.append(self.ents[op[1]](**kw))
            orm.commit()
            for o in objs: self.foreign[self.ents.index(o.__class__)] = o

    def end(self):
        try:
            self.orm.rollback()
        finally:
            try: self.session.__exit__(None, None, None)
            except Exception: pass
            self.session = None

    # ---- argument decoding
    def _arg(self, ent, attr, arg, handles=None):
        hs = self.handles if handles is None else handles
        t = arg[0]
        if t == 'i': return arg[1]
        if t == 'n': return None
        if t == 'o': return hs[arg[1]]
        if t == 'os': return [hs[h] for h in arg[1]]
        if t == 'f':
            a = self.schema['entities'][ent]['attrs'][attr]
            return self.foreign[a['target']]
        raise ValueError(arg)

    def _kwargs(self, ent, pairs, handles=None):
        return dict((aname(j), self._arg(ent, j, arg, handles)) for j, arg in pairs)

    def ent_of(self, h):
        return self.ents.index(self.handles[h].__class__)

    # ---- one op
    def run_op(self, op):
        """Returns ('ok', None) or ('err', kind, text)."""
        k = op[0]
        try:
            if k == 'fault':
                return self._with_fault(op[1], op[2], op[3])
            if k == 'new':
                kw = self._kwargs(op[1], op[3]); kw[aname(0)] = op[2]
                obj = self.ents[op[1]](**kw)
                self.handles.append(obj)
            elif k == 'set':
                obj = self.handles[op[1]]; e = self.ent_of(op[1])
                setattr(obj, aname(op[2]), self._arg(e, op[2], op[3]))
            elif k == 'setm':
                obj = self.handles[op[1]]; e = self.ent_of(op[1])
                kw = {}
                for j, arg in op[2]: kw[aname(j)] = self._arg(e, j, arg)
                obj.set(**kw)
            elif k == 'del':
                self.handles[op[1]].delete()
            elif k == 'add':
                obj = self.handles[op[1]]
                getattr(obj, aname(op[2])).add([self.handles[h] for h in op[3]])
            elif k == 'rem':
                obj = self.handles[op[1]]
                getattr(obj, aname(op[2])).remove([self.handles[h] for h in op[3]])
            elif k == 'commit':
                self.orm.commit()
                self.touch_all()
            else:
                raise ValueError(op)
            return ('ok', None, '')
        except InjectedFault as e:
            return ('err', 'EInjected', str(e))
        except Exception as e:
            name = type(e).__name__
            return ('err', ERRK.get(name, 'EOther:' + name), str(e)[:200])

    def _with_fault(self, site, kth, op):
        from pony.orm import core
        count = [0]
        saved = []
        def wrap(cls, name):
            orig = getattr(cls, name)
            def w(*a, **kw):
                count[0] += 1
                if count[0] == kth: raise InjectedFault('%s call %d' % (site, kth))
                return orig(*a, **kw)
            saved.append((cls, name, orig))
            setattr(cls, name, w)
        if site == 'idx':
            wrap(core.SessionCache, 'update_simple_index'); wrap(core.SessionCache, 'update_composite_index')
        elif site == 'radd':
            wrap(core.Set, 'reverse_add')
        else:
            raise ValueError(site)
        try:
            return self.run_op(op)
        finally:
            for cls, name, orig in saved: setattr(cls, name, orig)

    def touch_all(self):
        for obj in self.handles:
            if obj._status_ in ('deleted', 'cancelled', 'marked_to_delete'): continue
            i = self.ents.index(obj.__class__)
            for j, a in enumerate(self.schema['entities'][i]['attrs']):
                if a['kind'] in ('int', 'ref'):
                    getattr(obj, aname(j))

    # ---- canonical snapshot of the session cache (reads internals only: no loads, no read bits)
    def hid(self, obj):
        if obj is None: return None
        for h, o in enumerate(self.handles):
            if o is obj: return h
        return 'Z'      # an object the program holds no handle for (e.g. left behind by a failed constructor)

    def cval(self, v):
        from pony.orm.core import Entity
        if isinstance(v, Entity): return ['o', self.hid(v)]
        return v

    def snapshot(self):
        from pony.orm.core import NOT_LOADED
        cache = self.cache
        objs = []
        for h, obj in enumerate(self.handles):
            i = self.ents.index(obj.__class__)
            E = self.ents[i]
            wb = obj._wbits_
            if wb is not None:
                m = 0
                for j, at in enumerate(self.attrs[i]):
                    if E._bits_[at] and (wb & E._bits_[at]): m |= 1 << j
                wb = m
            vals, colls = {}, {}
            for j, a in enumerate(self.schema['entities'][i]['attrs']):
                at = self.attrs[i][j]
                if a['kind'] == 'set':
                    sd = (obj._vals_ or {}).get(at)
                    if sd is None: colls[j] = {'items': [], 'added': [], 'removed': []}
                    else:
                        colls[j] = {'items': hsorted(self.hid(x) for x in sd), 'added': hsorted(self.hid(x) for x in (sd.added or ())),
                                    'removed': hsorted(self.hid(x) for x in (sd.removed or ()))}
                else:
                    v = (obj._vals_ or {}).get(at, NOT_LOADED)
                    vals[j] = 'NL' if v is NOT_LOADED else self.cval(v)
            objs.append({'cls': i, 'status': obj._status_, 'save_pos': obj._save_pos_, 'wbits': wb, 'vals': vals, 'colls': colls})
        idx = []
        for i, E in enumerate(self.ents):
            keys = [E._pk_attrs_] + [(k,) for k in E._simple_keys_] + list(E._composite_keys_)
            for ks in keys:
                d = cache.indexes.get(ks if len(ks) > 1 or ks == E._pk_attrs_ else ks[0])
                if d is None: d = cache.indexes.get(ks)
                spec = [self.attrs[i].index(k) for k in ks]
                ent = []
                for key, o in (d or {}).items():
                    kk = list(key) if isinstance(key, tuple) else [key]
                    ent.append([[self.cval(x) for x in kk], self.hid(o)])
                idx.append([i, spec, sorted(ent, key=lambda p: json.dumps(p[0]))])
        queue = [self.hid(o) for o in cache.objects_to_save]
        mod = []
        for at, s in cache.modified_collections.items():
            i = self.ents.index(at.entity); j = self.attrs[i].index(at)
            hs = hsorted(self.hid(o) for o in s)
            if hs: mod.append([i, j, hs])
        return {'objs': objs, 'idx': idx, 'queue': queue, 'mod': sorted(mod)}

    # ---- database rows through a separate connection (file-backed databases only)
    def db_rows(self):
        con = sqlite3.connect(self.path)
        try:
            out = {}
            for (name,) in con.execute("select name from sqlite_master where type='table' order by name").fetchall():
                out[name] = sorted(con.execute('select * from "%s"' % name).fetchall(), key=lambda r: json.dumps(r))
            return out
        finally:
            con.close()


def hsorted(hs):
    """handles sorted, the zombie marker 'Z' last"""
    return sorted(hs, key=lambda h: (isinstance(h, str), h))


def snap_diff(a, b):
    """Names of the snapshot components that differ (canonical, sorted)."""
    out = set()
    for h, (x, y) in enumerate(zip(a['objs'], b['objs'])):
        for f in ('status', 'save_pos', 'wbits'):
            if x[f] != y[f]: out.add(f)
        if x['vals'] != y['vals']: out.add('vals')
        for j in x['colls']:
            for f in ('items', 'added', 'removed'):
                if x['colls'][j][f] != y['colls'][j][f]: out.add(f)
    if len(a['objs']) != len(b['objs']): out.add('objects')
    if a['idx'] != b['idx']: out.add('index')
    if a['queue'] != b['queue']: out.add('queue')
    if a['mod'] != b['mod']: out.add('modcoll')
    return sorted(out)


class Runner(object):
    """Step-by-step execution of one history with before/after snapshots around every op."""
    def __init__(self, schema, path=None, foreign=None, snapshots='errors'):
        self.w = World(schema, path)
        if foreign:
            self.w.foreign = {}
            self.w.make_foreign(foreign)
        self.w.begin()
        self.results, self.snaps, self.viol, self.ops = [], [], [], []
        self.snapshots = snapshots
        self.dead = False
    def step(self, op):
        w = self.w
        before = w.snapshot()
        r = w.run_op(op)
        if op[0] == 'commit' and r[0] == 'err':
            # a failed commit rolls the session back: the history ends here (flush errors belong to C14/C16)
            self.dead = True
            self.ops.append(op); self.results.append([r[0], r[1]]); self.snaps.append(None)
            return False
        after = w.snapshot()
        n = len(self.ops)
        self.ops.append(op)
        self.results.append([r[0], r[1]])
        self.snaps.append(after if (self.snapshots == 'all' or r[0] == 'err') else None)
        if r[0] == 'err':
            d = snap_diff(before, after)
            if d: self.viol.append({'step': n, 'op': op, 'err': r[1], 'text': r[2], 'diff': d})
        return r[0] == 'ok'
    def close(self):
        self.facts = self.w.facts()
        self.w.end()
        return {'results': self.results, 'snaps': self.snaps, 'violations': self.viol, 'facts': self.facts}


def run_history(schema, ops, path=None, foreign=None, snapshots='errors'):
    """Run ops in one db_session.  Returns {'results': [...], 'snaps': [...], 'violations': [...], 'facts': ...}.
    snapshots: 'errors' = snapshot kept after raising ops only, 'all' = after every op."""
    r = Runner(schema, path, foreign, snapshots)
    try:
        for op in ops: r.step(op)
    finally:
        out = r.close()
    return out


if __name__ == '__main__':
    payload = json.load(sys.stdin)
    out = run_history(SCHEMAS[payload['schema']] if isinstance(payload['schema'], str) else payload['schema'], payload['ops'],
                      foreign=payload.get('foreign'), snapshots=payload.get('snapshots', 'errors'))
    sys.stdout.write('\n@@JSON@@' + json.dumps(out))
