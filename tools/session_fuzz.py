"""Session-history fuzzer, shared part (no pony import here): schema and operation generator, canonical forms,
delta-debugging, serialisation of (schema, ops, observations) to Coq terms of PonyV.Model.Session.

Used by C09-C14 (tools/props/c11.py ...); meant to be reused by other session-level properties.

API
---
Schema (JSON)      {"ents": [{"auto": bool, "attrs": [{"k": "int"|"str"|"ref"|"set", "req": bool, "uniq": bool, "tgt": int, "rev": int}]}]}
                   entity i is class `E<i>` with `id = PrimaryKey(int[, auto=True])` followed by attributes `a<j>` in list order.
                   Stage 1: ref = many-to-one (Required/Optional), set = its one-to-many reverse; tgt != own entity; defaults only.
                   Stage 2 (gen_schema(rng, 2); implementation-side search only, the Coq model does not cover it): the kind of a
                   relationship follows from the pair (attribute, reverse): set/set = many-to-many, ref/ref = one-to-one;
                   an entity may carry "ckeys": [[i, j]] = composite_key(a<i>, a<j>).
Op (JSON list)     ["new", e, pk|None, [[a, arg]...]]   E<e>(id=pk, a<a>=arg ...)           -> ["obj", h] | ["err", kind]
                   ["set", h, a, arg]                   obj.a<a> = arg (scalar / reference)
                   ["setmany", h, [[a, arg]...]]        obj.set(a..=arg..)
                   ["del", h]                           obj.delete()
                   ["add"|"remove"|"assign", h, a, [h...]]   obj.a.add([...]) / .remove([...]) / obj.a = [...]
                   ["read", h, a]                       scalar -> ["val", v]; reference -> ["obj", h] | ["none"]; set -> ["objs", [h...]]
                   ["pk", h]                            obj.id  (None until an auto id was assigned)
                   ["count"|"isempty", h, a]            obj.a.count() / obj.a.is_empty()
                   ["contains", h, a, h2]               h2 in obj.a
                   ["getpk", e, z]                      E[z]
                   ["getby", e, a, arg]                 E.get(a=arg)
                   ["select", e, a, arg]                E.select(a=arg)[:]    (sorted by pk)
                   ["selectall", e]                     E.select()[:]
                   ["flushobj", h]                    obj.flush(): save this object (and the created objects it refers to) now
                   ["flush"] ["commit"] ["rollback"]    module-level flush() / commit() / rollback()
                   ["newsession"]                       leave the db_session normally (commit) and enter a new one
arg                None | int | str | {"h": handle} | {"hs": [handle...]}
Result             ["ok"] | ["val", None|int|str] | ["obj", h] | ["none"] | ["objs", [h...]] | ["bool", b] | ["int", n] | ["err", kind]
                   kind in ERRKINDS (exception class -> small enum; "BadHandle"/"BadAttr" = op refers to a handle / attribute that does
                   not exist, decided by the harness and by the model alike, nothing is executed).
Handles            results that are entity instances are replaced by handle numbers: an object that `is` an object already in the
                   handle table gets that number, a new object the next free number.  Collections are sorted (objects with a pk by
                   pk, then unsaved ones in creation order) before numbering.  The handle table is emptied when the session cache
                   dies (rollback, failed commit, newsession).
Dump               after every commit / rollback / newsession (and at the end): [[ [pk, [col...]] ... sorted by pk ] per entity], read
                   through a separate sqlite3 connection; reference columns hold the target pk or None.

gen_schema(rng, stage=1) -> schema          OpGen(rng, schema, malformed=0.15).next() / .observe(op, res, new_handle_ents)
shrink(ops, still_fails) -> ops             delta debugging on the op list (handles are positional, a shorter list is still a valid history)
coq_schema / coq_ops / coq_results / coq_dumps      Coq literals for PonyV.Model.Session
"""
import json

ERRKINDS = ['Constraint', 'CacheIndex', 'Value', 'Type', 'TxnIntegrity', 'Integrity', 'Cyclic', 'ObjectNotFound', 'Multiple',
            'Deleted', 'SessionOver', 'Unrepeatable', 'Optimistic', 'BadHandle', 'BadAttr', 'KeyError', 'Assertion', 'Other']

EXC2KIND = {
    'ConstraintError': 'Constraint', 'CacheIndexError': 'CacheIndex', 'ValueError': 'Value', 'TypeError': 'Type',
    'TransactionIntegrityError': 'TxnIntegrity', 'IntegrityError': 'Integrity', 'UnresolvableCyclicDependency': 'Cyclic',
    'ObjectNotFound': 'ObjectNotFound', 'MultipleObjectsFoundError': 'Multiple', 'OperationWithDeletedObjectError': 'Deleted',
    'DatabaseSessionIsOver': 'SessionOver', 'UnrepeatableReadError': 'Unrepeatable', 'OptimisticCheckError': 'Optimistic',
    'KeyError': 'KeyError', 'AssertionError': 'Assertion',
}

STRS = ['', 'x', 'y', 'z']
INTS = [0, 1, 2, 3]        # 0 is in the pool on purpose: a falsy but legal key value
PKS = [1, 2, 3, 4, 5]

SCALARS = [('int', True, False), ('int', False, False), ('int', False, True), ('int', True, True),
           ('str', True, False), ('str', False, False), ('str', True, True)]


# ------------------------------------------------------------------------------------------------ schema

def gen_schema(rng, stage=1):
    n = rng.choice([1, 2, 2, 3, 3]) if stage < 2 else rng.choice([2, 2, 3])
    ents = []
    for i in range(n):
        k = rng.choice([1, 1, 2, 2, 3])
        attrs = [dict(k=s[0], req=s[1], uniq=s[2], tgt=0, rev=0) for s in (rng.choice(SCALARS) for _ in range(k))]
        ents.append(dict(auto=rng.random() < 0.55, attrs=attrs))
    rels = []
    if n > 1:
        for _ in range(rng.choice([1, 1, 2, 2, 3])):
            c = rng.randrange(n); p = rng.choice([x for x in range(n) if x != c])
            rels.append((c, p, rng.random() < 0.4))
    # stage 2 (implementation-side search only, not modelled in Coq): some relationships become many-to-many or one-to-one
    kinds = [rng.choice(['m2o', 'm2m', 'm2m', 'o2o']) for _ in rels] if stage >= 2 else ['m2o'] * len(rels)
    # relationship attributes are appended, then each entity's attribute list is shuffled and the reverse indexes fixed up
    tags = [[('s', j) for j in range(len(e['attrs']))] for e in ents]
    for r, (c, p, req) in enumerate(rels):
        ck, creq, pk_ = {'m2o': ('ref', req, 'set'), 'm2m': ('set', False, 'set'), 'o2o': ('ref', req, 'ref')}[kinds[r]]
        ents[c]['attrs'].append(dict(k=ck, req=creq, uniq=False, tgt=p, rev=None)); tags[c].append(('c', r))
        ents[p]['attrs'].append(dict(k=pk_, req=False, uniq=False, tgt=c, rev=None)); tags[p].append(('p', r))
    for i in range(n):
        order = list(range(len(ents[i]['attrs']))); rng.shuffle(order)
        ents[i]['attrs'] = [ents[i]['attrs'][j] for j in order]
        tags[i] = [tags[i][j] for j in order]
    for i in range(n):
        for j, a in enumerate(ents[i]['attrs']):
            t = tags[i][j]
            if t[0] == 'c': a['rev'] = tags[a['tgt']].index(('p', t[1]))
            elif t[0] == 'p': a['rev'] = tags[a['tgt']].index(('c', t[1]))
    if stage >= 2:
        # composite_key(a_i, a_j) over scalar attributes and many-to-one references (stage 2)
        for i, e in enumerate(ents):
            el = [j for j, a in enumerate(e['attrs']) if a['k'] in ('int', 'str') or (a['k'] == 'ref' and ents[a['tgt']]['attrs'][a['rev']]['k'] == 'set')]
            if len(el) >= 2 and rng.random() < 0.45: e['ckeys'] = [sorted(rng.sample(el, 2))]
    return dict(ents=ents)


def schema_shape(schema):
    return 'E%d:' % len(schema['ents']) + '|'.join(('A' if e['auto'] else 'X') + ''.join(
        {'int': 'i', 'str': 's', 'ref': 'r', 'set': 'S'}[a['k']] + ('!' if a['req'] else '') + ('u' if a['uniq'] else '') for a in e['attrs'])
        for e in schema['ents'])


# ------------------------------------------------------------------------------------------------ op generator

class OpGen(object):
    """Online generator: .next() proposes an op from what it believes about the handle table; .observe() feeds back the result."""
    def __init__(self, rng, schema, malformed=0.15):
        self.rng, self.schema, self.malformed = rng, schema, malformed
        self.h = []            # per handle: dict(ent=, dead=bool)   (dead = deleted, as far as the generator knows)
        self.ops_since_commit = 0

    # --- feedback
    def observe(self, op, res, new_ents, dead=None):
        """new_ents: entity index of every handle that the op added to the table (in order);
        dead: optional liveness hint for the whole table (True = deleted / cancelled), used only to steer generation."""
        k = op[0]
        cleared = (k in ('rollback', 'newsession')) or (k == 'commit' and res[0] == 'err')
        if cleared: self.h = []
        for e in new_ents: self.h.append(dict(ent=e, dead=False))
        if k == 'del' and res[0] == 'ok' and op[1] < len(self.h): self.h[op[1]]['dead'] = True
        if dead is not None and len(dead) == len(self.h):
            for x, d in zip(self.h, dead): x['dead'] = bool(d)

    # --- helpers
    def ents(self): return self.schema['ents']
    def attrs_of(self, e, kinds): return [j for j, a in enumerate(self.ents()[e]['attrs']) if a['k'] in kinds]
    def live(self, ent=None): return [i for i, x in enumerate(self.h) if not x['dead'] and (ent is None or x['ent'] == ent)]
    def any_handle(self, ent=None, allow_dead=0.1):
        c = self.live(ent)
        if self.rng.random() < allow_dead:
            c2 = [i for i, x in enumerate(self.h) if ent is None or x['ent'] == ent]
            if c2: return self.rng.choice(c2)
        return self.rng.choice(c) if c else None

    def arg_for(self, e, j, bad=False):
        a = self.ents()[e]['attrs'][j]; r = self.rng
        if bad:
            if a['k'] in ('ref', 'set'):          # ints / strings for a relationship are outside the modelled domain
                return r.choice([None, {'h': self.any_handle() or 0}])
            return r.choice([None, 'x' if a['k'] == 'int' else 3, '', {'h': self.any_handle() or 0}])
        if a['k'] == 'int':
            return None if (not a['req'] and r.random() < 0.2) else r.choice(INTS)
        if a['k'] == 'str':
            return r.choice(STRS[1:] if a['req'] else STRS)
        if a['k'] == 'ref':
            if not a['req'] and r.random() < 0.2: return None
            h = self.any_handle(a['tgt'], allow_dead=0.02)
            return {'h': h} if h is not None else None
        if a['k'] == 'set':
            c = self.live(a['tgt'])
            return {'hs': r.sample(c, min(len(c), r.choice([0, 1, 1, 2])))}

    def gen_new(self, bad=False):
        r = self.rng
        e = r.randrange(len(self.ents())); ent = self.ents()[e]
        pk = None
        if not ent['auto'] or r.random() < 0.12: pk = r.choice(PKS)
        if bad and r.random() < 0.3: pk = None if pk is not None else r.choice(PKS)
        kw = []
        for j, a in enumerate(ent['attrs']):
            if a['k'] == 'set':
                if r.random() < 0.15: kw.append([j, self.arg_for(e, j)])
            elif a['req'] or r.random() < 0.6:
                if bad and r.random() < 0.3:
                    if r.random() < 0.5: continue
                    kw.append([j, self.arg_for(e, j, bad=True)])
                else:
                    v = self.arg_for(e, j)
                    if v is None and a['req'] and a['k'] == 'ref' and not bad:
                        return None          # no parent available yet: let the caller pick something else
                    kw.append([j, v])
        return ['new', e, pk, kw]

    def next(self):
        r = self.rng
        bad = r.random() < self.malformed
        for _ in range(30):
            op = self._next(bad)
            if op is not None: return op
        return ['flush']

    def _next(self, bad):
        r = self.rng
        kinds = [('new', 22), ('set', 14), ('setmany', 5), ('del', 6), ('add', 5), ('remove', 4), ('assign', 4),
                 ('read', 14), ('pk', 2), ('count', 3), ('isempty', 2), ('contains', 3),
                 ('getpk', 5), ('getby', 5), ('select', 3), ('selectall', 2),
                 ('flush', 3), ('commit', 4), ('rollback', 1.5), ('newsession', 3.5), ('flushobj', 3)]
        if not self.h: kinds = [(k, w * (4 if k in ('new', 'getpk', 'selectall', 'getby', 'select') else 1)) for k, w in kinds]
        tot = sum(w for _, w in kinds); x = r.random() * tot
        for k, w in kinds:
            x -= w
            if x <= 0: break
        ne = len(self.ents())
        if k == 'new': return self.gen_new(bad)
        if k in ('flush', 'commit', 'rollback', 'newsession'): return [k]
        if k == 'getpk':
            e = r.randrange(ne)
            return ['getpk', e, r.choice(PKS + [6, 7]) if not bad else r.choice([None, 'x', 99])]
        if k == 'selectall': return ['selectall', r.randrange(ne)]
        if k in ('getby', 'select'):
            e = r.randrange(ne); c = self.attrs_of(e, ('int', 'str', 'ref'))
            if bad and k == 'getby' and r.random() < 0.3: c = self.attrs_of(e, ('int', 'str', 'ref', 'set'))
            if not c: return None
            j = r.choice(c)
            if self.ents()[e]['attrs'][j]['k'] == 'set': return [k, e, j, r.choice([None, {'hs': []}])]
            return [k, e, j, self.arg_for(e, j, bad and r.random() < 0.5)]
        # ops on a handle
        if bad and r.random() < 0.15:
            h = len(self.h) + r.randrange(3)                    # handle that does not exist
            e = r.randrange(ne)
        else:
            h = self.any_handle(allow_dead=0.12 if not bad else 0.5)
            if h is None: return None
            e = self.h[h]['ent']
        na = len(self.ents()[e]['attrs'])
        if k == 'del': return ['del', h]
        if k == 'pk': return ['pk', h]
        if k == 'flushobj': return ['flushobj', h]
        if k == 'read':
            if na == 0: return None
            return ['read', h, r.randrange(na) if not (bad and r.random() < 0.2) else na + 1]
        if k == 'set':
            c = self.attrs_of(e, ('int', 'str', 'ref'))
            if not c: return None
            j = r.choice(c)
            return ['set', h, j, self.arg_for(e, j, bad and r.random() < 0.6)]
        if k == 'setmany':
            c = self.attrs_of(e, ('int', 'str', 'ref')) + (self.attrs_of(e, ('set',)) if r.random() < 0.3 else [])
            if not c: return None
            js = r.sample(c, min(len(c), r.choice([1, 2, 2, 3])))
            return ['setmany', h, [[j, self.arg_for(e, j, bad and r.random() < 0.3)] for j in js]]
        c = self.attrs_of(e, ('set',))
        if bad and r.random() < 0.2: c = list(range(na))
        if not c: return None
        j = r.choice(c); a = self.ents()[e]['attrs'][j]
        if k in ('count', 'isempty'): return [k, h, j]
        tgt = a['tgt'] if a['k'] == 'set' else r.randrange(ne)
        if k == 'contains':
            h2 = self.any_handle(tgt if not bad else None, allow_dead=0.2)
            if h2 is None: return None
            return ['contains', h, j, h2]
        cands = self.live(tgt) if not bad else list(range(len(self.h)))
        if r.random() < 0.08: cands = [i for i, x in enumerate(self.h) if x['ent'] == tgt]
        hs = r.sample(cands, min(len(cands), r.choice([0, 1, 1, 1, 2, 3]))) if cands else []
        if k in ('add', 'remove') and not hs and r.random() < 0.8: return None
        return [k, h, j, hs]


# ------------------------------------------------------------------------------------------------ shrinking

def shrink(ops, still_fails, max_tests=400):
    """ddmin on the op list; still_fails(ops) -> bool. Returns a (locally) minimal failing list."""
    tests = [0]
    def test(c):
        tests[0] += 1
        return still_fails(c)
    n = 2
    cur = list(ops)
    while len(cur) >= 2 and tests[0] < max_tests:
        size = max(1, len(cur) // n)
        chunks = [cur[i:i + size] for i in range(0, len(cur), size)]
        reduced = False
        for i in range(len(chunks)):
            comp = [x for j, ch in enumerate(chunks) if j != i for x in ch]
            if comp and test(comp):
                cur = comp; n = max(n - 1, 2); reduced = True
                break
        if not reduced:
            if n >= len(cur): break
            n = min(len(cur), n * 2)
    # final one-by-one pass
    i = 0
    while i < len(cur) and tests[0] < max_tests:
        c = cur[:i] + cur[i + 1:]
        if c and test(c): cur = c
        else: i += 1
    return cur


# ------------------------------------------------------------------------------------------------ Coq serialisation

def cz(n): return '(%d)%%Z' % n if n < 0 else '%d%%Z' % n
def cnat(n): return '%d' % n
def clist(xs): return '[' + '; '.join(xs) + ']'
def cstr(s): return clist([cz(ord(c)) for c in s]) if s else '[]'
def cbool(b): return 'true' if b else 'false'

def coq_schema(schema):
    ents = []
    for e in schema['ents']:
        attrs = []
        for a in e['attrs']:
            k = {'int': 'KInt', 'str': 'KStr'}.get(a['k']) or ('(%s %d %d)' % ('KRef' if a['k'] == 'ref' else 'KSet', a['tgt'], a['rev']))
            attrs.append('(mkAttr %s %s %s)' % (k, cbool(a['req']), cbool(a['uniq'])))
        ents.append('(mkEnt %s %s)' % (cbool(e['auto']), clist(attrs)))
    return clist(ents)

def coq_arg(x):
    if x is None: return 'ANone'
    if isinstance(x, bool): return 'ANone'
    if isinstance(x, int): return '(AInt %s)' % cz(x)
    if isinstance(x, str): return '(AStr %s)' % cstr(x)
    if 'h' in x: return '(AObj %d)' % x['h']
    return '(AObjs %s)' % clist([cnat(h) for h in x['hs']])

def coq_kw(kw): return clist(['(%d, %s)' % (j, coq_arg(v)) for j, v in kw])

def coq_op(op):
    k = op[0]
    if k == 'new': return '(ONew %d %s %s)' % (op[1], 'None' if op[2] is None else '(Some %s)' % cz(op[2]), coq_kw(op[3]))
    if k == 'set': return '(OSet %d %d %s)' % (op[1], op[2], coq_arg(op[3]))
    if k == 'setmany': return '(OSetMany %d %s)' % (op[1], coq_kw(op[2]))
    if k == 'del': return '(ODelete %d)' % op[1]
    if k in ('add', 'remove', 'assign'):
        return '(%s %d %d %s)' % ({'add': 'OAdd', 'remove': 'ORemove', 'assign': 'OAssign'}[k], op[1], op[2], clist([cnat(h) for h in op[3]]))
    if k == 'read': return '(ORead %d %d)' % (op[1], op[2])
    if k == 'pk': return '(OPk %d)' % op[1]
    if k == 'flushobj': return '(OFlushObj %d)' % op[1]
    if k == 'count': return '(OCount %d %d)' % (op[1], op[2])
    if k == 'isempty': return '(OIsEmpty %d %d)' % (op[1], op[2])
    if k == 'contains': return '(OContains %d %d %d)' % (op[1], op[2], op[3])
    if k == 'getpk': return '(OGetPk %d %s)' % (op[1], coq_arg(op[2]))
    if k == 'getby': return '(OGetBy %d %d %s)' % (op[1], op[2], coq_arg(op[3]))
    if k == 'select': return '(OSelect %d %d %s)' % (op[1], op[2], coq_arg(op[3]))
    if k == 'selectall': return '(OSelectAll %d)' % op[1]
    return {'flush': 'OFlush', 'commit': 'OCommit', 'rollback': 'ORollback', 'newsession': 'ONewSession'}[k]

def coq_ops(ops): return clist([coq_op(o) for o in ops])

def coq_val(v):
    if v is None: return 'VNone'
    if isinstance(v, int): return '(VInt %s)' % cz(v)
    return '(VStr %s)' % cstr(v)

def coq_res(r):
    k = r[0]
    if k == 'ok': return 'ROk'
    if k == 'val': return '(RVal %s)' % coq_val(r[1])
    if k == 'obj': return '(RObj %d)' % r[1]
    if k == 'none': return 'RNoneObj'
    if k == 'objs': return '(RObjs %s)' % clist([cnat(h) for h in r[1]])
    if k == 'bool': return '(RBool %s)' % cbool(r[1])
    if k == 'int': return '(RInt %s)' % cz(r[1])
    if k == 'err': return '(RErr E%s)' % (r[1] if r[1] in ERRKINDS else 'Other')
    raise ValueError(r)

def coq_results(rs): return clist([coq_res(r) for r in rs])

def coq_dump(d):
    return clist([clist(['(%s, %s)' % (cz(pk), clist([coq_val(v) for v in cols])) for pk, cols in tab]) for tab in d])

def coq_dumps(ds): return clist([coq_dump(d) for d in ds])

def is_dump_point(op, res):
    return op[0] in ('commit', 'rollback', 'newsession')

def canon(x): return json.dumps(x, sort_keys=True)
