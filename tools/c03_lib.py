"""C03 helpers: the boolean/jump fragment of Python expressions as tuples, source printing, conversion from `ast`,
enumeration of all shapes up to a size, the positions (contexts) an expression is decompiled in, serialisation to
the Coq type PonyV.Model.C03Bexp.bexp, a Python-side evaluator (used ONLY to minimise/classify failures; verdicts come
from the Coq checker) and the failure classifier.

bexp tuples:  ('A', i)  ('C', v)  ('N', e)  ('And', [e..])  ('Or', [e..])  ('If', c, a, b)   (a if c else b)
              ('Eq', a, b)  ('Ne', a, b)  ('IsN', e)  ('IsNN', e)
"""
import ast, itertools, sys, warnings
from functools import lru_cache

NAMES = ['a', 'b', 'c', 'd', 'e', 'g', 'h', 'i', 'j', 'k', 'm', 'n']      # 'f' is the function of the call position
DOM = [False, True, None, 'x']            # order = C03Bexp.DOM
VAL_COQ = {False: 'VFalse', True: 'VTrue', None: 'VNone', 'x': 'VStr'}


class Malformed(Exception):
    """The decompiled tree is not an expression of the fragment in the expected context."""


# ------------------------------------------------------------------------------------------------ enumeration

def compositions(n, k):
    if k == 1:
        yield (n,); return
    for i in range(1, n - k + 2):
        for rest in compositions(n - i, k - 1):
            yield (i,) + rest


@lru_cache(None)
def shapes(n, notdepth=1, top=None, kinds=('And', 'Or', 'If', 'Eq')):
    """All expression shapes with n leaves ('.' = leaf).  BoolOps are flattened (an And is never a direct child of an
    And: CPython emits the same code for both); every node and leaf optionally carries up to `notdepth` Nots."""
    out = []
    if n == 1: out.append('.')
    for op in ('And', 'Or'):
        if top == op or op not in kinds: continue
        for k in range(2, n + 1):
            for comp in compositions(n, k):
                for kids in itertools.product(*[shapes(m, notdepth, op, kinds) for m in comp]):
                    out.append((op, kids))
    if n >= 3 and 'If' in kinds:
        for comp in compositions(n, 3):
            for kids in itertools.product(*[shapes(m, notdepth, None, kinds) for m in comp]):
                out.append(('If',) + kids)
    if n >= 2 and 'Eq' in kinds:
        for comp in compositions(n, 2):
            for kids in itertools.product(*[shapes(m, notdepth, None, kinds) for m in comp]):
                out.append(('Eq',) + kids)
    cur = list(out)
    for _ in range(notdepth):
        cur = [('N', e) for e in cur]
        out += cur
    return tuple(out)


def fill(shape, counter=None, leaf=None):
    """Shape -> bexp with a fresh atom per leaf (the most general instance: equivalence with distinct atoms implies
    equivalence under every identification of atoms)."""
    if counter is None: counter = [0]
    if shape == '.':
        i = counter[0]; counter[0] += 1
        return leaf(i) if leaf else ('A', i)
    t = shape[0]
    if t == 'N': return ('N', fill(shape[1], counter, leaf))
    if t in ('And', 'Or'): return (t, [fill(k, counter, leaf) for k in shape[1]])
    return (t,) + tuple(fill(k, counter, leaf) for k in shape[1:])


def kids(e):
    t = e[0]
    if t in ('A', 'C'): return []
    if t in ('And', 'Or'): return list(e[1])
    return list(e[1:])


def rebuild(e, ks):
    t = e[0]
    if t in ('A', 'C'): return e
    if t in ('And', 'Or'): return (t, list(ks))
    return (t,) + tuple(ks)


def size(e):
    return 1 + sum(size(k) for k in kids(e))


def leaves(e):
    return 1 if e[0] in ('A', 'C') else sum(leaves(k) for k in kids(e))


def natoms(e):
    if e[0] == 'A': return e[1] + 1
    return max([natoms(k) for k in kids(e)] + [0])


def shape_of(e):
    t = e[0]
    if t == 'A': return '.'
    if t == 'C': return repr(e[1])
    return '%s(%s)' % (t, ','.join(shape_of(k) for k in kids(e)))


def constructors(e):
    s = set()
    def go(e):
        if e[0] == 'C': s.add('Const')
        elif e[0] != 'A': s.add(e[0])
        for k in kids(e): go(k)
    go(e)
    return s


def key_tuple(e):
    """hashable canonical form"""
    t = e[0]
    if t in ('A', 'C'): return e
    return (t,) + tuple(key_tuple(k) for k in kids(e))


# ------------------------------------------------------------------------------------------------ source text

def src(e, prec=0, atom=None):
    t = e[0]
    if t == 'A': return atom(e[1]) if atom else (NAMES[e[1]] if e[1] < len(NAMES) else '<new atom %d>' % e[1])
    if t == 'C': return repr(e[1])
    if t == 'N': s, p = 'not ' + src(e[1], 3, atom), 3
    elif t == 'And': s, p = ' and '.join(src(k, 2, atom) for k in e[1]), 2
    elif t == 'Or': s, p = ' or '.join(src(k, 1, atom) for k in e[1]), 1
    elif t == 'If': s, p = '%s if %s else %s' % (src(e[2], 0, atom), src(e[1], 0, atom), src(e[3], 0, atom)), 0
    elif t == 'Eq': s, p = '%s == %s' % (src(e[1], 4, atom), src(e[2], 4, atom)), 4
    elif t == 'Ne': s, p = '%s != %s' % (src(e[1], 4, atom), src(e[2], 4, atom)), 4
    elif t == 'IsN': s, p = '%s is None' % src(e[1], 4, atom), 4
    elif t == 'IsNN': s, p = '%s is not None' % src(e[1], 4, atom), 4
    else: raise ValueError(t)
    # a child is parenthesised unless it binds strictly tighter than its parent position requires
    return '(%s)' % s if p <= prec else s


class AtomTable(object):
    """Atoms are keyed by ast.dump of the sub-expression: the same text is the same atom on both sides."""
    def __init__(self):
        self.index = {}
        self.nodes = []
    def get(self, node):
        k = ast.dump(node)
        if k not in self.index:
            self.index[k] = len(self.nodes)
            self.nodes.append(node)
        return self.index[k]


def is_wellformed_expr(t):
    """Every child the grammar requires is an ast.expr (the real decompiler can leave a comprehension or None inside)."""
    if not isinstance(t, ast.expr): return False
    for name, val in ast.iter_fields(t):
        if isinstance(val, list):
            for v in val:
                if isinstance(v, ast.expr):
                    if not is_wellformed_expr(v): return False
                elif isinstance(v, ast.comprehension):
                    if not (is_wellformed_expr(v.iter) and is_wellformed_expr(v.target) and all(is_wellformed_expr(i) for i in v.ifs)): return False
                elif isinstance(v, ast.keyword):
                    if not is_wellformed_expr(v.value): return False
                elif isinstance(v, ast.AST) and not isinstance(v, (ast.cmpop, ast.operator, ast.boolop, ast.unaryop, ast.expr_context)):
                    return False
        elif isinstance(val, ast.expr):
            if not is_wellformed_expr(val): return False
        elif isinstance(val, ast.AST) and not isinstance(val, (ast.cmpop, ast.operator, ast.boolop, ast.unaryop, ast.expr_context, ast.arguments)):
            return False
        elif val is None and name in ('left', 'operand', 'test', 'body', 'orelse', 'value', 'func', 'elt') and not isinstance(t, ast.Constant):
            return False
    return True


def from_ast(t, table):
    """ast expression -> bexp; anything outside the fragment is an atom (must be a well-formed expression)."""
    if isinstance(t, ast.UnaryOp) and isinstance(t.op, ast.Not): return ('N', from_ast(t.operand, table))
    if isinstance(t, ast.BoolOp):
        if len(t.values) < 2: raise Malformed('BoolOp with %d operand(s)' % len(t.values))
        return ('And' if isinstance(t.op, ast.And) else 'Or', [from_ast(v, table) for v in t.values])
    if isinstance(t, ast.IfExp): return ('If', from_ast(t.test, table), from_ast(t.body, table), from_ast(t.orelse, table))
    if isinstance(t, ast.Compare) and len(t.ops) == 1:
        r = t.comparators[0]
        if isinstance(t.ops[0], (ast.Is, ast.IsNot)) and isinstance(r, ast.Constant) and r.value is None:
            return ('IsN' if isinstance(t.ops[0], ast.Is) else 'IsNN', from_ast(t.left, table))
        if isinstance(t.ops[0], (ast.Eq, ast.NotEq)):
            return ('Eq' if isinstance(t.ops[0], ast.Eq) else 'Ne', from_ast(t.left, table), from_ast(r, table))
    if isinstance(t, ast.Constant) and any(t.value is v for v in DOM): return ('C', t.value)
    if not is_wellformed_expr(t): raise Malformed('not an expression: %s' % (type(t).__name__,))
    return ('A', table.get(t))


# ------------------------------------------------------------------------------------------------ Coq text

def coq(e):
    t = e[0]
    if t == 'A': return '(A %d)' % e[1]
    if t == 'C': return '(K %s)' % VAL_COQ[e[1]]
    if t == 'N': return '(N %s)' % coq(e[1])
    if t == 'And': return '(An [%s])' % ';'.join(coq(k) for k in e[1])
    if t == 'Or': return '(Or [%s])' % ';'.join(coq(k) for k in e[1])
    if t == 'If': return '(I %s %s %s)' % (coq(e[1]), coq(e[2]), coq(e[3]))
    if t == 'Eq': return '(Q %s %s)' % (coq(e[1]), coq(e[2]))
    if t == 'Ne': return '(Qn %s %s)' % (coq(e[1]), coq(e[2]))
    if t == 'IsN': return '(Z %s)' % coq(e[1])
    if t == 'IsNN': return '(Zn %s)' % coq(e[1])
    raise ValueError(t)

COQ_HEADER = ('From Coq Require Import List Bool Arith.\nImport ListNotations.\nRequire Import PonyV.Model.C03Bexp.\n'
              'Notation A := Atom (only parsing).\nNotation K := Const (only parsing).\nNotation N := Not (only parsing).\n'
              'Notation An := And (only parsing).\nNotation I := IfExp (only parsing).\n'
              'Notation Q := (Cmp false) (only parsing).\nNotation Qn := (Cmp true) (only parsing).\n'
              'Notation Z := (IsNone false) (only parsing).\nNotation Zn := (IsNone true) (only parsing).\n'
              'Notation V := equiv_check (only parsing).\nNotation T := equiv_check_truth (only parsing).\n')


# ------------------------------------------------------------------------------------------------ Python-side evaluator
# (mirror of C03Bexp.eval; validated against both CPython and the Coq definition by the correspondence run)

def ev(e, env):
    t = e[0]
    if t == 'A': return env[e[1]]
    if t == 'C': return e[1]
    if t == 'N': return not ev(e[1], env)
    if t == 'And':
        v = True
        for k in e[1]:
            v = ev(k, env)
            if not v: return v
        return v
    if t == 'Or':
        v = False
        for k in e[1]:
            v = ev(k, env)
            if v: return v
        return v
    if t == 'If': return ev(e[2], env) if ev(e[1], env) else ev(e[3], env)
    if t in ('Eq', 'Ne'):
        a, b = ev(e[1], env), ev(e[2], env)
        return (a is b) != (t == 'Ne')
    if t == 'IsN': return ev(e[1], env) is None
    if t == 'IsNN': return ev(e[1], env) is not None
    raise ValueError(t)


def py_equiv(e1, e2, truth):
    n = max(natoms(e1), natoms(e2))
    for env in itertools.product(DOM, repeat=n):
        a, b = ev(e1, env), ev(e2, env)
        if truth: a, b = bool(a), bool(b)
        if a is not b: return env
    return None


# ------------------------------------------------------------------------------------------------ positions

# name -> (template, mode); mode 'truth' = only the truth value of the expression is observable there
POSITIONS = {
    'filter':  ('(x for x in T if %s)', 'truth'),
    'filter2': ('(x for x in T if %s for y in U)', 'truth'),
    'filter3': ('(x for x in T for y in U if %s)', 'truth'),
    'elt':     ('((%s) for x in T)', 'value'),
    'lambda':  ('lambda: (%s)', 'value'),
    'arg':     ('lambda: f(%s, z)', 'value'),
    'kwarg':   ('(f(x, k=(%s)) for x in T)', 'value'),
}
# position class of a finding key = where the expression's code lives: a filter of a generator, the element of a generator
# (including a call argument inside the element), the body of a lambda (including a call argument inside the body)
POS_CLASS = {'filter': 'filter', 'filter2': 'filter', 'filter3': 'filter', 'elt': 'elt', 'lambda': 'lambda', 'arg': 'lambda', 'kwarg': 'elt'}
HOLE = 'HOLE__'


def _find_hole(tree):
    """(parent, field, index) of the Name(HOLE) node in a context tree"""
    for node in ast.walk(tree):
        for name, val in ast.iter_fields(node):
            if isinstance(val, list):
                for i, v in enumerate(val):
                    if isinstance(v, ast.Name) and v.id == HOLE: return node, name, i
            elif isinstance(val, ast.Name) and val.id == HOLE: return node, name, None
    raise AssertionError('no hole')


_ctx_cache = {}

def context(kind):
    """Expected tree of the context with Name(HOLE) in place of the expression, outermost iterable renamed to '.0'
    (as the decompiler sees it), plus the path from the root to the hole."""
    if kind in _ctx_cache: return _ctx_cache[kind]
    text = POSITIONS[kind][0] % HOLE
    tree = ast.parse(text, mode='eval').body
    if isinstance(tree, ast.Lambda): tree = tree.body
    else: tree.generators[0].iter = ast.Name('.0', ast.Load())
    path = _path_to_hole(tree)
    _ctx_cache[kind] = (ast.dump(tree), path)
    return _ctx_cache[kind]


def _path_to_hole(tree):
    def go(node, path):
        if isinstance(node, ast.Name) and node.id == HOLE: return path
        for name, val in ast.iter_fields(node):
            if isinstance(val, list):
                for i, v in enumerate(val):
                    if isinstance(v, ast.AST):
                        r = go(v, path + [(name, i)])
                        if r is not None: return r
            elif isinstance(val, ast.AST):
                r = go(val, path + [(name, None)])
                if r is not None: return r
        return None
    return go(tree, [])


def extract(dec_tree, kind):
    """Take the sub-expression at the hole's place out of the decompiled tree and check that the REST of the tree is
    exactly the context (same loops, same element / other arguments).  Several `if`s of one `for` = their conjunction."""
    want_dump, path = context(kind)
    if not path:
        if not isinstance(dec_tree, ast.AST): raise Malformed('no expression at the position')
        return dec_tree
    node = dec_tree
    for name, idx in path[:-1]:
        try:
            node = getattr(node, name)
            if idx is not None: node = node[idx]
        except (AttributeError, IndexError, TypeError):
            raise Malformed('context not reproduced (%s)' % name)
    name, idx = path[-1]
    try:
        val = getattr(node, name)
    except AttributeError:
        raise Malformed('context not reproduced (%s)' % name)
    hole = ast.Name(HOLE, ast.Load())
    if name == 'ifs':
        if not isinstance(val, list): raise Malformed('condition lost (ifs=%r)' % (val,))
        # no `if` at all = the constant-true condition (CPython drops a condition it can evaluate at compile time)
        sub = ast.Constant(True) if not val else (val[0] if len(val) == 1 else ast.BoolOp(ast.And(), list(val)))
        setattr(node, name, [hole])
    elif idx is not None:
        if not isinstance(val, list) or idx >= len(val): raise Malformed('context not reproduced (%s)' % name)
        sub = val[idx]
        val = list(val); val[idx] = hole
        setattr(node, name, val)
    else:
        sub = val
        setattr(node, name, hole)
    try:
        got = ast.dump(dec_tree)
    except Exception as e:
        raise Malformed('tree cannot be dumped: %s' % type(e).__name__)
    finally:
        # restore (decompile() caches and shares its trees)
        if name == 'ifs': setattr(node, name, val)
        elif idx is not None:
            v2 = list(getattr(node, name)); v2[idx] = sub; setattr(node, name, v2)
        else: setattr(node, name, sub)
    if got != want_dump: raise Malformed('context not reproduced')
    if not isinstance(sub, ast.AST): raise Malformed('no expression at the position')
    return sub


def source_text(e, kind, atom=None):
    return POSITIONS[kind][0] % src(e, 0, atom)


_KEEP = []       # the harness keeps every code object it compiles alive: these checks are about the decompiler proper; the
                 # address-keyed tree cache of decompile() is exercised by tools/c03_cache.py (short-lived objects)

def compile_code(text):
    """code object of the generator / lambda written in `text`"""
    with warnings.catch_warnings():
        warnings.simplefilter('ignore')
        code = compile(text, '<c03>', 'eval').co_consts[0]
    _KEEP.append(code)
    return code


def real_decompile(text):
    """pony.orm.decompiling.decompile on the code object; returns the AST (raises what the decompiler raises)"""
    from pony.orm.decompiling import decompile
    return decompile(compile_code(text))[0]


def observe(e, kind, atom=None):
    """Run the real decompiler on e in position kind.
    -> ('exc', ExcName) | ('malformed', why) | ('ok', bexp2)   (atoms of bexp2 share e's numbering; unknown ones are fresh)"""
    text = source_text(e, kind, atom)
    stree = ast.parse(text, mode='eval').body
    try:
        tree = real_decompile(text)
    except RecursionError:
        raise
    except Exception as ex:
        return ('exc', type(ex).__name__)
    table = AtomTable()
    # number the source atoms first, in the order of the bexp
    n = natoms(e)
    for i in range(n):
        table.get(ast.parse(atom(i) if atom else NAMES[i], mode='eval').body)
    try:
        sub = extract(tree, kind)
        e2 = from_ast(sub, table)
    except Malformed as m:
        return ('malformed', str(m))
    return ('ok', e2)


# ------------------------------------------------------------------------------------------------ minimisation / keys

def renumber(e):
    m = {}
    def go(e):
        if e[0] == 'A':
            if e[1] not in m: m[e[1]] = len(m)
            return ('A', m[e[1]])
        return rebuild(e, [go(k) for k in kids(e)])
    return go(e)


def _fresh(e):
    mx = [-1]
    def scan(e):
        if e[0] == 'A' and e[1] != 9999: mx[0] = max(mx[0], e[1])
        for k in kids(e): scan(k)
    scan(e)
    c = [mx[0]]
    def go(e):
        if e[0] == 'A' and e[1] == 9999:
            c[0] += 1; return ('A', c[0])
        return rebuild(e, [go(k) for k in kids(e)])
    return go(e)


def reductions(e):
    """one-step reductions: promote a child, replace a compound by a fresh atom, drop an operand of a BoolOp"""
    t = e[0]
    if t in ('A', 'C'):
        return [('A', 9999)] if t == 'C' else []
    ks = kids(e)
    out = list(ks) + [('A', 9999)]
    if t in ('And', 'Or') and len(ks) > 2:
        for i in range(len(ks)): out.append((t, ks[:i] + ks[i + 1:]))
    for i, k in enumerate(ks):
        for k2 in reductions(k):
            out.append(rebuild(e, ks[:i] + [k2] + ks[i + 1:]))
    return out


def shrink_atom_fn(atoms):
    """printer for shrinking with the ORIGINAL atoms of a failing input (rich atoms change the bytecode, e.g. which exit
    blocks CPython copies in a lambda): atoms the shrink introduces get plain names"""
    if not atoms: return None
    return lambda i: atoms[i] if i < len(atoms) else 'q%d' % i


def shrunk_atoms(atoms, e):
    """the atom list that goes with an expression shrunk under shrink_atom_fn(atoms)"""
    return list(atoms) + ['q%d' % i for i in range(len(atoms), natoms(e))]


def status(e, kind, cache=None, atoms=None):
    """'ok' | 'exc' | 'malformed' | 'wrong'   (Python-side evaluator; used for classification only)"""
    ck = (key_tuple(e), kind) if not atoms else (key_tuple(e), kind, tuple(atoms))
    if cache is not None and ck in cache: return cache[ck]
    o = observe(e, kind, shrink_atom_fn(atoms))
    if o[0] == 'exc': r = 'exc'
    elif o[0] == 'malformed': r = 'malformed'
    else: r = 'ok' if py_equiv(e, o[1], POSITIONS[kind][1] == 'truth') is None else 'wrong'
    if cache is not None: cache[ck] = r
    return r


FAIL = ('wrong', 'malformed')


def minimise(e, kind, st, cache, mcache, atoms=None):
    """Greedy shrink to the minimal failing core: always move to the smallest one-step reduction that still FAILS (st = the
    set of failure statuses that count; the default callers pass FAIL, so a malformed result may shrink to a wrong one and
    vice versa - the finding key is taken from the core, which makes it independent of the size and the accidents of the
    random input it was found in).  With `atoms` the original atom texts are kept (no renumbering)."""
    sts = (st,) if isinstance(st, str) else tuple(st)
    path = []
    at = tuple(atoms) if atoms else None
    while True:
        ck = (key_tuple(e), kind, sts, at)
        if ck in mcache:
            res = mcache[ck]; break
        path.append(ck)
        cands = {}
        for c in reductions(e):
            c = _fresh(c) if atoms else renumber(_fresh(c))
            cands.setdefault(key_tuple(c), c)
        nxt = None
        for k in sorted(cands, key=lambda k: (size(cands[k]), repr(k))):
            if status(cands[k], kind, cache, atoms) in sts:
                nxt = cands[k]; break
        if nxt is None:
            res = e; break
        e = nxt
    for ck in path: mcache[ck] = res
    return res


def count_nodes(e, tag):
    return (1 if e[0] == tag else 0) + sum(count_nodes(k, tag) for k in kids(e))


def family(m):
    """Defect family of a minimised failing expression, from the constructors it still needs."""
    names = {'Eq': 'Cmp', 'Ne': 'Cmp', 'IsN': 'IsNone', 'IsNN': 'IsNone', 'N': 'Not'}
    cs = set(names.get(c, c) for c in constructors(m))
    if 'If' in cs:
        if cs <= {'If', 'Not'}: return 'ifexp-nested' if count_nodes(m, 'If') >= 2 else 'ifexp-single'
        if 'Const' in cs: return 'ifexp+constant'
        return 'ifexp+boolop'
    if 'Const' in cs: return 'constant-operand'
    if cs & {'Cmp', 'IsNone'} and cs & {'And', 'Or'}: return 'boolop-as-operand'
    return '+'.join(sorted(cs)) or 'atom'


def finding_key(kind, st, m):
    """position class : failure kind : defect family of the minimised expression"""
    return '%s:%s:%s' % (POS_CLASS[kind], st, family(m))
