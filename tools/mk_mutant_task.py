#!/usr/bin/env python3
"""mk_mutant_task.py <Cnn> <suffix> [style]  -> creates scratch worktree /tmp/mutants/<cnn><suffix> with TASK.md
(the property text only; nothing from /verif) for an independent sub-agent that seeds a property-breaking change."""
import json, os, subprocess, sys
pid, suffix = sys.argv[1], sys.argv[2]
style = sys.argv[3] if len(sys.argv) > 3 else 'a'
props = {json.loads(l)['id']: json.loads(l) for l in open('/verif/properties.jsonl')}
p = props[pid]
wt = '/tmp/mutants/%s%s' % (pid.lower(), suffix)
os.makedirs('/tmp/mutants', exist_ok=True)
if not os.path.isdir(wt):
    subprocess.run(['git', '-C', '/repo', 'worktree', 'add', '-q', '--detach', wt, 'HEAD'], check=True)
STYLE = {
 'a': "only for a specific kind of input or configuration (a boundary value, a particular sign/shape/option combination, an unusual but legal input, one dialect/code path), not for ordinary use",
 'b': "only in a situation that needs something specific to manifest: a multi-step sequence of operations, a particular interleaving or schedule, a crash or injected fault at a particular point, state left over from an earlier call (caches, pinned values, indexes), or two cooperating sites that each look fine alone - not something a single ordinary call exposes",
}[style]
mech = '\n'.join('  - %s (%s)' % (m.get('name'), m.get('where')) for m in p['anchors'].get('mechanism', []))
task = f"""# Task: seed one realistic, subtle defect that breaks a stated property

You are helping test a verification tool by producing a realistic bug. Work ONLY inside this git worktree, `{wt}`
(a checkout of the Python ORM "Pony", package `pony`; interpreter `/venv/bin/python` 3.12; run things as
`cd {wt} && PYTHONPATH={wt} /venv/bin/python ...`). Do not look at or touch `/verif`, `/repo` or any other directory.
No network. Only SQLite can execute (`Database('sqlite', ':memory:')` or a temp file under this directory);
for other dialects a demonstration may inspect generated SQL text (`pony.orm.tests.testutils.TestDatabase` shows how the
repo's own tests bind a provider without a server) and argue from the dialect's documented semantics.

## The property your change must break

**{p['id']} - {p['title']}**

{p['statement']}

Quantified over: {p['quantifier']['text']}

Why the existing tests cannot settle it: {p['why_tests_cant']}

Code the property is anchored in: {', '.join(p['anchors']['files'])}
Mechanisms meant to make it hold:
{mech}

The paragraph above may mention behaviour that is ALREADY wrong in this code base ("reading found ..."). Do NOT rely on an
existing defect: introduce a NEW one.

## What to produce

Make ONE small source change to the `pony` package (a few lines, at most two cooperating places; it should look like an
honest mistake, a plausible simplification or refactoring) that breaks the property {STYLE}.

Requirements:
1. The package still imports and the existing test-suite result is unchanged. Run
   `cd {wt} && PYTHONPATH={wt} /venv/bin/python -m pytest -q -p no:cacheprovider --timeout=900 -q pony 2>&1 | tail -5`
   before and after: the baseline has exactly 3 pre-existing failures/errors in `test_decompiler.py`; nothing else may change.
2. Write `demo.py` in this directory: a small self-contained program that exits 0 on the original code and exits 1
   (printing what went wrong in terms of the property) with your change. Deterministic, finishes in under a minute,
   no files outside this directory.
3. Leave here: the change applied in the working tree (uncommitted), `demo.py`, `patch.diff` made with
   `git diff -- pony > patch.diff`, and `meta.txt` (3-6 lines: what the change is, what it needs in order to manifest,
   the commands you ran and their results: suite before/after, demo before/after).

Do NOT use `git stash` (the stash is shared between all worktrees of this repository and other people work in sibling
worktrees): to compare before/after use `git diff -- pony > patch.diff`, `git apply -R patch.diff`, `git apply patch.diff`.

Report the same briefly as your final answer. If after honest effort you cannot find a change that keeps the suite green,
say so and describe the closest attempt.
"""
open(os.path.join(wt, 'TASK.md'), 'w').write(task)
print(wt)
