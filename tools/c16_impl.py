"""C16 implementation driver: run a session history on real Pony + SQLite (file database, foreign keys enforced immediately), and at
every commit capture (a) the pending set right before the flush - objects_to_save with status and foreign-key columns, the modified
many-to-many pairs - (b) the committed rows before the flush, read through a separate sqlite3 connection, (c) the statements of the
flush from sqlite3's trace callback, (d) the outcome.  Histories use the op language and schemas of c13_impl."""
import json, os, re, sqlite3, sys, tempfile
import c13_impl as B
from c13_impl import A_int, A_ref, A_set, PK

# reference shapes that allow cycles between new objects
SCHEMAS = dict(B.SCHEMAS)
SCHEMAS['S16'] = {'entities': [
    {'attrs': [PK, A_ref(1, 1, required=True), A_set(1, 2), A_ref(2, 1)], 'ckeys': []},      # E0 -> E1 (required); E0 - E2 one-to-one, E0 holds the column
    {'attrs': [PK, A_set(0, 1), A_ref(0, 2)], 'ckeys': []},                                   # E1 -> E0 (optional): E0 <-> E1 can form cycles
    {'attrs': [PK, A_ref(0, 3), A_ref(3, 1, required=True)], 'ckeys': []},                    # E2 -> E3 (required)
    {'attrs': [PK, A_set(2, 2)], 'ckeys': []},
]}
B.SCHEMAS.setdefault('S16', SCHEMAS['S16'])


class Capture(object):
    def __init__(self, sname, path):
        self.sname = sname
        self.schema = SCHEMAS[sname]
        self.path = path
        self.w = B.World(self.schema, path)
        self.trace = []

    def begin(self):
        self.w.begin()
        con = self.w.db.get_connection()
        con.set_trace_callback(self.trace.append)

    def col_id(self, i, j):
        """model column id of attribute j of entity i: odd when the DDL declares ON DELETE SET NULL for its foreign key
        (generate_mapping: not attr.reverse.cascade_delete and an Optional, nullable attribute)"""
        at = self.w.attrs[i][j]
        setnull = (not at.reverse.cascade_delete) and (not at.is_required) and bool(at.nullable)
        return 2 * j + (1 if setnull else 0)

    def handle_of(self, ent, pk):
        # a primary key can be reused after its first owner was deleted: the row / statement belongs to the latest object that was
        # not cancelled before ever reaching the database
        hs = self.w.handles
        for h in range(len(hs) - 1, -1, -1):
            o = hs[h]
            if self.w.ents.index(o.__class__) == ent and o._pkval_ == pk and o._status_ != 'cancelled': return h
        for h in range(len(hs) - 1, -1, -1):
            o = hs[h]
            if self.w.ents.index(o.__class__) == ent and o._pkval_ == pk: return h
        return None

    def dead_references(self):
        """(holder, target) handle pairs: a live object whose reference attribute holds an object deleted in this session"""
        w = self.w
        out = []
        for h, o in enumerate(w.handles):
            if o._status_ in ('marked_to_delete', 'deleted', 'cancelled') or o._vals_ is None: continue
            i = w.ents.index(o.__class__)
            for j, a in enumerate(self.schema['entities'][i]['attrs']):
                if a['kind'] != 'ref': continue
                v = o._vals_.get(w.attrs[i][j])
                if v is not None and hasattr(v, '_status_') and v._status_ in ('marked_to_delete', 'deleted', 'cancelled'): out.append([h, w.hid(v)])
        return out

    def pending(self):
        w = self.w
        cache = w.cache
        queue, silent, dead_refs = [], [], []
        def ref(obj, at):
            v = obj._vals_[at]
            if v is None: return None
            if v._status_ in ('marked_to_delete', 'deleted', 'cancelled'): dead_refs.append([w.hid(obj), w.hid(v)])
            return w.hid(v)
        for obj in cache.objects_to_save:
            if obj is None: continue
            h = w.hid(obj)
            i = w.ents.index(obj.__class__)
            E = w.ents[i]
            st = obj._status_
            cols = []
            if st == 'created':
                for at in E._attrs_with_columns_:
                    if at.reverse: cols.append([self.col_id(i, w.attrs[i].index(at)), ref(obj, at)])
            elif st == 'modified':
                wattrs = [at for at in E._attrs_with_columns_ if E._bits_[at] & obj._wbits_]
                for at in wattrs:
                    if at.reverse: cols.append([self.col_id(i, w.attrs[i].index(at)), ref(obj, at)])
                if not wattrs: silent.append(h)
            queue.append([h, {'created': 'Created', 'modified': 'Modified', 'marked_to_delete': 'Deleted'}[st], cols])
        # objects_to_save can hold the same object twice: _delete_ works with the status / save_pos it read before the nested calls, and a
        # nested reverse.__set__(obj, None) (a one-to-one partner clearing its back reference) queues obj as 'modified' in between; the
        # old slot is then not emptied.  flush saves the object at its FIRST slot (the later one is set to None by _save_); the model's
        # lookup / drop do the same, and C16_order covers such queues (coherent_ids), so the queue is handed over as it is.
        seen, requeued = set(), []
        for e in queue:
            if e[0] in seen: requeued.append(e[0])
            seen.add(e[0])
        added, removed = [], []
        done = set()
        for at, objs in sorted(cache.modified_collections.items(), key=lambda p: (p[0].entity.__name__, p[0].name)):
            r = at.reverse
            if not r.is_collection: continue
            if r in done: continue
            done.add(at)
            for obj in objs:
                sd = obj._vals_.get(at)
                if sd is None: continue
                for o2 in (sd.added or ()):
                    added.append([w.hid(obj), w.hid(o2)])
                    for a, b2 in ((obj, o2), (o2, obj)):
                        if a._status_ in ('marked_to_delete', 'deleted', 'cancelled'): dead_refs.append([w.hid(b2), w.hid(a)])
                for o2 in (sd.removed or ()): removed.append([w.hid(obj), w.hid(o2)])
        return {'queue': queue, 'added': added, 'removed': removed, 'silent': silent, 'dead_refs': dead_refs, 'requeued': requeued}

    def db_rows(self):
        con = sqlite3.connect(self.path)
        try:
            rows, links = [], []
            self.on_delete_refs = []
            w = self.w
            for i, E in enumerate(w.ents):
                cols = [(j, at.columns[0]) for j, at in enumerate(w.attrs[i]) if self.schema['entities'][i]['attrs'][j]['kind'] == 'ref' and at.columns]
                sel = ', '.join(['"%s"' % E._pk_columns_[0]] + ['"%s"' % c for j, c in cols])
                for row in con.execute('select %s from "%s"' % (sel, E._table_)).fetchall():
                    h = self.handle_of(i, row[0])
                    fks = []
                    for (j, c), v in zip(cols, row[1:]):
                        te = self.schema['entities'][i]['attrs'][j]['target']
                        fks.append([self.col_id(i, j), self.handle_of(te, v) if v is not None else None])
                        at = w.attrs[i][j]
                        if v is not None and at.reverse.cascade_delete:
                            self.on_delete_refs.append([h, self.handle_of(te, v)])      # the DDL has ON DELETE CASCADE for this reference (not modelled)
                    rows.append([h, fks])
            return rows
        finally:
            con.close()

    def parse(self, stmts):
        """canonical (kind, a, b) triples of the traced statements"""
        w = self.w
        tables = {E._table_: i for i, E in enumerate(w.ents)}
        m2m = {}
        for i, E in enumerate(w.ents):
            for j, at in enumerate(w.attrs[i]):
                a = self.schema['entities'][i]['attrs'][j]
                if a['kind'] == 'set' and at.reverse.is_collection:
                    m2m.setdefault(at.table, {})[at.reverse.columns[0]] = i      # column holding this entity's pk
        out, prev = [], None
        for s in stmts:
            s1 = ' '.join(s.split())
            if s1 == prev: continue                  # the trace reports a statement with foreign-key actions twice
            prev = s1
            m = re.match(r'INSERT INTO "(\w+)" \(([^)]*)\) VALUES \(([^)]*)\)', s1)
            if m:
                t, cols, vals = m.group(1), [c.strip().strip('"') for c in m.group(2).split(',')], [v.strip() for v in m.group(3).split(',')]
                if t in tables: out.append([0, self.handle_of(tables[t], int(vals[0])), 0]); continue
                if t in m2m:
                    hs = sorted(self.handle_of(m2m[t][c], int(v)) for c, v in zip(cols, vals))
                    out.append([3, hs[0], hs[1]]); continue
            m = re.match(r'UPDATE "(\w+)" SET .* WHERE "a00" = (\d+)', s1)
            if m and m.group(1) in tables: out.append([1, self.handle_of(tables[m.group(1)], int(m.group(2))), 0]); continue
            m = re.match(r'DELETE FROM "(\w+)" WHERE (.*)', s1)
            if m:
                t = m.group(1)
                if t in tables:
                    pk = int(re.match(r'"a00" = (\d+)', m.group(2)).group(1))
                    out.append([2, self.handle_of(tables[t], pk), 0]); continue
                if t in m2m:
                    pairs = re.findall(r'"(\w+)" = (\d+)', m.group(2))
                    hs = sorted(self.handle_of(m2m[t][c], int(v)) for c, v in pairs)
                    out.append([4, hs[0], hs[1]]); continue
        return out


def run(sname, ops):
    """Returns {'flushes': [...], 'results': [...], 'aborted': reason|None}; a flush record = pending set, db rows before, outcome, statements"""
    fd, path = tempfile.mkstemp(prefix='c16-', suffix='.sqlite'); os.close(fd); os.unlink(path)
    cap = Capture(sname, path)
    flushes, results, aborted = [], [], None
    dead_origin = None
    try:
        cap.begin()
        w = cap.w
        for op in ops:
            if op[0] != 'commit':
                before = w.snapshot()
                r = w.run_op(op)
                results.append([r[0], r[1]])
                if r[0] == 'err' and B.snap_diff(before, w.snapshot()):
                    aborted = 'a raising call changed the session (C13): history stopped'
                    break
                if dead_origin is None and cap.dead_references():
                    inner = op[3] if op[0] == 'fault' else op
                    dead_origin = inner[0]
                    if inner[0] == 'setm':
                        kinds = set(cap.schema['entities'][w.ent_of(inner[1])]['attrs'][j]['kind'] for j, a in inner[2])
                        dead_origin = 'setm-' + '+'.join(sorted(kinds & {'ref', 'set'}))
                continue
            pend = cap.pending()
            if any(x[0] == 'Z' or x[0] is None for x in pend['queue']):
                aborted = 'an object without a handle is pending'; break
            rows = cap.db_rows()
            on_delete_refs = list(cap.on_delete_refs)
            n = len(cap.trace)
            r = w.run_op(op)
            results.append([r[0], r[1]])
            stmts = cap.parse(cap.trace[n:])
            outcome = 0 if r[0] == 'ok' else (1 if 'UnresolvableCyclicDependency' in str(r[1]) else 2)
            rows_after = cap.db_rows() if r[0] != 'ok' else None
            flushes.append({'pending': pend, 'rows': rows, 'on_delete_refs': on_delete_refs, 'outcome': outcome, 'error': r[1], 'stmts': stmts,
                            'unchanged_after_error': (rows_after == rows) if rows_after is not None else None,
                            'hashed': w.hash_next[0], 'dead_origin': dead_origin})
            if r[0] != 'ok':
                aborted = 'commit failed: the session is over'
                break
    finally:
        try: cap.w.end()
        except Exception: pass
        try: os.unlink(path)
        except OSError: pass
    return {'flushes': flushes, 'results': results, 'aborted': aborted}
