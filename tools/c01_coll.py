"""C01/C02 - conditions over a to-many collection (coq/Model/C01Coll.v): queries over G of the join schema whose `if` part is a
conjunction of atoms about g.members (Set(P)):

    ('plain', e)                          a scalar condition over g's attributes
    ('exists', neg, c)                    [not] exists(m for m in g.members if c);  c None: `g.members` / `not g.members`
    ('in', neg, v, attr, form, c)         v [not] in (m.attr for m in g.members [if c])  (form 'gen')  |  v [not] in g.members.attr  (form 'attr')
    ('count', c, e)                       e mentions the pseudo attribute 'group.cnt' = count(m for m in g.members [if c])

Scalar expressions are those of c01_lib; inside a query an attribute named 'group.x' is g.x, 'group.cnt' is the count-subquery and any
other attribute belongs to the member m."""
import vlib, c01_lib as L, c01_join as J
from vlib import Failure

INNER_POOLS = {'int': ('a', 'b', 'r', 'a', 'b', 'group.level', 'group.number'), 'str': ('s', 'u', 'group.title'), 'bool': ('f', 'g')}
OUTER_POOLS = {'int': ('group.number', 'group.level'), 'str': ('group.title',), 'bool': ('#nobool',)}
COUNT_POOLS = {'int': ('group.cnt', 'group.cnt', 'group.number', 'group.level'), 'str': ('group.title',), 'bool': ('#nobool',)}
ITEM_ATTRS = ('a', 'b', 'r', 's', 'u', 'a')
G_NAMES = ('number', 'title', 'level')


def coll_graph():
    """G rows with 3 / 1 / 0 / 4 / 2 members, None among the members' values and among g's own."""
    G = [{'id': 1, 'number': 2, 'title': 'a', 'dept': None, 'level': 1}, {'id': 2, 'number': 0, 'title': None, 'dept': None, 'level': None},
         {'id': 3, 'number': 1, 'title': '', 'dept': None, 'level': 3}, {'id': 4, 'number': 3, 'title': 'ab', 'dept': None, 'level': 0},
         {'id': 5, 'number': -2, 'title': 'b', 'dept': None, 'level': -2}, {'id': 6, 'number': 1, 'title': 'a', 'dept': None, 'level': None}]
    base = L.standard_rows()
    groups = (1, 4, 1, None, 2, 4, 5, 1, 4, None, 5, 4, 6, 6)
    P = []
    for k, g in enumerate(groups):
        r = dict(base[(k * 11 + 3) % len(base)]); r['id'] = k + 1; r['group'] = g
        P.append(r)
    # make sure a collection holds only-None / mixed / no-None values of the optional attributes
    P[12]['a'] = None; P[13]['a'] = None; P[12]['s'] = None; P[13]['s'] = 'a'
    return {'P': P, 'G': G, 'D': []}


# ---------------------------------------------------------------------------------------------- source / Coq terms

def count_src(c):
    return 'count(m for m in g.members%s)' % ('' if c is None else ' if ' + esrc(c))


def esrc(e, cnt=None):
    s = L.src(e)
    if cnt is not None: s = s.replace('p.group.cnt', cnt)
    return s.replace('p.group.', 'g.').replace('p.', 'm.')


def atom_src(x):
    k = x[0]
    if k == 'plain': return esrc(x[1])
    if k == 'exists':
        neg, c = x[1], x[2]
        s = 'g.members' if c is None else 'exists(m for m in g.members if %s)' % esrc(c)
        return '(not %s)' % s if neg else s
    if k == 'in':
        neg, v, a, form, c = x[1:]
        coll = 'g.members.%s' % a if form == 'attr' else '(m.%s for m in g.members%s)' % (a, '' if c is None else ' if ' + esrc(c))
        return '(%s %s %s)' % (esrc(v), 'not in' if neg else 'in', coll)
    if k == 'count': return esrc(x[2], count_src(x[1]))
    if k == 'notin':     # not (v in collection)
        return '(not %s)' % atom_src(('in', False) + tuple(x[1:]))
    raise ValueError(k)


def qsrc(atoms, proj):
    return 'select(%s for g in G if %s)' % ('(g.id, %s)' % esrc(proj) if proj is not None else 'g.id', ' and '.join(atom_src(x) for x in atoms))


def copt(c):
    return 'None' if c is None else '(Some %s)' % L.coq(c)


def cb(b):
    return 'true' if b else 'false'


def atom_coq(x):
    k = x[0]
    if k == 'plain': return '(APlain %s)' % L.coq(x[1])
    if k == 'exists': return '(AExists %s %s)' % (cb(x[1]), copt(x[2]))
    if k == 'in':
        neg, v, a, form, c = x[1:]
        i, t, n = L.ATTRS[a]
        return '(AIn %s false %s (mkattr %d %s %s) %s)' % (cb(neg), L.coq(v), i, L._VTY[t], cb(n), 'SAttr' if form == 'attr' else '(SGen %s)' % copt(c))
    if k == 'notin':
        v, a, form, c = x[1:]
        i, t, n = L.ATTRS[a]
        return '(AIn true true %s (mkattr %d %s %s) %s)' % (L.coq(v), i, L._VTY[t], cb(n), 'SAttr' if form == 'attr' else '(SGen %s)' % copt(c))
    if k == 'count': return '(ACount %s %s)' % (copt(x[1]), L.coq(x[2]))
    raise ValueError(k)


def atoms_coq(atoms):
    return '[%s]' % '; '.join(atom_coq(x) for x in atoms)


def atoms_json(atoms):
    def j(x):
        k = x[0]
        if k == 'plain': return ['plain', L.to_json(x[1])]
        if k == 'exists': return ['exists', x[1], None if x[2] is None else L.to_json(x[2])]
        if k in ('in', 'notin'):
            r = list(x)
            v, c = (2, 5) if k == 'in' else (1, 4)
            r[v] = L.to_json(r[v]); r[c] = None if r[c] is None else L.to_json(r[c])
            return r
        if k == 'count': return ['count', None if x[1] is None else L.to_json(x[1]), L.to_json(x[2])]
    return [j(x) for x in atoms]


def atoms_from_json(js):
    def f(c): return None if c is None else L.from_json(c)
    out = []
    for x in js:
        k = x[0]
        if k == 'plain': out.append(('plain', L.from_json(x[1])))
        elif k == 'exists': out.append(('exists', bool(x[1]), f(x[2])))
        elif k == 'in': out.append(('in', bool(x[1]), L.from_json(x[2]), x[3], x[4], f(x[5])))
        elif k == 'notin': out.append(('notin', L.from_json(x[1]), x[2], x[3], f(x[4])))
        elif k == 'count': out.append(('count', f(x[1]), L.from_json(x[2])))
    return out


def coq_db(graph):
    return J.coq_db(graph)


# ---------------------------------------------------------------------------------------------- real translator

def _hook(alias, name):
    name = name.lower()
    if alias == '#': return 30
    if alias == 'g': return 10 + J.G_COLS[name]
    return J.P_COLS[name]


def _sub_term(from_ast, where):
    if from_ast[0] != 'FROM' or len(from_ast) != 2 or from_ast[1][1] != 'TABLE' or from_ast[1][2].upper() != 'P' or len(from_ast[1]) != 3:
        raise L.Unmodelled('subquery FROM %r' % (from_ast,))
    if where[0] != 'WHERE' or len(where) < 2: raise L.Unmodelled('subquery WHERE %r' % (where,))
    j = where[1]
    if j[0] != 'EQ' or j[1][0] != 'COLUMN' or j[2][0] != 'COLUMN': raise L.Unmodelled('subquery join condition %r' % (j,))
    return '((%d%%nat, %d%%nat), [%s])' % (_hook(j[1][1], j[1][2]), _hook(j[2][1], j[2][2]), '; '.join(L.qx(c) for c in where[2:]))


def _is_count_select(x):
    return (isinstance(x, (list, tuple)) and len(x) == 4 and x[0] == 'SELECT' and len(x[1]) == 2 and x[1][0] == 'AGGREGATES'
            and list(x[1][1][:2]) == ['COUNT', True] and len(x[1][1]) == 3 and x[1][1][2][0] == 'COLUMN' and x[1][1][2][2].lower() == 'id')


def _lift_counts(x, found):
    if _is_count_select(x):
        found.append(_sub_term(x[2], x[3]))
        return ['COLUMN', '#', 'cnt']
    if isinstance(x, (list, tuple)) and x and x[0] != 'PARAM': return [_lift_counts(y, found) for y in x]
    return x


def to_fx(cond):
    t = cond[0]
    if t in ('EXISTS', 'NOT_EXISTS') and len(cond) == 3:
        return '(FExists %s %s)' % (cb(t == 'NOT_EXISTS'), _sub_term(cond[1], cond[2]))
    if t in ('IN', 'NOT_IN') and len(cond) == 3 and cond[2] and cond[2][0] == 'SELECT':
        sel = cond[2]
        if len(sel) != 4 or sel[1][0] != 'ALL' or len(sel[1]) != 2: raise L.Unmodelled('IN subquery %r' % (sel[1],))
        return '(FIn %s %s %s %s)' % (cb(t == 'NOT_IN'), L.qx(cond[1]), L.qx(sel[1][1]), _sub_term(sel[2], sel[3]))
    found = []
    lifted = _lift_counts(cond, found)
    if len(set(found)) > 1: raise L.Unmodelled('several different count subqueries in one condition')
    return '(FQ %s %s)' % (L.qx(lifted), '(Some %s)' % found[0] if found else 'None')


def query_globals(G, params):
    from pony import orm
    g = L.query_globals(None, params)
    del g['P']
    g.update({'G': G, 'exists': orm.exists, 'count': orm.count})
    return g


def translate(provider, atoms, proj, params):
    """-> (list fx term, column term or None, sql, AST dump)"""
    from pony import orm
    db, P, G, D = J.get_db(provider)
    src = qsrc(atoms, proj)[len('select('):-1]
    with orm.db_session:
        q = orm.select(src, query_globals(G, params))
        t = q._translator
        fa = t.sqlquery.from_ast
        if fa[0] != 'FROM' or len(fa) != 2 or fa[1][2].upper() != 'G' or t.having_conditions or t.groupby_monads:
            raise L.Unmodelled('outer FROM %r / grouping' % (L.strip_ast(fa),))
        L.COLUMN_HOOK[0] = _hook
        try:
            fxs = '[%s]' % '; '.join(to_fx(c) for c in t.conditions)
            col = L.qx(t.expr_columns[1]) if proj is not None else None
        finally:
            L.COLUMN_HOOK[0] = None
        return fxs, col, q.get_sql(), L.strip_ast([fa, t.conditions, t.expr_columns])


def run(real, atoms, proj, params, raw=False):
    """[(g id, value)] sorted by id."""
    orm = real.orm
    src = qsrc(atoms, proj)[len('select('):-1]
    with orm.db_session:
        q = orm.select(src, query_globals(real.G, params))
        if raw:
            sql, arguments, _, _ = q._construct_sql_and_arguments()
            rows = [tuple(r) for r in real.db._exec_sql(sql, arguments).fetchall()]
        else:
            rows = list(q)
    if proj is None: rows = [(r if not isinstance(r, tuple) else r[0], None) for r in rows]
    return sorted(rows, key=lambda r: r[0])


# ---------------------------------------------------------------------------------------------- reference

def g_row(g, cnt=None):
    row = {'group.' + n: g[n] for n in G_NAMES}
    row['group.cnt'] = cnt
    return row


def m_row(g, m):
    row = {k: v for k, v in m.items() if k != 'group'}
    row.update(g_row(g))
    return row


def members(graph, g):
    return [m for m in graph['P'] if m['group'] == g['id']]


class Skip(Exception):
    pass


def _keeps(e, row, params):
    try:
        if 'zero-division' in L.hazards(e, row, params): raise Skip()
        return L.keeps(e, row, params, False)
    except L.RefError:
        raise Skip()


def selected(graph, g, c, params):
    return [m for m in members(graph, g) if c is None or _keeps(c, m_row(g, m), params)]


def holds(graph, g, x, params):
    """Does the atom hold for g (Python over the object graph; a None operand of a comparison makes it unknown)."""
    k = x[0]
    if k == 'plain': return _keeps(x[1], g_row(g), params)
    if k == 'exists': return bool(selected(graph, g, x[2], params)) != x[1]
    if k in ('in', 'notin'):
        neg, v, a, form, c = (x[1:] if k == 'in' else (True,) + tuple(x[1:]))
        try: val = L.ref(v, g_row(g), params, False)
        except L.RefError: raise Skip()
        items = [m[a] for m in selected(graph, g, c if form == 'gen' else None, params) if m[a] is not None]
        if val is None: r = None if items else False
        else: r = val in items
        if r is None: return False
        return (not r) if neg else r
    if k == 'count': return _keeps(x[2], g_row(g, len(selected(graph, g, x[1], params))), params)
    raise ValueError(k)


def check_query(real, atoms, proj, params):
    """-> [(g, mode, got, want)] where Pony's answer differs from the comprehension over the object graph."""
    import c01_harness as H
    graph = real.graph
    got = dict(run(real, atoms, proj, params))
    bad = []
    for g in graph['G']:
        try:
            keep = all(holds(graph, g, x, params) for x in atoms)
            want = None
            if proj is not None:
                if 'zero-division' in L.hazards(proj, g_row(g), params): continue
                want = L.ref(proj, g_row(g), params, False)
        except (Skip, L.RefError):
            continue
        if keep != (g['id'] in got): bad.append((g, 'filter', g['id'] in got, keep))
        elif keep and proj is not None and not H.same_value(got[g['id']], want): bad.append((g, 'project', got[g['id']], want))
    return bad


def classify(atoms, proj, params, graph, g, mode):
    """Finding key: the scalar piece responsible (the keys of the single-entity search), or the collection-specific ones."""
    import c01_harness as H
    if mode == 'project': return H.classify(proj, g_row(g), params, 'project')
    pieces = []
    for x in atoms:
        k = x[0]
        if k == 'plain': pieces.append((x[1], [g_row(g)]))
        elif k == 'exists' and x[2] is not None: pieces.append((x[2], [m_row(g, m) for m in members(graph, g)]))
        elif k in ('in', 'notin'):
            v, c = (x[2], x[5]) if k == 'in' else (x[1], x[4])
            pieces.append((v, [g_row(g)]))
            if c is not None: pieces.append((c, [m_row(g, m) for m in members(graph, g)]))
        elif k == 'count':
            if x[1] is not None: pieces.append((x[1], [m_row(g, m) for m in members(graph, g)]))
            try: n = len(selected(graph, g, x[1], params))
            except Skip: n = 0
            pieces.append((x[2], [g_row(g, n)]))
    for e, rows in pieces:
        for row in rows:
            try:
                differs = L.keeps(e, row, params, False) != L.keeps(e, row, params, True)
            except L.RefError:
                differs = False
            key = H.classify(e, row, params, 'filter')
            if differs or not key.startswith('unlisted'): return key
    return 'unlisted:collection:%s' % '+'.join(sorted({x[0] for x in atoms}))


def minimal_graph(graph, g):
    return {'P': members(graph, g), 'G': [g], 'D': []}


def coll_failure(atoms, proj, params, graph, g, mode, got, want):
    key = classify(atoms, proj, params, graph, g, mode)
    what = '%s with %s on group %s with members %s: Pony gives %r, the comprehension gives %r' % (
        qsrc(atoms, proj), {('x%d' % i): v for i, v in sorted(params.items())}, g, [m['id'] for m in members(graph, g)], got, want)
    return Failure(key, what, {'coll': {'atoms': atoms_json(atoms), 'proj': L.to_json(proj) if proj is not None else None,
                                        'params': {str(i): v for i, v in params.items()}, 'graph': minimal_graph(graph, g)}})


# ---------------------------------------------------------------------------------------------- generation

def _gen_outer(g, rng, make):
    for _ in range(50):
        e = make()
        if not any(a.startswith('#') for a in L.attrs_of(e)): return e
    raise RuntimeError('no outer expression found')


def gen_atom(g_in, g_out, g_cnt, rng, search=False):
    r = rng.random()
    def inner(): return g_in.filter_expr(rng.choice((2, 2, 3)))
    def share(gen):
        gen.params, gen.ptypes = g_in.params, g_in.ptypes
    share(g_out); share(g_cnt)
    if r < 0.15:
        return ('plain', _gen_outer(g_out, rng, lambda: g_out.filter_expr(rng.choice((2, 3)))))
    if r < 0.4:
        return ('exists', rng.random() < 0.4, inner() if rng.random() < 0.75 else None)
    if r < 0.75:
        a = rng.choice(ITEM_ATTRS)
        t = L.ATTRS[a][1]
        v = _gen_outer(g_out, rng, lambda: g_out.value(t, rng.choice((1, 1, 2)), rng.random() < 0.7))
        form = 'attr' if rng.random() < 0.25 else 'gen'
        c = inner() if form == 'gen' and rng.random() < 0.4 else None
        if rng.random() < 0.15: return ('notin', v, a, form, c)
        return ('in', rng.random() < 0.5, v, a, form, c)
    c = inner() if rng.random() < 0.6 else None
    for _ in range(50):
        e = _gen_outer(g_cnt, rng, lambda: g_cnt.filter_expr(rng.choice((2, 2, 3))))
        if 'group.cnt' in L.attrs_of(e): return ('count', c, e)
    return ('count', c, ('cmp', '>', ('attr', 'group.cnt'), ('int', 1)))


HANDMADE = [
    ([('exists', False, None)], None), ([('exists', True, None)], None),
    ([('exists', False, ('cmp', '>', ('attr', 'a'), ('attr', 'group.level')))], ('attr', 'group.number')),
    ([('exists', True, ('attr', 'f'))], None),
    ([('in', False, ('attr', 'group.level'), 'a', 'gen', None)], None), ([('in', True, ('attr', 'group.level'), 'a', 'gen', None)], None),
    ([('in', True, ('attr', 'group.level'), 'a', 'attr', None)], None), ([('in', False, ('attr', 'group.title'), 's', 'attr', None)], None),
    ([('in', True, ('attr', 'group.number'), 'r', 'gen', ('attr', 'g'))], None),
    ([('in', True, ('attr', 'group.title'), 's', 'gen', None), ('plain', ('cmp', '>', ('attr', 'group.number'), ('int', 0)))], None),
    ([('notin', ('attr', 'group.level'), 'a', 'gen', None)], None), ([('notin', ('attr', 'group.level'), 'a', 'attr', None)], None),
    ([('notin', ('attr', 'group.number'), 'r', 'gen', ('attr', 'f'))], None),
    ([('count', None, ('cmp', '>', ('attr', 'group.cnt'), ('int', 1)))], None),
    ([('count', ('cmp', '>', ('attr', 'a'), ('int', 0)), ('cmp', '==', ('attr', 'group.cnt'), ('attr', 'group.number')))], ('attr', 'group.title')),
    ([('count', None, ('not', ('attr', 'group.cnt')))], None),
    ([('count', ('attr', 's'), ('and', ('cmp', '<', ('attr', 'group.cnt'), ('int', 3)), ('cmp', 'is not', ('attr', 'group.level'), ('none',))))], None),
]


def gen_queries(ctx, n, search=False):
    rng = ctx.rng
    g_in = L.Gen(rng, pools=INNER_POOLS); g_out = L.Gen(rng, pools=OUTER_POOLS); g_cnt = L.Gen(rng, pools=COUNT_POOLS)
    out = [(a, p, {}) for a, p in HANDMADE]
    while len(out) < n + len(HANDMADE):
        g_in.reset()
        atoms = [gen_atom(g_in, g_out, g_cnt, rng, search) for _ in range(rng.choice((1, 1, 2)))]
        if all(x[0] == 'plain' for x in atoms): continue
        proj = None
        if rng.random() < 0.3:
            g_out.params, g_out.ptypes = g_in.params, g_in.ptypes
            proj = _gen_outer(g_out, rng, lambda: g_out.value(rng.choice(('int', 'str')), rng.choice((1, 2)), True))
        out.append((atoms, proj, dict(g_in.params)))
    return out


# ---------------------------------------------------------------------------------------------- ties and search

COLL_HEADER = J.JOIN_HEADER.replace('PonyV.Model.C01Join.', 'PonyV.Model.C01Join PonyV.Model.C01Coll.')


def coll_cases(ctx, queries, real):
    """Structural tie of translator.conditions (subquery shapes, join condition, inner conditions, IS NOT NULL checks) and of the
    result column on the four providers; the rows real SQLite returns vs sql_coll_rows of the model on the same object graph."""
    import c01_harness as H
    exprs, meta, dis, nontriv = [], [], [], set()
    dist = {'conditions': 0, 'columns': 0, 'sqlite_result_lists': 0, 'translator_raises': 0, 'atoms': {}}
    for atoms, proj, params in queries:
        for x in atoms: dist['atoms'][x[0]] = dist['atoms'].get(x[0], 0) + 1
        for prov in ('sqlite', 'postgres', 'mysql', 'oracle'):
            if prov == 'oracle' and any(v == '' for v in params.values()): continue
            inp = {'provider': prov, 'query': qsrc(atoms, proj), 'params': params}
            try:
                fxs, col, sql, dump = translate(prov, atoms, proj, params)
            except L.Unmodelled as ex:
                dis.append({'what': 'collection query outside the modelled shapes: %s' % ex, 'input': inp}); continue
            except Exception as ex:
                dist['translator_raises'] += 1
                dis.append({'what': 'the real translator raised on a typed collection query', 'input': inp, 'impl': '%s: %s' % (type(ex).__name__, str(ex)[:200])}); continue
            d = L.DN[prov]
            m = dict(inp, impl=dump)
            exprs.append('ofxs_eqb (tr_atoms %s %s) %s' % (d, atoms_coq(atoms), fxs)); meta.append(dict(m, mode='coll-conditions')); dist['conditions'] += 1
            if proj is not None:
                exprs.append('oqx_eqb (tr_project %s %s) (Some %s)' % (d, L.coq(proj), col)); meta.append(dict(m, mode='coll-columns')); dist['columns'] += 1
            nontriv.add((prov, qsrc(atoms, proj)))
            if prov == 'sqlite':
                try:
                    rows = run(real, atoms, proj, params, raw=True)
                except Exception as ex:
                    dis.append({'what': 'real SQLite raised on a collection query', 'input': inp, 'impl': '%s: %s' % (type(ex).__name__, ex)}); continue
                got = '[%s]' % '; '.join(H.coq_qv(v) if proj is not None else '(IntV %d)' % i for i, v in rows)
                exprs.append('match tr_atoms DSqlite %s with Some xs => %s (sql_coll_rows DSqlite %s DB false xs %s) %s | None => false end' % (
                    atoms_coq(atoms), J.QVS_EQB, L._coq_fn(list(params.items())), col if proj is not None else '(QCol 10)', got))
                meta.append(dict(m, mode='coll-rows', impl=rows, sql=sql)); dist['sqlite_result_lists'] += 1
    return exprs, meta, dis, nontriv, dist


def coll_search(ctx, queries, real, max_per_key=1):
    failures, seen, evals, nontriv = [], {}, 0, set()
    dist = {'queries': 0, 'pony_raises': {}, 'failing_groups_by_key': seen}
    for atoms, proj, params in queries:
        dist['queries'] += 1
        try:
            bad = check_query(real, atoms, proj, params)
        except Exception as ex:
            n = type(ex).__name__; dist['pony_raises'][n] = dist['pony_raises'].get(n, 0) + 1; continue
        evals += len(real.graph['G'])
        if not bad: nontriv.add(qsrc(atoms, proj))
        for g, mode, got, want in bad:
            f = coll_failure(atoms, proj, params, real.graph, g, mode, got, want)
            seen[f.key] = seen.get(f.key, 0) + 1
            if seen[f.key] <= max_per_key: failures.append(f)
    return evals, failures, nontriv, dist


def replay_coll(d):
    atoms = atoms_from_json(d['atoms'])
    proj = L.from_json(d['proj']) if d['proj'] is not None else None
    params = {int(k): v for k, v in d['params'].items()}
    real = J.RealGraph(d['graph'])
    try:
        bad = check_query(real, atoms, proj, params)
    except Exception:
        return None
    if not bad: return None
    g, mode, got, want = bad[0]
    return coll_failure(atoms, proj, params, d['graph'], g, mode, got, want)


# ---------------------------------------------------------------------------------------------- len(g.members) / count(g.members)
# (coq/Model/C01Len.v)  query = (ws, hs, proj): ws plain conditions over g, hs conditions that mention 'group.cnt' = len(g.members)
# (no top-level `and` in an hs item, so that each becomes one HAVING condition); since repo commit 809623a every such item lands in HAVING

LEN_HEADER = COLL_HEADER.replace('PonyV.Model.C01Coll.', 'PonyV.Model.C01Coll PonyV.Model.C01Len.')


def len_qsrc(ws, hs, proj, fn='len'):
    conds = [esrc(e) for e in ws] + [esrc(e, '%s(g.members)' % fn) for e in hs]
    return 'select(%s for g in G if %s)' % ('(g.id, %s)' % esrc(proj) if proj is not None else 'g.id', ' and '.join(conds))


def _lift_inline_count(x, found):
    if isinstance(x, (list, tuple)) and len(x) == 3 and x[0] == 'COUNT' and x[1] is True and x[2][0] == 'COLUMN' and x[2][2].lower() == 'id' and x[2][1] != 'g':
        found.append(x[2][1])
        return ['COLUMN', '#', 'cnt']
    if isinstance(x, (list, tuple)) and x and x[0] != 'PARAM': return [_lift_inline_count(y, found) for y in x]
    return x


def len_translate(provider, ws, hs, proj, params, fn='len'):
    """-> (join term, WHERE term, HAVING term, column term or None, sql, dump)"""
    from pony import orm
    db, P, G, D = J.get_db(provider)
    src = len_qsrc(ws, hs, proj, fn)[len('select('):-1]
    with orm.db_session:
        q = orm.select(src, query_globals(G, params))
        t = q._translator
        fa = t.sqlquery.from_ast
        if (fa[0] != 'LEFT_JOIN' or len(fa) != 3 or fa[1][2].upper() != 'G' or fa[2][1] != 'TABLE' or fa[2][2].upper() != 'P' or len(fa[2]) != 4
                or fa[2][3][0] != 'EQ'):
            raise L.Unmodelled('FROM %r' % (L.strip_ast(fa),))
        alias = fa[2][0]
        L.COLUMN_HOOK[0] = _hook
        try:
            j = fa[2][3]
            join = '(%d%%nat, %d%%nat)' % (_hook(j[1][1], j[1][2]), _hook(j[2][1], j[2][2]))
            found = []
            where = '[%s]' % '; '.join(L.qx(_lift_inline_count(c, found)) for c in t.conditions)
            having = '[%s]' % '; '.join(L.qx(_lift_inline_count(c, found)) for c in t.having_conditions)
            if any(a != alias for a in found): raise L.Unmodelled('COUNT over another alias')
            gb = [m.getsql() for m in t.groupby_monads]
            if not gb or [list(c[:3]) for c in gb[0]] != [['COLUMN', 'g', 'id']] and [list(c[:3]) for c in gb[0]] != [['COLUMN', 'g', 'ID']]:
                raise L.Unmodelled('GROUP BY %r' % (L.strip_ast(gb),))
            col = L.qx(t.expr_columns[1]) if proj is not None else None
        finally:
            L.COLUMN_HOOK[0] = None
        return join, where, having, col, q.get_sql(), L.strip_ast([fa, t.conditions, t.having_conditions, t.expr_columns])


def len_run(real, ws, hs, proj, params, raw=False, fn='len'):
    orm = real.orm
    src = len_qsrc(ws, hs, proj, fn)[len('select('):-1]
    with orm.db_session:
        q = orm.select(src, query_globals(real.G, params))
        if raw:
            sql, arguments, _, _ = q._construct_sql_and_arguments()
            rows = [tuple(r) for r in real.db._exec_sql(sql, arguments).fetchall()]
        else:
            rows = list(q)
    if proj is None: rows = [(r if not isinstance(r, tuple) else r[0], None) for r in rows]
    return sorted(rows, key=lambda r: r[0])


LEN_HANDMADE = [
    ([], [('cmp', '>', ('attr', 'group.cnt'), ('int', 1))], None),
    ([('cmp', '>', ('attr', 'group.number'), ('int', 0))], [('cmp', '==', ('attr', 'group.cnt'), ('int', 0))], ('attr', 'group.level')),
    ([], [('not', ('attr', 'group.cnt'))], None),
    ([], [('cmp', '>=', ('attr', 'group.cnt'), ('attr', 'group.number'))], ('attr', 'group.title')),
    ([('cmp', 'is not', ('attr', 'group.level'), ('none',))], [('cmp', '<', ('arith', '+', ('attr', 'group.cnt'), ('attr', 'group.level')), ('int', 4)), ('cmp', '>', ('attr', 'group.cnt'), ('int', 0))], None),
]


def gen_len_queries(ctx, n):
    rng = ctx.rng
    g_out = L.Gen(rng, pools=OUTER_POOLS); g_cnt = L.Gen(rng, pools=COUNT_POOLS)
    out = [(w, h, p, {}) for w, h, p in LEN_HANDMADE]
    while len(out) < n + len(LEN_HANDMADE):
        g_out.reset(); g_cnt.params, g_cnt.ptypes = g_out.params, g_out.ptypes
        ws = [_gen_outer(g_out, rng, lambda: g_out.filter_expr(rng.choice((2, 3)))) for _ in range(rng.choice((0, 0, 1)))]
        hs = []
        for _ in range(rng.choice((1, 1, 2))):
            for _ in range(50):
                e = _gen_outer(g_cnt, rng, lambda: g_cnt.filter_expr(rng.choice((2, 2, 3))))
                if 'group.cnt' in L.attrs_of(e) and e[0] != 'and': hs.append(e); break
        if not hs: continue
        # a ws condition must not be split off an `and` that mixes both kinds: keep ws items cnt-free (they are by their pools)
        proj = _gen_outer(g_out, rng, lambda: g_out.value(rng.choice(('int', 'str')), rng.choice((1, 2)), True)) if rng.random() < 0.3 else None
        out.append((ws, hs, proj, dict(g_out.params)))
    return out


def exprs_coq(es):
    return '[%s]' % '; '.join(L.coq(e) for e in es)


def len_cases(ctx, queries, real):
    """LEFT JOIN / WHERE / HAVING / column of the real translator on four providers vs tr_len; the rows real SQLite returns vs sql_len_rows."""
    import c01_harness as H
    exprs, meta, dis, nontriv = [], [], [], set()
    dist = {'shapes': 0, 'columns': 0, 'sqlite_result_lists': 0, 'translator_raises': 0}
    for k, (ws, hs, proj, params) in enumerate(queries):
        fn = ('len', 'count')[k % 2]
        for prov in ('sqlite', 'postgres', 'mysql', 'oracle'):
            if prov == 'oracle' and any(v == '' for v in params.values()): continue
            inp = {'provider': prov, 'query': len_qsrc(ws, hs, proj, fn), 'params': params}
            try:
                join, where, having, col, sql, dump = len_translate(prov, ws, hs, proj, params, fn)
            except L.Unmodelled as ex:
                dis.append({'what': 'len(collection) query outside the modelled shape: %s' % ex, 'input': inp}); continue
            except Exception as ex:
                dist['translator_raises'] += 1
                dis.append({'what': 'the real translator raised on a typed len(collection) query', 'input': inp, 'impl': '%s: %s' % (type(ex).__name__, str(ex)[:200])}); continue
            d = L.DN[prov]
            m = dict(inp, impl=dump)
            exprs.append('match tr_len_raw %s %s %s with Some (w, h) => Nat.eqb (fst sub_join) (fst %s) && Nat.eqb (snd sub_join) (snd %s) && oqxs_eqb (Some w) (Some %s) && oqxs_eqb (Some h) (Some %s) | None => false end' % (
                d, exprs_coq(ws), exprs_coq(hs), join, join, where, having))
            meta.append(dict(m, mode='len-shape')); dist['shapes'] += 1
            if proj is not None:
                exprs.append('oqx_eqb (tr_project %s %s) (Some %s)' % (d, L.coq(proj), col)); meta.append(dict(m, mode='len-columns')); dist['columns'] += 1
            nontriv.add((prov, len_qsrc(ws, hs, proj, fn)))
            if prov == 'sqlite':
                try:
                    rows = len_run(real, ws, hs, proj, params, raw=True, fn=fn)
                except Exception as ex:
                    # an aggregate in WHERE: the model says the statement is invalid (tr_len = None) exactly then
                    exprs.append('match tr_len DSqlite %s %s with None => true | Some _ => false end' % (exprs_coq(ws), exprs_coq(hs)))
                    meta.append(dict(m, mode='len-invalid-statement', impl='%s: %s' % (type(ex).__name__, ex), sql=sql)); dist['sqlite_rejects'] = dist.get('sqlite_rejects', 0) + 1
                    continue
                exprs.append('match tr_len DSqlite %s %s with None => false | Some _ => true end' % (exprs_coq(ws), exprs_coq(hs)))
                meta.append(dict(m, mode='len-valid-statement', sql=sql))
                got = '[%s]' % '; '.join(H.coq_qv(v) if proj is not None else '(IntV %d)' % i for i, v in rows)
                exprs.append('%s (sql_len_rows DSqlite %s DB %s %s %s) %s' % (J.QVS_EQB, L._coq_fn(list(params.items())), where, having, col if proj is not None else '(QCol 10)', got))
                meta.append(dict(m, mode='len-rows', impl=rows, sql=sql)); dist['sqlite_result_lists'] += 1
    return exprs, meta, dis, nontriv, dist


def check_len_query(real, ws, hs, proj, params, fn='len'):
    import c01_harness as H
    graph = real.graph
    got = dict(len_run(real, ws, hs, proj, params, fn=fn))
    bad = []
    for g in graph['G']:
        row = g_row(g, len(members(graph, g)))
        try:
            keep = all(_keeps(e, row, params) for e in ws + hs)
            want = None
            if proj is not None:
                if 'zero-division' in L.hazards(proj, row, params): continue
                want = L.ref(proj, row, params, False)
        except (Skip, L.RefError):
            continue
        if keep != (g['id'] in got): bad.append((g, 'filter', g['id'] in got, keep))
        elif keep and proj is not None and not H.same_value(got[g['id']], want): bad.append((g, 'project', got[g['id']], want))
    return bad


def len_failure(ws, hs, proj, params, graph, g, mode, got, want, fn):
    import c01_harness as H
    row = g_row(g, len(members(graph, g)))
    key = None
    if mode == 'project': key = H.classify(proj, row, params, 'project')
    else:
        for e in ws + hs:
            try: differs = L.keeps(e, row, params, False) != L.keeps(e, row, params, True)
            except L.RefError: differs = False
            k = H.classify(e, row, params, 'filter')
            if differs or not k.startswith('unlisted'): key = k; break
    if key is None: key = 'unlisted:collection:len'
    what = '%s with %s on group %s with %d members: Pony gives %r, the comprehension gives %r' % (
        len_qsrc(ws, hs, proj, fn), {('x%d' % i): v for i, v in sorted(params.items())}, g, len(members(graph, g)), got, want)
    return Failure(key, what, {'len': {'ws': [L.to_json(e) for e in ws], 'hs': [L.to_json(e) for e in hs], 'proj': L.to_json(proj) if proj is not None else None, 'fn': fn,
                                       'params': {str(i): v for i, v in params.items()}, 'graph': minimal_graph(graph, g)}})


def _has_inline_count(x):
    if isinstance(x, (list, tuple)):
        if len(x) == 3 and x[0] == 'COUNT' and x[1] is True: return True
        return any(_has_inline_count(y) for y in x if isinstance(y, (list, tuple)))
    return False


def len_raises(ws, hs, proj, params, graph, fn, ex):
    """The database rejected the statement although every part is typed and Python evaluates the comprehension."""
    if type(ex).__name__ not in ('OperationalError', 'ProgrammingError', 'DatabaseError'): return None
    key = 'unlisted:collection:len-raises:%s' % type(ex).__name__
    what = '%s with %s: the database rejects the statement (%s: %s); Python evaluates the comprehension' % (
        len_qsrc(ws, hs, proj, fn), {('x%d' % i): v for i, v in sorted(params.items())}, type(ex).__name__, str(ex)[:80])
    g = graph['G'][0]
    return Failure(key, what, {'len': {'ws': [L.to_json(e) for e in ws], 'hs': [L.to_json(e) for e in hs], 'proj': L.to_json(proj) if proj is not None else None, 'fn': fn,
                                       'params': {str(i): v for i, v in params.items()}, 'graph': minimal_graph(graph, g)}})


def len_search(ctx, queries, real, max_per_key=1):
    failures, seen, evals, nontriv = [], {}, 0, set()
    dist = {'queries': 0, 'pony_raises': {}, 'failing_groups_by_key': seen}
    for k, (ws, hs, proj, params) in enumerate(queries):
        fn = ('len', 'count')[k % 2]
        dist['queries'] += 1
        try:
            bad = check_len_query(real, ws, hs, proj, params, fn)
        except Exception as ex:
            n = type(ex).__name__; dist['pony_raises'][n] = dist['pony_raises'].get(n, 0) + 1
            f = len_raises(ws, hs, proj, params, real.graph, fn, ex)
            if f is not None:
                seen[f.key] = seen.get(f.key, 0) + 1
                if seen[f.key] <= max_per_key: failures.append(f)
            continue
        evals += len(real.graph['G'])
        if not bad: nontriv.add(len_qsrc(ws, hs, proj, fn))
        for g, mode, got, want in bad:
            f = len_failure(ws, hs, proj, params, real.graph, g, mode, got, want, fn)
            seen[f.key] = seen.get(f.key, 0) + 1
            if seen[f.key] <= max_per_key: failures.append(f)
    return evals, failures, nontriv, dist


def replay_len(d):
    ws = [L.from_json(e) for e in d['ws']]; hs = [L.from_json(e) for e in d['hs']]
    proj = L.from_json(d['proj']) if d['proj'] is not None else None
    params = {int(k): v for k, v in d['params'].items()}
    real = J.RealGraph(d['graph'])
    try:
        bad = check_len_query(real, ws, hs, proj, params, d.get('fn', 'len'))
    except Exception as ex:
        return len_raises(ws, hs, proj, params, d['graph'], d.get('fn', 'len'), ex)
    if not bad: return None
    g, mode, got, want = bad[0]
    return len_failure(ws, hs, proj, params, d['graph'], g, mode, got, want, d.get('fn', 'len'))


# ---------------------------------------------------------------------------------------------- formulas over subquery conditions
# (coq/Model/C01Form.v)  query = (subs, filt, proj, params): subs[k] describes column 40 + k:
#     ('exists', c)   ('in', v, attr, form, c)   ('count', c)   ('agg', f, item, c)  with f in sum / min / max / count
# filt / proj are c01_lib expressions over g's attributes, the leaves ('sub', 40 + k) (exists / in) and ('col', 40 + k, type, nullable) (scalar subqueries)

AGG_FN = {'sum': 'FSum', 'min': 'FMin', 'max': 'FMax', 'count': 'FCount'}
AGG_AST = {'SUM': 'FSum', 'MIN': 'FMin', 'MAX': 'FMax', 'COUNT': 'FCount'}
FORM_HEADER = COLL_HEADER.replace('PonyV.Model.C01Coll.', 'PonyV.Model.C01Coll PonyV.Model.C01Aggr PonyV.Model.C01Form.')
SUB_BASE = 40


def sub_src(x):
    k = x[0]
    if k == 'exists': return 'g.members' if x[1] is None else 'exists(m for m in g.members if %s)' % esrc(x[1])
    if k == 'in':
        v, a, form, c = x[1:]
        coll = 'g.members.%s' % a if form == 'attr' else '(m.%s for m in g.members%s)' % (a, '' if c is None else ' if ' + esrc(c))
        return '(%s in %s)' % (esrc(v), coll)
    if k == 'count': return count_src(x[1])
    if k == 'agg': return '%s(%s for m in g.members%s)' % (x[1], esrc(x[2]), '' if x[3] is None else ' if ' + esrc(x[3]))
    raise ValueError(k)


def fsrc(e, subs):
    s = L.src(e)
    for k in reversed(range(len(subs))):
        s = s.replace('p.group.s%d' % (SUB_BASE + k), sub_src(subs[k])).replace('p.group.q%d' % (SUB_BASE + k), sub_src(subs[k]))
    return s.replace('p.group.', 'g.').replace('p.', 'm.')


def form_qsrc(subs, filt, proj):
    return 'select(%s for g in G if %s)' % ('(g.id, %s)' % fsrc(proj, subs) if proj is not None else 'g.id', fsrc(filt, subs))


def sub_coq(x):
    k = x[0]
    if k == 'exists': return '(SQExists %s)' % copt(x[1])
    if k == 'count': return '(SQCount %s)' % copt(x[1])
    if k == 'agg': return '(SQAgg %s %s %s)' % (AGG_FN[x[1]], L.coq(x[2]), copt(x[3]))
    v, a, form, c = x[1:]
    i, t, n = L.ATTRS[a]
    return '(SQIn %s (mkattr %d %s %s) %s)' % (L.coq(v), i, L._VTY[t], cb(n), 'SAttr' if form == 'attr' else '(SGen %s)' % copt(c))


def subs_json(subs):
    out = []
    for x in subs:
        if x[0] in ('exists', 'count'): out.append([x[0], None if x[1] is None else L.to_json(x[1])])
        elif x[0] == 'agg': out.append(['agg', x[1], L.to_json(x[2]), None if x[3] is None else L.to_json(x[3])])
        else: out.append(['in', L.to_json(x[1]), x[2], x[3], None if x[4] is None else L.to_json(x[4])])
    return out


def subs_from_json(js):
    f = lambda c: None if c is None else L.from_json(c)
    return [(x[0], f(x[1])) if x[0] in ('exists', 'count') else (('agg', x[1], L.from_json(x[2]), f(x[3])) if x[0] == 'agg' else ('in', L.from_json(x[1]), x[2], x[3], f(x[4]))) for x in js]


def _form_hook(alias, name):
    if alias == '#': return int(name[1:])
    return _hook(alias, name)


def _lift_subs(x, xs):
    """Replace the subquery nodes of a condition AST by pseudo columns (pre-order), appending their Coq xsub terms to xs."""
    if isinstance(x, (list, tuple)) and x and x[0] != 'PARAM':
        t = x[0]
        if t in ('EXISTS', 'NOT_EXISTS') and len(x) == 3:
            col = ['COLUMN', '#', 's%d' % (SUB_BASE + len(xs))]
            xs.append('(XSExists %s)' % _sub_term(x[1], x[2]))
            return col if t == 'EXISTS' else ['NOT', col]
        if t in ('IN', 'NOT_IN') and len(x) == 3 and x[2] and x[2][0] == 'SELECT':
            sel = x[2]
            if len(sel) != 4 or sel[1][0] != 'ALL' or len(sel[1]) != 2: raise L.Unmodelled('IN subquery %r' % (sel[1],))
            col = ['COLUMN', '#', 's%d' % (SUB_BASE + len(xs))]
            xs.append('(XSIn %s %s %s)' % (L.qx(x[1]), L.qx(sel[1][1]), _sub_term(sel[2], sel[3])))
            return col if t == 'IN' else ['NOT', col]
        if _is_count_select(x):
            col = ['COLUMN', '#', 'q%d' % (SUB_BASE + len(xs))]
            xs.append('(XSCount %s)' % _sub_term(x[2], x[3]))
            return col
        if (t == 'SELECT' and len(x) == 4 and len(x[1]) == 2 and x[1][0] == 'AGGREGATES' and x[1][1][0] in AGG_AST and len(x[1][1]) == 3
                and x[1][1][1] in (True, False)):
            col = ['COLUMN', '#', 'q%d' % (SUB_BASE + len(xs))]
            a = x[1][1]
            xs.append('(XSAgg %s %s %s %s)' % (AGG_AST[a[0]], cb(a[1]), L.qx(a[2]), _sub_term(x[2], x[3])))
            return col
        return [_lift_subs(y, xs) for y in x]
    return x


def form_translate(provider, subs, filt, proj, params):
    """-> (xsub list term, conditions term, column term or None, sql, dump)"""
    from pony import orm
    db, P, G, D = J.get_db(provider)
    src = form_qsrc(subs, filt, proj)[len('select('):-1]
    with orm.db_session:
        q = orm.select(src, query_globals(G, params))
        t = q._translator
        fa = t.sqlquery.from_ast
        if fa[0] != 'FROM' or len(fa) != 2 or fa[1][2].upper() != 'G' or t.having_conditions or t.groupby_monads:
            raise L.Unmodelled('outer FROM %r / grouping' % (L.strip_ast(fa),))
        L.COLUMN_HOOK[0] = _form_hook
        try:
            xs = []
            conds = '[%s]' % '; '.join(L.qx(_lift_subs(c, xs)) for c in t.conditions)
            col = L.qx(_lift_subs(t.expr_columns[1], xs)) if proj is not None else None
        finally:
            L.COLUMN_HOOK[0] = None
        return '[%s]' % '; '.join(xs), conds, col, q.get_sql(), L.strip_ast([fa, t.conditions, t.expr_columns])


def form_run(real, subs, filt, proj, params, raw=False):
    orm = real.orm
    src = form_qsrc(subs, filt, proj)[len('select('):-1]
    with orm.db_session:
        q = orm.select(src, query_globals(real.G, params))
        if raw:
            sql, arguments, _, _ = q._construct_sql_and_arguments()
            rows = [tuple(r) for r in real.db._exec_sql(sql, arguments).fetchall()]
        else:
            rows = list(q)
    if proj is None: rows = [(r if not isinstance(r, tuple) else r[0], None) for r in rows]
    return sorted(rows, key=lambda r: r[0])


def sub_value(graph, g, x, params):
    """Python value of a subquery for g: bool (exists), True / False / None = unknown (in), int (count)."""
    k = x[0]
    if k == 'exists': return bool(selected(graph, g, x[1], params))
    if k == 'count': return len(selected(graph, g, x[1], params))
    if k == 'agg':
        f, item, c = x[1:]
        vals = []
        for m in selected(graph, g, c, params):
            row = m_row(g, m)
            try:
                if 'zero-division' in L.hazards(item, row, params): raise Skip()
                v = L.ref(item, row, params, False)
            except L.RefError:
                raise Skip()
            if v is not None: vals.append(v)
        if f == 'sum': return sum(int(v) for v in vals)
        if f == 'count': return len({(type(v).__name__, v) for v in vals})
        if not vals: return None
        return min(vals) if f == 'min' else max(vals)
    v, a, form, c = x[1:]
    try: val = L.ref(v, g_row(g), params, False)
    except L.RefError: raise Skip()
    items = [m[a] for m in selected(graph, g, c if form == 'gen' else None, params) if m[a] is not None]
    if val is None: return None if items else False
    return val in items


def form_row(graph, g, subs, params):
    row = g_row(g)
    for k, x in enumerate(subs):
        v = sub_value(graph, g, x, params)
        row['group.%s%d' % ('q' if x[0] in ('count', 'agg') else 's', SUB_BASE + k)] = v
    return row


def check_form_query(real, subs, filt, proj, params):
    import c01_harness as H
    graph = real.graph
    got = dict(form_run(real, subs, filt, proj, params))
    bad = []
    for g in graph['G']:
        try:
            row = form_row(graph, g, subs, params)
            keep = _keeps(filt, row, params)
            want = None
            if proj is not None:
                if 'zero-division' in L.hazards(proj, row, params): continue
                want = L.ref(proj, row, params, False)
        except (Skip, L.RefError):
            continue
        if keep != (g['id'] in got): bad.append((g, 'filter', g['id'] in got, keep))
        elif keep and proj is not None and not H.same_value(got[g['id']], want): bad.append((g, 'project', got[g['id']], want))
    return bad


def form_failure(subs, filt, proj, params, graph, g, mode, got, want):
    import c01_harness as H
    key = None
    try:
        row = form_row(graph, g, subs, params)
        e = proj if mode == 'project' else filt
        k = H.classify(e, row, params, mode)
        try: differs = (L.keeps(e, row, params, False) != L.keeps(e, row, params, True)) if mode == 'filter' else (L.ref(e, row, params, False) != L.ref(e, row, params, True))
        except L.RefError: differs = False
        if differs or not k.startswith('unlisted'): key = k
        if key is None:
            for x in subs:
                pieces = [x[4], x[1]] if x[0] == 'in' else ([x[3], x[2]] if x[0] == 'agg' else [x[1]])
                for c in [y for y in pieces if y is not None]:
                    rows = [g_row(g)] if (x[0] == 'in' and c is x[1]) else [m_row(g, m) for m in members(graph, g)]
                    for r in rows:
                        k = H.classify(c, r, params, 'filter')
                        try: differs = L.keeps(c, r, params, False) != L.keeps(c, r, params, True)
                        except L.RefError: differs = False
                        if differs or not k.startswith('unlisted'): key = key or k
    except Skip:
        pass
    key = known_agg_key(subs, (subs, filt, proj, params)) or key
    if key is None: key = 'unlisted:collection:formula'
    what = '%s with %s on group %s with members %s: Pony gives %r, the comprehension gives %r' % (
        form_qsrc(subs, filt, proj), {('x%d' % i): v for i, v in sorted(params.items())}, g, [m['id'] for m in members(graph, g)], got, want)
    return Failure(key, what, {'form': {'subs': subs_json(subs), 'filt': L.to_json(filt), 'proj': L.to_json(proj) if proj is not None else None,
                                        'params': {str(i): v for i, v in params.items()}, 'graph': minimal_graph(graph, g)}})


def gen_formula(rng, g_in, g_out, depth, subs):
    """A condition over new subquery leaves (numbered in source order) and g's attributes."""
    def inner(): return g_in.filter_expr(rng.choice((2, 2, 3)))
    def new_col(x):
        subs.append(x); return SUB_BASE + len(subs) - 1
    r = rng.random()
    if depth <= 1 or r < 0.3 or len(subs) >= 5:
        kind = rng.choice(('exists', 'exists', 'in', 'in', 'count', 'agg', 'agg', 'plain')) if len(subs) < 6 else 'plain'
        if kind == 'plain': return _gen_outer(g_out, rng, lambda: g_out.cond(2))
        if kind == 'exists': return ('sub', new_col(('exists', inner() if rng.random() < 0.7 else None)))
        if kind == 'in':
            a = rng.choice(ITEM_ATTRS); t = L.ATTRS[a][1]
            v = _gen_outer(g_out, rng, lambda: g_out.value(t, rng.choice((1, 1, 2)), rng.random() < 0.7))
            form = 'attr' if rng.random() < 0.25 else 'gen'
            return ('sub', new_col(('in', v, a, form, inner() if form == 'gen' and rng.random() < 0.4 else None)))
        leaf, t = gen_scalar_sub(rng, g_in, subs, kind)
        other = _gen_outer(g_out, rng, lambda: g_out.value(t, rng.choice((1, 1, 2)), False))
        return ('cmp', rng.choice(L.CMPS[:6]), leaf, other)
    f = rng.choice(('not', 'and', 'or', 'or', 'not'))
    if f == 'not': return ('not', gen_formula(rng, g_in, g_out, depth - 1, subs))
    a = gen_formula(rng, g_in, g_out, depth - 1, subs)
    b = gen_formula(rng, g_in, g_out, depth - 1, subs)
    return (f, a, b)


P_ATTRS = ('a', 'b', 'r', 's', 'u', 'f', 'g')
SEARCH_MODE = [False]      # the search also produces the recorded defect shape (an item without a column of m)


def _has_alias_column(x, alias):
    if isinstance(x, (list, tuple)):
        if len(x) == 3 and x[0] == 'COLUMN' and x[1] == alias: return True
        if len(x) == 3 and x[0] in ('IN', 'NOT_IN') and x[2] == []: return False      # rendered `0 = 1` / `1 = 1`: the operand is not in the SQL text
        if len(x) == 2 and x[0] in ('IS_NULL', 'IS_NOT_NULL'): return False             # SQLite folds `<NOT NULL column> IS NULL` before scoping the aggregate
        return any(_has_alias_column(y, alias) for y in x if isinstance(y, (list, tuple)))
    return False


def _outer_only_aggregate(x):
    """Does the AST contain an aggregate subselect whose argument mentions no column of the subselect's own table?"""
    if isinstance(x, (list, tuple)):
        if (len(x) == 4 and x[0] == 'SELECT' and len(x[1]) == 2 and x[1][0] == 'AGGREGATES' and len(x[1][1]) == 3 and x[2][0] == 'FROM'
                and not _has_alias_column(x[1][1][2], x[2][1][0])): return True
        return any(_outer_only_aggregate(y) for y in x if isinstance(y, (list, tuple)))
    return False


def outer_only_query(subs, filt, proj, params):
    from pony import orm
    db, P, G, D = J.get_db('sqlite')
    try:
        with orm.db_session:
            t = orm.select(form_qsrc(subs, filt, proj)[len('select('):-1], query_globals(G, params))._translator
            return _outer_only_aggregate([t.conditions, t.expr_columns])
    except Exception:
        return False


def known_agg_key(subs, query=None):
    if query is not None and any(x[0] == 'agg' for x in subs) and outer_only_query(*query): return 'collection-aggregate-of-outer-only-item'
    return None


def gen_scalar_sub(rng, g_in, subs, kind=None):
    """A new scalar subquery -> (its 'col' leaf, its type)."""
    def inner(): return g_in.filter_expr(rng.choice((2, 2, 3)))
    kind = kind or rng.choice(('count', 'agg', 'agg'))
    if kind == 'count':
        subs.append(('count', inner() if rng.random() < 0.6 else None))
        return ('col', SUB_BASE + len(subs) - 1, 'int', False), 'int'
    f = rng.choice(('sum', 'sum', 'min', 'max', 'count'))
    t = rng.choice(('int', 'int', 'int', 'bool') if f == 'sum' else ('int', 'str'))
    for _ in range(50):
        item = g_in.value(t, rng.choice((1, 1, 2)), True)
        if (L.attrs_of(item) & set(P_ATTRS)) or (SEARCH_MODE[0] and rng.random() < 0.1): break
    subs.append(('agg', f, item, inner() if rng.random() < 0.4 else None))
    rt = 'int' if f in ('sum', 'count') else t
    return ('col', SUB_BASE + len(subs) - 1, rt, f in ('min', 'max')), rt


S40 = ('sub', 40); S41 = ('sub', 41)
FORM_HANDMADE = [
    ([('exists', None)], ('not', S40), None),
    ([('exists', ('attr', 'f')), ('exists', ('cmp', '>', ('attr', 'a'), ('attr', 'group.level')))], ('or', S40, ('not', S41)), None),
    ([('in', ('attr', 'group.level'), 'a', 'gen', None)], ('not', S40), None),
    ([('in', ('attr', 'group.level'), 'a', 'gen', None), ('exists', None)], ('not', ('or', S40, ('not', S41))), ('attr', 'group.number')),
    ([('in', ('attr', 'group.title'), 's', 'attr', None)], ('or', ('not', S40), ('cmp', '>', ('attr', 'group.number'), ('int', 1))), None),
    ([('count', None), ('exists', ('attr', 'g'))], ('and', ('or', ('cmp', '>', ('col', 40, 'int', False), ('int', 2)), S41), ('cmp', 'is not', ('attr', 'group.level'), ('none',))), None),
    ([('agg', 'sum', ('attr', 'a'), None)], ('cmp', '>', ('col', 40, 'int', False), ('attr', 'group.level')), ('attr', 'group.number')),
    ([('agg', 'min', ('attr', 'a'), None)], ('cmp', '==', ('col', 40, 'int', True), ('int', 1)), None),
    ([('agg', 'max', ('attr', 's'), ('attr', 'g'))], ('not', ('col', 40, 'str', True)), None),
    ([('exists', None), ('agg', 'sum', ('arith', '+', ('attr', 'a'), ('attr', 'group.level')), None)], S40, ('arith', '+', ('col', 41, 'int', False), ('int', 1))),
    ([('exists', None), ('agg', 'max', ('attr', 'b'), None), ('agg', 'count', ('attr', 's'), None)], ('or', S40, ('cmp', 'is', ('attr', 'group.level'), ('none',))), ('coalesce', (('col', 41, 'int', True), ('col', 42, 'int', False)))),
    ([('in', ('attr', 'group.number'), 'r', 'gen', ('attr', 'g')), ('in', ('attr', 'group.level'), 'b', 'gen', None)], ('not', ('and', S40, S41)), None),
    ([('count', ('cmp', '>', ('attr', 'a'), ('int', 0))), ('count', None)], ('cmp', '<', ('col', 40, 'int', False), ('col', 41, 'int', False)), None),
    ([('exists', None), ('agg', 'sum', ('attr', 'g'), None)], S40, ('col', 41, 'int', False)),                       # sum of a boolean item is an int (37ddc86)
    ([('agg', 'sum', ('attr', 'f'), None)], ('cmp', '>=', ('col', 40, 'int', False), ('int', 2)), None),
]


def gen_form_queries(ctx, n, search=False):
    SEARCH_MODE[0] = search
    rng = ctx.rng
    g_in = L.Gen(rng, pools=INNER_POOLS); g_out = L.Gen(rng, pools=OUTER_POOLS)
    out = [(s, f, p, {}) for s, f, p in FORM_HANDMADE]
    while len(out) < n + len(FORM_HANDMADE):
        g_in.reset(); g_out.params, g_out.ptypes = g_in.params, g_in.ptypes
        subs = []
        try: filt = gen_formula(rng, g_in, g_out, rng.choice((2, 3, 3)), subs)
        except RuntimeError: continue
        if not subs: continue
        proj = None
        r = rng.random()
        if r < 0.2: proj = _gen_outer(g_out, rng, lambda: g_out.value(rng.choice(('int', 'str')), rng.choice((1, 2)), True))
        elif r < 0.45 and len(subs) < 6:
            leaf, t = gen_scalar_sub(rng, g_in, subs)
            proj = leaf if rng.random() < 0.6 or t != 'int' else ('arith', rng.choice(('+', '-', '*')), leaf, _gen_outer(g_out, rng, lambda: g_out.value('int', 1, False)))
        if not search and any(x[0] == 'agg' for x in subs) and outer_only_query(subs, filt, proj, dict(g_in.params)): continue
        out.append((subs, filt, proj, dict(g_in.params)))
    return out


def form_cases(ctx, queries, real):
    """Subquery list + conditions (subqueries as pseudo columns; NOT EXISTS / NOT IN read as NOT (..)) + column on four providers vs the
    model; the rows real SQLite returns vs sql_form_rows."""
    import c01_harness as H
    exprs, meta, dis, nontriv = [], [], [], set()
    dist = {'conditions': 0, 'columns': 0, 'sqlite_result_lists': 0, 'translator_raises': 0, 'subqueries': {}}
    for subs, filt, proj, params in queries:
        for x in subs: dist['subqueries'][x[0]] = dist['subqueries'].get(x[0], 0) + 1
        subs_term = '[%s]' % '; '.join(sub_coq(x) for x in subs)
        for prov in ('sqlite', 'postgres', 'mysql', 'oracle'):
            if prov == 'oracle' and any(v == '' for v in params.values()): continue
            inp = {'provider': prov, 'query': form_qsrc(subs, filt, proj), 'params': params}
            try:
                xs, conds, col, sql, dump = form_translate(prov, subs, filt, proj, params)
            except L.Unmodelled as ex:
                dis.append({'what': 'formula query outside the modelled shapes: %s' % ex, 'input': inp}); continue
            except Exception as ex:
                dist['translator_raises'] += 1
                dis.append({'what': 'the real translator raised on a typed formula query', 'input': inp, 'impl': '%s: %s' % (type(ex).__name__, str(ex)[:200])}); continue
            d = L.DN[prov]
            m = dict(inp, impl=dump)
            exprs.append('oxsubs_eqb (tr_subqs %s %s) %s && oqxs_eqb (tr_filter %s %s) (Some %s)' % (d, subs_term, xs, d, L.coq(filt), conds))
            meta.append(dict(m, mode='formula-conditions')); dist['conditions'] += 1
            if proj is not None:
                exprs.append('oqx_eqb (tr_project %s %s) (Some %s)' % (d, L.coq(proj), col)); meta.append(dict(m, mode='formula-columns')); dist['columns'] += 1
            nontriv.add((prov, form_qsrc(subs, filt, proj)))
            if prov == 'sqlite':
                try:
                    rows = form_run(real, subs, filt, proj, params, raw=True)
                except Exception as ex:
                    dis.append({'what': 'real SQLite raised on a formula query', 'input': inp, 'impl': '%s: %s' % (type(ex).__name__, ex)}); continue
                got = '[%s]' % '; '.join(H.coq_qv(v) if proj is not None else '(IntV %d)' % i for i, v in rows)
                exprs.append('%s (sql_form_rows DSqlite %s DB false %s %s %s) %s' % (J.QVS_EQB, L._coq_fn(list(params.items())), xs, conds, col if proj is not None else '(QCol 10)', got))
                meta.append(dict(m, mode='formula-rows', impl=rows, sql=sql)); dist['sqlite_result_lists'] += 1
    return exprs, meta, dis, nontriv, dist


def form_raises(subs, filt, proj, params, graph, ex):
    key = known_agg_key(subs, (subs, filt, proj, params))
    key = key or 'unlisted:collection:formula-raises:%s' % type(ex).__name__
    what = '%s with %s: the database rejects the statement (%s: %s); Python evaluates the comprehension' % (
        form_qsrc(subs, filt, proj), {('x%d' % i): v for i, v in sorted(params.items())}, type(ex).__name__, str(ex)[:80])
    return Failure(key, what, {'form': {'subs': subs_json(subs), 'filt': L.to_json(filt), 'proj': L.to_json(proj) if proj is not None else None,
                                        'params': {str(i): v for i, v in params.items()}, 'graph': minimal_graph(graph, graph['G'][0])}})


def form_search(ctx, queries, real, max_per_key=1):
    failures, seen, evals, nontriv = [], {}, 0, set()
    dist = {'queries': 0, 'pony_raises': {}, 'failing_groups_by_key': seen}
    for subs, filt, proj, params in queries:
        dist['queries'] += 1
        try:
            bad = check_form_query(real, subs, filt, proj, params)
        except Exception as ex:
            n = type(ex).__name__; dist['pony_raises'][n] = dist['pony_raises'].get(n, 0) + 1
            if n in ('OperationalError', 'ProgrammingError', 'DatabaseError'):
                f = form_raises(subs, filt, proj, params, real.graph, ex)
                seen[f.key] = seen.get(f.key, 0) + 1
                if seen[f.key] <= max_per_key: failures.append(f)
            continue
        evals += len(real.graph['G'])
        if not bad: nontriv.add(form_qsrc(subs, filt, proj))
        for g, mode, got, want in bad:
            f = form_failure(subs, filt, proj, params, real.graph, g, mode, got, want)
            seen[f.key] = seen.get(f.key, 0) + 1
            if seen[f.key] <= max_per_key: failures.append(f)
    return evals, failures, nontriv, dist


def replay_form(d):
    subs = subs_from_json(d['subs']); filt = L.from_json(d['filt'])
    proj = L.from_json(d['proj']) if d['proj'] is not None else None
    params = {int(k): v for k, v in d['params'].items()}
    real = J.RealGraph(d['graph'])
    try:
        bad = check_form_query(real, subs, filt, proj, params)
    except Exception as ex:
        if type(ex).__name__ in ('OperationalError', 'ProgrammingError', 'DatabaseError'): return form_raises(subs, filt, proj, params, d['graph'], ex)
        return None
    if not bad: return None
    g, mode, got, want = bad[0]
    return form_failure(subs, filt, proj, params, d['graph'], g, mode, got, want)
