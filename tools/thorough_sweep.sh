#!/bin/bash
# tools/thorough_sweep.sh [seed] : run every claimed check's thorough tier (3 at a time); print the alarms and timings
cd "$(dirname "$0")/.."
S=${1:-1}
IDS=$(python3 -c "import json; print(' '.join(c['property_id'] for c in json.load(open('MANIFEST.json'))['checks']))")
mkdir -p .scratch/thorough
for ID in $IDS; do echo "$ID"; done | xargs -P 3 -L 1 bash -c 'ID=$0; S='$S'; VERIF_SEED=$S timeout 5400 ./check $ID --tier thorough > .scratch/thorough/$ID.log 2>&1; echo "thorough seed=$S $ID exit=$? $(tail -1 .scratch/thorough/$ID.log | cut -c1-170)"' | tee .scratch/thorough/summary.txt
echo "=== alarms ==="; grep -v "exit=0" .scratch/thorough/summary.txt
