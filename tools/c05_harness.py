"""C05 - histories of query executions against real Pony on in-memory SQLite, executed with warm caches (instrumented)
and again with every cache cleared before each step; plus the encoding of a history for the Coq model
(coq/Model/C05Memo.v: translator cache with validation, SQL cache, per-session result cache).

A history is a list of steps (JSON-able):
    ['query', qid, {name: value}, how]     qid indexes QUERIES; how in 'all' | 'count' | 'exists' | 'first' | 'page' | 'limit2'
    ['set', row, attr, value]              P[row].attr = value            (session modification, unflushed)
    ['create', a]                          P(a=a, ...)                    (session modification)
    ['delete', row]                        P[row].delete()                (session modification)
    ['flush'] ['commit'] ['new_session']
    ['raw', k]                             db.execute(RAW[k])             (raw SQL write)
    ['bulk_delete', a]                     delete(p for p in P if p.a == a) via Query.delete(bulk=True)
"""
import json
import vlib, c01_lib as L

QUERIES = [
    'p.id for p in P if p.a > x0',
    'p.id for p in P if p.a == x0',
    'p.id for p in P if p.s == x0',
    'p.id for p in P if p.a in x0',
    'p.s[x0:x1] for p in P',
    '(p.id, p.a + x0) for p in P',
    'p.id for p in P if p.a > x0 and p.s != x1',
    'getattr(p, x0) for p in P',
    'p.id for p in P if p.s.startswith(x0)',
    'p.id for p in P if (p.a if p.f else p.b) != x0',
    'p.s[x0] for p in P if p.s',
    'p.id for p in P if x0 is None or p.a < x0',
    'p for p in P if p.b == x0 or p.a in x1',
    '(p.a, p.b) for p in P if coalesce(p.a, x0) > x1',
    # plain Python helpers inlined by the translator; their free variables are module globals whose VALUE AND TYPE change between executions
    # (they reach translator.vartypes only during translation, so only the sql cache key - not the query key - knows their types)
    'p.id for p in P if helper_s(p)',
    'p.id for p in P if helper_a(p) or p.b == x0',
]
HELPER_QIDS = (14, 15)
WANTED_S = 'a'
WANTED_A = 1


def helper_s(p):
    return p.s == WANTED_S


def helper_a(p):
    return p.a == WANTED_A

# parameter value pools per query (values AND types vary: int / str / None / bool / tuples of several lengths)
POOLS = {
    0: {'x0': [0, 1, 5, -1, True, None]},
    1: {'x0': [0, 1, 5, None, True]},
    2: {'x0': ['a', 'ab', '', None]},
    3: {'x0': [(), (1,), (1, 5), (0, 1, 5), [1, 5], (5,)]},
    4: {'x0': [0, 1, -1, None], 'x1': [1, 2, -1, None]},
    5: {'x0': [0, 1, 10, True]},
    6: {'x0': [0, 1, 5], 'x1': ['a', 'ab', None]},
    7: {'x0': ['a', 'b', 'r', 's']},
    8: {'x0': ['a', 'ab', '', '%']},
    9: {'x0': [0, 1, 5, None]},
    10: {'x0': [0, 1, -1]},
    11: {'x0': [None, 1, 5]},
    12: {'x0': [0, 2, None], 'x1': [(1,), (1, 5), ()]},
    13: {'x0': [0, 1], 'x1': [0, 1, 5]},
    14: {'w': ['a', 'ab', None, '']},
    15: {'w': [1, 5, None, 0], 'x0': [0, 2]},
}
HOWS = ('all', 'all', 'all', 'count', 'exists', 'first', 'page', 'limit2')
RAW = [
    'update P set a = a + 10 where id <= 2 and a is not null',
    'update P set s = \'zz\' where id = 1',
    'update P set b = 9, f = 0 where id = 2',
    'insert into P (a, r, u, g) values (5, 1, \'n\', 1)',
]

INITIAL_ROWS = [
    {'a': 1, 'b': 2, 'r': 1, 's': 'ab', 'u': 'a', 'f': True, 'g': False},
    {'a': 5, 'b': None, 'r': 2, 's': 'a', 'u': 'b', 'f': None, 'g': True},
    {'a': None, 'b': 0, 'r': 3, 's': None, 'u': 'c', 'f': False, 'g': True},
    {'a': 0, 'b': 2, 'r': 4, 's': '', 'u': 'd', 'f': True, 'g': True},
    {'a': 5, 'b': 5, 'r': 5, 's': 'abc', 'u': 'e', 'f': False, 'g': False},
]


def gen_history(rng, n, raw=True, helpers=False):
    """A random history: a few queries re-used with different parameter values / types, interleaved with writes.
    Session-level writes touch rows 3..5 (each deleted at most once), raw SQL touches rows 1..2, so that no step raises."""
    qids = rng.sample(range(len(QUERIES) if helpers else HELPER_QIDS[0]), rng.choice((2, 3, 4)))
    if helpers and rng.random() < 0.5 and not (set(qids) & set(HELPER_QIDS)): qids[0] = rng.choice(HELPER_QIDS)
    h = []
    alive = [3, 4, 5]
    for _ in range(n):
        r = rng.random()
        prev = [x for x in h if x[0] == 'query']
        if r < 0.25 and prev:
            h.append(json.loads(json.dumps(rng.choice(prev))))   # the very same query, parameters and fetch mode again
        elif r < 0.62:
            qid = rng.choice(qids)
            params = {k: rng.choice(v) for k, v in POOLS[qid].items()}
            h.append(json.loads(json.dumps(['query', qid, params, rng.choice(HOWS)])))
        elif r < 0.72 and alive:
            attr = rng.choice(('a', 'b', 's'))
            h.append(['set', rng.choice(alive), attr, rng.choice(('x', 'ab', '', None)) if attr == 's' else rng.choice((0, 1, 5, 7, None))])
        elif r < 0.77: h.append(['create', rng.choice((1, 5, 9))])
        elif r < 0.80 and len(alive) > 1:
            row = rng.choice(alive); alive.remove(row); h.append(['delete', row])
        elif r < 0.84: h.append(['flush'])
        elif r < 0.88: h.append(['commit'])
        elif r < 0.92: h.append(['new_session'])
        elif r < 0.96 and raw: h.append(['raw', rng.randrange(len(RAW))])
        elif r >= 0.96: h.append(['bulk_delete', 9])
    return h


# ---------------------------------------------------------------------------------------------- all the caches

def clear_all_caches(db, orm):
    """Every cache on the path of a declarative query (process, database, session level)."""
    from pony.orm import core, asttranslation, decompiling
    from pony import utils
    core.string2ast_cache.clear()
    core.adapted_sql_cache.clear()
    asttranslation.extractors_cache.clear()
    decompiling.ast_cache.clear()
    getattr(utils.utils, 'codeobjects', {}).clear() if hasattr(utils, 'utils') else None
    db._translator_cache.clear()
    db._constructed_sql_cache.clear()
    db._insert_cache.clear()
    for entity in db.entities.values():
        for name in ('_find_sql_cache_', '_load_sql_cache_', '_batchload_sql_cache_', '_insert_sql_cache_', '_update_sql_cache_', '_delete_sql_cache_'):
            getattr(entity, name).clear()
        entity._cached_max_id_sql_ = None
    cache = db._get_cache()
    if cache.query_results is not None: cache.query_results.clear()


class SpyDict(dict):
    """dict that logs get / set / del (used for db._translator_cache and db._constructed_sql_cache)."""
    def __init__(self, log, *a):
        dict.__init__(self, *a); self.log = log
    def get(self, k, d=None):
        v = dict.get(self, k, d)
        self.log.append(('get', k, v is not None)); return v
    def __setitem__(self, k, v):
        self.log.append(('set', k, True)); dict.__setitem__(self, k, v)
    def __delitem__(self, k):
        self.log.append(('del', k, True)); dict.__delitem__(self, k)
    def pop(self, k, *d):
        if k in self: self.log.append(('del', k, True))
        return dict.pop(self, k, *d)


def canon(v):
    """Canonical JSON-able form of a fetched value / row / entity."""
    if v is None or isinstance(v, (bool, int, str)): return v
    if isinstance(v, float): return repr(v)
    if isinstance(v, (tuple, list)): return [canon(x) for x in v]
    if hasattr(v, '_pk_'): return {'P': v._pk_}
    if hasattr(v, '__iter__'): return [canon(x) for x in v]        # QueryResult
    return repr(v)


def run_history(history, warm, instrument=False):
    """Run one history on a fresh in-memory database. warm=False: every cache is cleared before each step.
    -> list of per-step observations (None for non-query steps):
       {'sql': [...], 'args': [...], 'rows': canonical result, 'error': name or None, + instrumentation when warm}"""
    from pony import orm
    from pony.orm import core
    db, P = L.fresh_real_db()
    with orm.db_session:
        for r in INITIAL_ROWS: P(**r)
    from pony.orm import coalesce
    tlog, slog, calls = [], [], []
    if instrument:
        db._translator_cache = SpyDict(tlog, db._translator_cache)
        db._constructed_sql_cache = SpyDict(slog, db._constructed_sql_cache)
    orig = core.Query._construct_sql_and_arguments
    def spy(query, *a, **k):
        res = orig(query, *a, **k)
        if query._database is db:
            calls.append((res[0], canon(list(res[1].values()) if isinstance(res[1], dict) else list(res[1] or ()))))
        return res
    core.Query._construct_sql_and_arguments = spy
    out = []
    objs = {}
    def enter():
        # the objects the session-level steps touch are loaded up front, so that a `set` / `delete` step is ONLY a
        # modification (P[row] would otherwise run a SELECT, which flushes earlier pending changes)
        se = orm.db_session(); se.__enter__()
        objs.clear(); objs.update({o.id: o for o in P.select()[:]})
        return se
    session = enter()
    try:
        for step in history:
            kind = step[0]
            if not warm: clear_all_caches(db, orm)
            obs = None
            try:
                if kind == 'query':
                    _, qid, params, how = step
                    g = {'P': P, 'coalesce': coalesce, 'helper_s': helper_s, 'helper_a': helper_a}
                    if qid in HELPER_QIDS: globals()['WANTED_S' if qid == 14 else 'WANTED_A'] = params['w']
                    g.update({k: (tuple(v) if isinstance(v, list) and qid != 3 else v) for k, v in params.items()})
                    del tlog[:], slog[:], calls[:]
                    err, rows, q = None, None, None
                    try:
                        q = orm.select(QUERIES[qid], g)
                        if how == 'all': rows = canon(q[:])
                        elif how == 'count': rows = q.count()
                        elif how == 'exists': rows = q.exists()
                        elif how == 'first': rows = canon(q.order_by(1).first()) if qid not in (12,) else canon(q.first())
                        elif how == 'page': rows = canon(q.order_by(1).page(1, 2)[:]) if qid not in (12,) else canon(q.page(1, 2)[:])
                        elif how == 'limit2': rows = canon(q[:2])
                        if isinstance(rows, list) and how == 'all': rows = sorted(rows, key=repr)
                    except Exception as ex:
                        err = type(ex).__name__
                    obs = {'sql': [c[0] for c in calls], 'args': [c[1] for c in calls], 'rows': rows, 'error': err}
                    if instrument:
                        obs['translator_events'] = summarize(tlog)
                        obs['sql_events'] = summarize(slog)
                        if q is not None:
                            t = q._translator
                            obs['fixed'] = sorted((k[1], canon(v)) for k, v in t.fixed_param_values.items())
                            obs['vartypes'] = repr(sorted((k[1], vt_name(v)) for k, v in q._key['vartypes'].items()))
                            obs['translator_id'] = repr((L.strip_ast(t.conditions), L.strip_ast(t.expr_columns) if not isinstance(t.expr_type, core.EntityMeta) else 'entity'))
                elif kind == 'set': setattr(objs[step[1]], step[2], step[3])
                elif kind == 'create': P(a=step[1], r=1, u='n', g=True)
                elif kind == 'delete': objs[step[1]].delete()
                elif kind == 'flush': orm.flush()
                elif kind == 'commit': orm.commit()
                elif kind == 'new_session':
                    session.__exit__(None, None, None)
                    session = enter()
                elif kind == 'raw': db.execute(RAW[step[1]])
                elif kind == 'bulk_delete': orm.select('p for p in P if p.a == x0', {'P': P, 'x0': step[1]}).delete(bulk=True)
            except Exception as ex:
                obs = {'sql': [], 'args': [], 'rows': None, 'error': 'step:' + type(ex).__name__}
                try:
                    session.__exit__(None, None, None)
                except Exception:
                    pass
                session = enter()
            out.append(obs)
    finally:
        core.Query._construct_sql_and_arguments = orig
        try: session.__exit__(None, None, None)
        except Exception: pass
        db.disconnect()
    return out


def vt_name(t):
    if isinstance(t, tuple): return '(' + ','.join(vt_name(x) for x in t) + ')'
    n = getattr(t, '__name__', None)
    if n: return n
    it = getattr(t, 'item_type', None)
    if it is not None: return 'Set(%s)' % vt_name(it)
    return type(t).__name__


def summarize(log):
    """Hit | Miss | Replaced | other, per lookup of a SpyDict."""
    ev = []
    i = 0
    while i < len(log):
        op, k, found = log[i]
        if op == 'get':
            nxt = [l[0] for l in log[i + 1:i + 3]]
            if found and nxt[:2] == ['del', 'set']: ev.append('Replaced'); i += 3; continue
            if found and nxt[:1] == ['del']: ev.append('Dropped'); i += 2; continue
            if found: ev.append('Hit'); i += 1; continue
            if nxt[:1] == ['set']: ev.append('Miss'); i += 2; continue
            ev.append('MissNoStore'); i += 1; continue
        ev.append(op); i += 1
    return ev


def is_write(step):
    return step[0] in ('set', 'create', 'delete', 'raw', 'bulk_delete')


def compare(history, warm, cold):
    """Property oracle: per query step, the warm run must agree with the cold run. -> list of (index, what differs)."""
    bad = []
    for i, (w, c) in enumerate(zip(warm, cold)):
        if w is None and c is None: continue
        if (w is None) != (c is None): bad.append((i, 'step kind')); continue
        if w['error'] != c['error']: bad.append((i, 'error: warm %r cold %r' % (w['error'], c['error']))); continue
        if w['rows'] != c['rows']: bad.append((i, 'rows')); continue
        # SQL text / arguments of the statements both runs constructed
        if w['sql'] != c['sql']: bad.append((i, 'sql text')); continue
        if w['args'] != c['args']: bad.append((i, 'arguments')); continue
    return bad


def qkey(step, obs=None):
    """Result-cache key of a query step as the code composes it: the query (text, parameter TYPES, fetch mode) and the
    ARGUMENTS actually passed to the SQL (obs = the cold-run observation of the step); parameter values that do not reach
    the SQL are not part of it."""
    if obs is None or not obs.get('args'): return json.dumps(step[1:4], sort_keys=True)      # nothing was constructed (translation error)
    types = sorted((k, _tname(v)) for k, v in step[2].items())
    return json.dumps([step[1], types, step[3], obs.get('fixed'), obs['args'][-1:] ], sort_keys=True)


def _tname(v):
    if v is None: return 'NoneType'
    if isinstance(v, bool): return 'bool'
    if isinstance(v, (list, tuple)): return '(' + ','.join(_tname(x) for x in v) + ')'
    return type(v).__name__


_flags = []

def source_flags():
    """(aggr_flushes, raw_clears) as read from the current source (the same Tie A as Gen/C05Flags.v)."""
    if not _flags:
        from py2coq import c05flags
        _flags.append(c05flags.flags())
    return _flags[0]


def explain(history, i, cold=None):
    """Which hole of the result cache (if any) makes the model of Model/C05Memo.v predict a stale answer at step i.
    Mirrors sstep with the two flags read from the source."""
    aggr_flushes, raw_clears = source_flags()
    cache, pending, version = {}, 0, 0
    for j, step in enumerate(history[:i + 1]):
        k = step[0]
        if k == 'query' and cold and cold[j] and cold[j].get('error') and not cold[j].get('sql'):
            if j == i: return None
            continue                              # a query that raises (translation error) neither flushes nor caches
        if k == 'query':
            q = qkey(step, cold[j] if cold else None)
            aggregate = step[3] == 'count' and not aggr_flushes
            if not aggregate:
                if pending: version += pending; pending = 0; cache = {}
                if j == i: return 'raw-sql-write-leaves-query-results' if (q in cache and cache[q] != version) else None
                cache.setdefault(q, version)
            else:
                if q in cache:
                    if j == i:
                        if cache[q] != version: return 'raw-sql-write-leaves-query-results'
                        if pending: return 'aggregate-result-cache-skips-flush'
                        return None
                else:
                    if pending: version += pending; pending = 0; cache = {}
                    if j == i: return None
                    cache[q] = version
        elif k in ('set', 'create', 'delete'): pending += 1
        elif k == 'flush':
            if pending: version += pending; pending = 0; cache = {}
        elif k in ('commit', 'new_session'):
            version += pending; pending = 0; cache = {}
        elif k == 'bulk_delete':
            version += pending + 1; pending = 0; cache = {}
        elif k == 'raw':
            if pending: version += pending; pending = 0; cache = {}
            version += 1
            if raw_clears: cache = {}
    return None


def classify(history, i, cold=None):
    """Finding key for a divergence at step i (cold = observations of the cold run, for the cache keys)."""
    step = history[i]
    if step[0] != 'query': return 'unlisted:non-query-step'
    k = explain(history, i, cold)
    if k: return k
    kinds = sorted({s[0] for s in history[:i]} - {'query'})
    return 'unlisted:q%d:%s:%s' % (step[1], step[3], '+'.join(kinds) or 'queries-only')


def shrink_history(history, still_fails):
    """Greedy removal of steps while the divergence persists."""
    cur = list(history)
    changed = True
    while changed and len(cur) > 1:
        changed = False
        for i in range(len(cur) - 1, -1, -1):
            cand = cur[:i] + cur[i + 1:]
            if cand and still_fails(cand):
                cur = cand; changed = True; break
    return cur
