#!/bin/bash
# tools/seed_sweep.sh <seed>... : run every claimed check's quick tier with each seed (4 at a time); print the alarms
cd "$(dirname "$0")/.."
IDS=$(python3 -c "import json; print(' '.join(c['property_id'] for c in json.load(open('MANIFEST.json'))['checks']))")
mkdir -p .scratch/sweep
for S in "$@"; do
  for ID in $IDS; do echo "$S $ID"; done
done | xargs -P 4 -L 1 bash -c 'S=$0; ID=$1; VERIF_SEED=$S ./check $ID --tier quick > .scratch/sweep/$ID.$S.log 2>&1; echo "seed=$S $ID exit=$? $(tail -1 .scratch/sweep/$ID.$S.log | cut -c1-160)"' | tee .scratch/sweep/summary.txt
echo "=== alarms ==="; grep -v "exit=0" .scratch/sweep/summary.txt
