#!/bin/bash
# tools/harvest_mutant.sh <cNNx> : copy a mutation agent's result from /tmp/mutants/<cNNx> to seeded/<CNN-x>/, confirm it, remove the worktree
set -u
N=$1; W=/tmp/mutants/$N
ID=$(echo "$N" | sed -E 's/^c([0-9]+)(.*)$/C\1-\2/')
D=/verif/seeded/$ID
[ -f "$W/patch.diff" ] && [ -f "$W/demo.py" ] || { echo "$N: no patch.diff/demo.py"; exit 2; }
mkdir -p "$D"
( cd "$W" && git diff -- pony > "$D/patch.diff" )
cp "$W/demo.py" "$D/demo.py"; cp "$W/meta.txt" "$D/agent_meta.txt" 2>/dev/null
git -C /repo worktree remove --force "$W"
/verif/tools/confirm_seeded.sh "$D" > "$D/confirm.txt" 2>&1
cat "$D/confirm.txt"
