"""C13 history generator: structured, mostly-valid session histories over the schemas of c13_impl, with a stream of
deliberately failing modifications (key conflicts, None for required attributes, unlinking required partners, deleting
objects with refusing dependents, mixed-session objects, deleted objects) and injected faults."""
import copy


def attr_lists(schema):
    out = []
    for e in schema['entities']:
        d = {'int': [], 'ref': [], 'set': []}
        for j, a in enumerate(e['attrs']):
            if a['kind'] in d: d[a['kind']].append(j)
        out.append(d)
    return out


class Gen(object):
    def __init__(self, schema, rng, maxobj=7, vals=(0, 1, 2)):      # at most 7 successful creations + one failing constructor = 8 hashed objects
        self.s = schema
        self.rng = rng
        self.al = attr_lists(schema)
        self.objs = []          # entity index per handle
        self.dead = set()       # handles the generator believes deleted (approximation only)
        self.pks = {}           # ent -> next pk
        self.maxobj = maxobj
        self.vals = list(vals)
        self.has_foreign = set()
        self.hub_bias = 0.6

    def by_ent(self, e, alive=True):
        return [h for h, x in enumerate(self.objs) if x == e and (not alive or h not in self.dead)]

    def some(self, e):
        hs = self.by_ent(e)
        return self.rng.choice(hs) if hs else None

    def int_arg(self, a, allow_none=True):
        r = self.rng.random()
        if allow_none and r < 0.15: return ['n']
        return ['i', self.rng.choice(self.vals)]

    def ref_arg(self, a, foreign_ok=True, me=None):
        r = self.rng.random()
        if r < 0.12: return ['n']
        if foreign_ok and r < 0.16 and a['target'] in self.has_foreign: return ['f']
        hs = [h for h in self.by_ent(a['target'], alive=self.rng.random() < 0.93) if h != me]      # no self-links
        if not hs: return ['n']
        if self.rng.random() < self.hub_bias: return ['o', hs[0]]        # concentrate dependents on the first object of the target entity
        return ['o', self.rng.choice(hs)]

    def set_arg(self, a, k=None, me=None):
        hs = [h for h in self.by_ent(a['target'], alive=self.rng.random() < 0.95) if h != me]
        self.rng.shuffle(hs)
        n = self.rng.randint(0, min(3, len(hs))) if k is None else min(k, len(hs))
        return sorted(hs[:n])

    def new_op(self, e=None):
        if e is None: e = self.rng.randrange(len(self.s['entities']))
        ent = self.s['entities'][e]
        pairs = []
        for j, a in enumerate(ent['attrs']):
            k = a['kind']
            if k == 'pk': continue
            if k == 'int':
                if a.get('required'):
                    if self.rng.random() < 0.93: pairs.append([j, self.int_arg(a, allow_none=self.rng.random() < 0.1)])
                elif self.rng.random() < 0.55: pairs.append([j, self.int_arg(a)])
            elif k == 'ref':
                if a.get('required'):
                    if self.rng.random() < 0.95: pairs.append([j, self.ref_arg(a)])
                elif self.rng.random() < 0.45: pairs.append([j, self.ref_arg(a)])
            elif k == 'set':
                if self.rng.random() < 0.3: pairs.append([j, ['os', self.set_arg(a)]])
        nxt = self.pks.get(e, 1)
        if self.rng.random() < 0.08 and nxt > 1: pk = self.rng.randrange(1, nxt)      # duplicate primary key
        else:
            pk = nxt; self.pks[e] = nxt + 1
        return ['new', e, pk, pairs]

    def mod_op(self):
        r = self.rng.random()
        live = [h for h in range(len(self.objs))]
        if not live: return self.new_op()
        h = self.rng.choice(live)
        e = self.objs[h]; al = self.al[e]; attrs = self.s['entities'][e]['attrs']
        if r < 0.18 and (al['int'] or al['ref']):
            j = self.rng.choice(al['int'] + al['ref'])
            a = attrs[j]
            return ['set', h, j, self.int_arg(a) if a['kind'] == 'int' else self.ref_arg(a, me=h)]
        if r < 0.46 and (al['int'] or al['ref'] or al['set']):
            cand = al['int'] + al['ref'] + (al['set'] if self.rng.random() < 0.3 or not (al['int'] or al['ref']) else [])
            self.rng.shuffle(cand)
            n = self.rng.randint(1, min(4, len(cand)))
            pairs = []
            for j in cand[:n]:
                a = attrs[j]
                pairs.append([j, self.int_arg(a) if a['kind'] == 'int' else self.ref_arg(a, me=h) if a['kind'] == 'ref' else ['os', self.set_arg(a, me=h)]])
            return ['setm', h, pairs]
        if r < 0.72:
            return ['del', h if self.rng.random() < 0.5 else self.rng.choice(live[:max(1, len(live) // 3)])]
        if al['set']:
            j = self.rng.choice(al['set']); a = attrs[j]
            r2 = self.rng.random()
            if r2 < 0.4: return ['add', h, j, self.set_arg(a, self.rng.randint(1, 2), me=h)]
            if r2 < 0.7: return ['rem', h, j, self.set_arg(a, self.rng.randint(1, 2), me=h)]
            return ['set', h, j, ['os', self.set_arg(a, me=h)]]
        return ['del', h]

    def wrap_fault(self, op):
        r = self.rng.random()
        if op[0] in ('commit', 'fault'): return op
        if r < 0.12: return ['fault', 'idx', self.rng.randint(1, 4), op]
        if r < 0.2: return ['fault', 'radd', self.rng.randint(1, 3), op]
        return op

    def note(self, op, ok):
        if op[0] == 'fault': op = op[3]
        if ok and op[0] == 'new': self.objs.append(op[1])
        if ok and op[0] == 'del': self.dead.add(op[1])


def random_history(schema, rng, length, runner, faults=True, foreign=()):
    """Generate ops one at a time; runner.step(op) -> bool ok executes it (so the generator tracks which creations succeeded);
    generation stops when runner.dead becomes true (a failed commit ends the session).
    Phase 1 populates: one object per entity in entity order (dependents point at the objects made before them), sometimes a
    second round, sometimes a commit.  Phase 2 mixes modifications (many of them doomed), creations, commits and injected faults."""
    run_op = runner.step
    g = Gen(schema, rng)
    g.has_foreign = set(foreign)
    ops = []
    def do(op):
        ok = run_op(op)
        g.note(op, ok)
        ops.append(op)
        return not runner.dead
    if rng.random() < 0.75:
        rounds = 1 if rng.random() < 0.6 else 2
        for rnd in range(rounds):
            for e in range(len(schema['entities'])):
                if len(ops) >= length - 2 or len(g.objs) >= g.maxobj: break
                if rng.random() < (0.9 if rnd == 0 else 0.5):
                    if not do(g.new_op(e)): return ops
        if rng.random() < 0.5 and len(ops) < length - 1:
            if not do(['commit']): return ops
    while len(ops) < length:
        r = rng.random()
        if len(g.objs) < min(3, g.maxobj) or (r < 0.18 and len(g.objs) < g.maxobj): op = g.new_op()
        elif r < 0.24: op = ['commit']
        else: op = g.mod_op()
        if faults: op = g.wrap_fault(op)
        if not do(op): break
    return ops


def foreign_recipe(schema):
    """'new' ops creating, in a separate session, one object of every entity that can be created without required references
    (plus dependents whose required reference is one of those)."""
    recipe, made = [], {}
    for rnd in range(2):
        for e, ent in enumerate(schema['entities']):
            if e in made: continue
            pairs, ok = [], True
            for j, a in enumerate(ent['attrs']):
                if a['kind'] == 'int' and a.get('required'): pairs.append([j, ['i', 90 + e]])
                if a['kind'] == 'ref' and a.get('required'):
                    if a['target'] in made: pairs.append([j, ['o', made[a['target']]]])
                    else: ok = False
            if ok:
                made[e] = len(recipe)
                recipe.append(['new', e, 900 + e, pairs])
    return recipe, sorted(made)
