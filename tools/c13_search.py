"""C13 search helpers: the property oracle on real Pony (snapshot before a raising call == snapshot after), classification of a
violation into a finding key, delta-debugging of histories (with handle renumbering)."""
import copy, json
import c13_impl as I


def opkind(op):
    return op[0] if op[0] != 'fault' else 'fault-%s:%s' % (op[1], op[3][0])


def key_of(v):
    """Finding key: op kind / error class / which parts of the session differ."""
    return '%s/%s/%s' % (opkind(v['op']), v['err'], '+'.join(v['diff']))


def first_violation(schema, ops, foreign=None):
    """Run ops on real Pony until the first raising op that changes the snapshot.  Returns (violation|None, results)."""
    r = I.Runner(schema, foreign=foreign)
    try:
        for op in ops:
            r.step(op)
            if r.viol or r.dead: break
    finally:
        out = r.close()
    return (out['violations'][0] if out['violations'] else None), out['results']


def _refs(op):
    """handles mentioned by op (for renumbering)."""
    if op[0] == 'fault': return _refs(op[3])
    hs = []
    def arg(a):
        if a[0] == 'o': hs.append(a[1])
        if a[0] == 'os': hs.extend(a[1])
    if op[0] == 'new':
        for j, a in op[3]: arg(a)
    elif op[0] == 'set': hs.append(op[1]); arg(op[3])
    elif op[0] == 'setm':
        hs.append(op[1])
        for j, a in op[2]: arg(a)
    elif op[0] == 'del': hs.append(op[1])
    elif op[0] in ('add', 'rem'): hs.append(op[1]); hs.extend(op[3])
    return hs


def _renum(op, f):
    """apply handle map f (returns None when a handle disappears) to op; None if op mentions a removed handle."""
    op = copy.deepcopy(op)
    ok = [True]
    def m(h):
        x = f(h)
        if x is None: ok[0] = False; return h
        return x
    def arg(a):
        if a[0] == 'o': a[1] = m(a[1])
        if a[0] == 'os': a[1] = [m(h) for h in a[1]]
    inner = op[3] if op[0] == 'fault' else op
    if inner[0] == 'new':
        for j, a in inner[3]: arg(a)
    elif inner[0] == 'set': inner[1] = m(inner[1]); arg(inner[3])
    elif inner[0] == 'setm':
        inner[1] = m(inner[1])
        for j, a in inner[2]: arg(a)
    elif inner[0] == 'del': inner[1] = m(inner[1])
    elif inner[0] in ('add', 'rem'): inner[1] = m(inner[1]); inner[3] = [m(h) for h in inner[3]]
    return op if ok[0] else None


def remove_op(ops, results, i):
    """ops without op i; if op i created a handle, later ops that mention it are dropped and higher handles shift down."""
    created = None
    if (ops[i][0] == 'new' or (ops[i][0] == 'fault' and ops[i][3][0] == 'new')) and results[i][0] == 'ok':
        created = sum(1 for k in range(i) if (ops[k][0] == 'new' or (ops[k][0] == 'fault' and ops[k][3][0] == 'new')) and results[k][0] == 'ok')
    out = []
    for k, op in enumerate(ops):
        if k == i: continue
        if created is not None and k > i:
            op = _renum(op, lambda h: None if h == created else (h - 1 if h > created else h))
            if op is None: continue
        out.append(op)
    return out


def shrink(schema, ops, key, foreign=None, budget=400):
    """Delta debugging: the shortest history (found greedily) whose first violation still has this key.  Also simplifies the failing op."""
    v, results = first_violation(schema, ops, foreign)
    assert v is not None and key_of(v) == key, (v, key)
    ops = ops[:v['step'] + 1]; results = results[:v['step'] + 1]
    runs = 0
    changed = True
    while changed and runs < budget:
        changed = False
        for i in range(len(ops) - 2, -1, -1):
            cand = remove_op(ops, results, i)
            runs += 1
            v2, res2 = first_violation(schema, cand, foreign)
            if v2 is not None and key_of(v2) == key and v2['step'] == len(cand) - 1:
                ops, results = cand, res2[:len(cand)]
                changed = True
                break
        if not changed:
            # simplify arguments: drop kwargs of 'new' / 'setm' ops one at a time
            for i in range(len(ops)):
                op = ops[i]; inner = op[3] if op[0] == 'fault' else op
                pairs = inner[3] if inner[0] == 'new' else inner[2] if inner[0] == 'setm' else None
                if not pairs: continue
                for p in range(len(pairs)):
                    c2 = copy.deepcopy(ops)
                    inner2 = c2[i][3] if c2[i][0] == 'fault' else c2[i]
                    (inner2[3] if inner2[0] == 'new' else inner2[2]).pop(p)
                    runs += 1
                    v2, res2 = first_violation(schema, c2, foreign)
                    if v2 is not None and key_of(v2) == key and v2['step'] == len(c2) - 1:
                        ops, results = c2, res2[:len(c2)]
                        changed = True
                        break
                if changed: break
    return ops
