"""C01/C02 - an aggregate as the whole result of a query over one entity, without GROUP BY (coq/Model/C01Aggr.v):

    ('count_rows',)                 count()
    ('count_obj',)                  count(p)
    ('agg', f, distinct, e)         f in count / sum / min / max / avg;  count(e) | sum(e) | sum(distinct(e)) | min(e) | ...

select(<aggregate> for p in P [if <filt>]) over the single entity of c01_lib; e and filt are scalar expressions of c01_lib."""
from fractions import Fraction
import vlib, c01_lib as L
from vlib import Failure

FN = {'count': 'FCount', 'sum': 'FSum', 'min': 'FMin', 'max': 'FMax', 'avg': 'FAvg'}
AST_FN = {'COUNT': 'FCount', 'SUM': 'FSum', 'MIN': 'FMin', 'MAX': 'FMax', 'AVG': 'FAvg'}
AGGR_HEADER = ('Require Import PonyV.Base.PyBase PonyV.Model.C01Expr PonyV.Model.C01Sql PonyV.Model.C01Translate PonyV.Model.C01Eqb '
               'PonyV.Model.C01Safe PonyV.Model.C01Query PonyV.Model.C01Aggr.\nOpen Scope Z_scope.\n')


def agg_src(g):
    if g[0] == 'count_rows': return 'count()'
    if g[0] == 'count_obj': return 'count(p)'
    f, dist, e = g[1:]
    s = L.src(e)
    if dist and f != 'count': s = 'distinct(%s)' % s
    return '%s(%s)' % (f, s)


def qsrc(g, filt):
    return 'select(%s for p in P%s)' % (agg_src(g), '' if filt is None else ' if ' + L.src(filt))


def agg_coq(g):
    if g[0] == 'count_rows': return 'GCountRows'
    if g[0] == 'count_obj': return 'GCountObj'
    f, dist, e = g[1:]
    return '(GAgg %s %s %s)' % (FN[f], 'true' if dist else 'false', L.coq(e))


def to_json(g):
    return list(g[:3]) + [L.to_json(g[3])] if g[0] == 'agg' else list(g)


def from_json(j):
    return ('agg', j[1], bool(j[2]), L.from_json(j[3])) if j[0] == 'agg' else (j[0],)


def query_globals(P, params):
    from pony import orm
    g = L.query_globals(P, params)
    g.update({'count': orm.count, 'avg': orm.avg, 'distinct': orm.distinct})
    return g


def qaggr_term(col):
    """Pony's aggregate column AST -> Coq term of type qaggr."""
    t = col[0]
    if t == 'COUNT' and len(col) == 2 and col[1] is None: return 'QCountAll'
    if t in AST_FN and len(col) == 3 and col[1] in (True, False):
        return '(QAgg %s %s %s)' % (AST_FN[t], 'true' if col[1] else 'false', L.qx(col[2]))
    raise L.Unmodelled('aggregate column %r' % (L.strip_ast(col),))


def translate(provider, g, filt, params):
    from pony import orm
    db, P = L.get_db(provider)
    with orm.db_session:
        q = orm.select(qsrc(g, filt)[len('select('):-1], query_globals(P, params))
        t = q._translator
        if len(t.expr_columns) != 1 or t.groupby_monads or t.having_conditions or not t.aggregated or t.sqlquery.from_ast[0] != 'FROM' or len(t.sqlquery.from_ast) != 2:
            raise L.Unmodelled('not a single aggregate over one table')
        conds = '[%s]' % '; '.join(L.qx(c) for c in t.conditions)
        return qaggr_term(t.expr_columns[0]), conds, q.get_sql(), L.strip_ast([t.conditions, t.expr_columns])


def run(real, g, filt, params, raw=False):
    orm = real.orm
    with orm.db_session:
        q = orm.select(qsrc(g, filt)[len('select('):-1], query_globals(real.P, params))
        if raw:
            sql, arguments, _, _ = q._construct_sql_and_arguments()
            rows = [tuple(r) for r in real.db._exec_sql(sql, arguments).fetchall()]
            assert len(rows) == 1 and len(rows[0]) == 1, rows
            return rows[0][0], sql
        rows = list(q)
        assert len(rows) == 1, rows
        return rows[0]


# ---------------------------------------------------------------------------------------------- reference

class Skip(Exception):
    pass


def reference(g, filt, params, rows):
    """Pony's documented aggregate semantics over the Python comprehension: None skipped, sum([]) = 0, min / max / avg of nothing None,
    count(e) = number of different non-None values. avg is returned as a Fraction."""
    kept = []
    for row in rows:
        try:
            if filt is not None and 'zero-division' in L.hazards(filt, row, params): raise Skip()
            if filt is None or L.keeps(filt, row, params, False): kept.append(row)
        except L.RefError:
            raise Skip()
    if g[0] in ('count_rows', 'count_obj'): return len(kept)
    f, dist, e = g[1:]
    vals = []
    for row in kept:
        try:
            if 'zero-division' in L.hazards(e, row, params): raise Skip()
            v = L.ref(e, row, params, False)
        except L.RefError:
            raise Skip()
        if v is not None: vals.append(v)
    if dist:
        seen = []
        for v in vals:
            if not any(v == w and type(v) is type(w) for w in seen): seen.append(v)
        vals = seen
    if f == 'count': return len(vals)
    if f == 'sum': return sum(int(v) for v in vals)
    if not vals: return None
    if f == 'avg': return Fraction(sum(int(v) for v in vals), len(vals))
    return min(vals) if f == 'min' else max(vals)


def same(got, want):
    if isinstance(want, Fraction):
        return got is not None and not isinstance(got, (str, bool)) and Fraction(got).limit_denominator(10 ** 6) == want
    if isinstance(want, bool): return got is want
    if want is None: return got is None
    return got == want and type(got) is type(want)


def coq_result(v):
    """raw SQLite value -> (Coq qv term, is_avg_float)."""
    import c01_harness as H
    if isinstance(v, float) and v != int(v):
        fr = Fraction(v).limit_denominator(10 ** 6)
        return fr
    return H.coq_qv(v)


QV_SAME = ('(fun (a b : qv) => match a, b with FracV n c, FracV n1 c1 => (n * c1 =? n1 * c) && negb (c =? 0) && negb (c1 =? 0) '
           '| FracV n c, IntV z => (n =? z * c) && negb (c =? 0) | _, _ => qv_eqb a b end)')


# ---------------------------------------------------------------------------------------------- generation

AGG_TYPES = {'count': ('int', 'str'), 'sum': ('int', 'int', 'bool'), 'avg': ('int', 'int', 'bool'), 'min': ('int', 'str'), 'max': ('int', 'str')}

HANDMADE = [
    (('count_rows',), None), (('count_obj',), ('cmp', '>', ('attr', 'b'), ('int', 0))),
    (('agg', 'sum', False, ('attr', 'a')), ('cmp', '>', ('attr', 'a'), ('int', 100))),          # no rows: sum = 0
    (('agg', 'min', False, ('attr', 'a')), ('cmp', '>', ('attr', 'a'), ('int', 100))),          # no rows: None
    (('agg', 'avg', False, ('attr', 'a')), ('cmp', '>', ('attr', 'a'), ('int', 100))),
    (('agg', 'sum', False, ('attr', 'a')), None), (('agg', 'sum', True, ('attr', 'a')), None), (('agg', 'avg', False, ('attr', 'a')), None),
    (('agg', 'avg', True, ('attr', 'b')), None), (('agg', 'count', True, ('attr', 'a')), None), (('agg', 'count', True, ('attr', 's')), None),
    (('agg', 'min', False, ('attr', 's')), None), (('agg', 'max', False, ('attr', 'u')), ('attr', 'f')),
    (('agg', 'sum', False, ('attr', 'f')), None), (('agg', 'sum', False, ('arith', '+', ('attr', 'a'), ('attr', 'g'))), None),
    (('agg', 'max', False, ('minmax', False, (('attr', 'a'), ('attr', 'b')))), None),
    (('agg', 'sum', False, ('attr', 'a')), ('cmp', 'is', ('attr', 'a'), ('none',))),              # only None values: sum = 0
]


def gen_queries(ctx, n, search=False):
    rng = ctx.rng
    g = L.Gen(rng)
    out = [(a, f, {}) for a, f in HANDMADE]
    while len(out) < n + len(HANDMADE):
        g.reset()
        r = rng.random()
        if r < 0.08: agg = ('count_rows',)
        elif r < 0.16: agg = ('count_obj',)
        else:
            f = rng.choice(('count', 'sum', 'sum', 'min', 'max', 'avg'))
            # count(<bool>) counts the rows where it is true (another meaning, not modelled); min / max of booleans: search only
            types = AGG_TYPES[f] + (('bool',) if search and f in ('min', 'max') and rng.random() < 0.2 else ())
            t = rng.choice(types)
            e = g.value(t, rng.choice((1, 1, 2, 3)), True)
            dist = True if f == 'count' else (rng.random() < 0.3 if f in ('sum', 'avg') else False)
            agg = ('agg', f, dist, e)
        filt = g.filter_expr(rng.choice((2, 3))) if rng.random() < 0.7 else None
        out.append((agg, filt, dict(g.params)))
    return out


# ---------------------------------------------------------------------------------------------- ties and search

def env_list(real, params):
    return '[%s]' % '; '.join('mkenv %s PARAMS' % real.names[i] for i in sorted(real.rows))


def aggr_cases(ctx, queries, real):
    """Structural tie of the aggregate column and the conditions on four providers; the value real SQLite returns for the statement vs
    sql_aggr of the model over the same table."""
    exprs, meta, dis, nontriv = [], [], [], set()
    dist = {'aggregate_columns': 0, 'sqlite_values': 0, 'translator_raises': 0, 'by_function': {}}
    for g, filt, params in queries:
        k = g[1] if g[0] == 'agg' else g[0]
        dist['by_function'][k] = dist['by_function'].get(k, 0) + 1
        for prov in ('sqlite', 'postgres', 'mysql', 'oracle'):
            if prov == 'oracle' and any(v == '' for v in params.values()): continue
            inp = {'provider': prov, 'query': qsrc(g, filt), 'params': params}
            try:
                qa, conds, sql, dump = translate(prov, g, filt, params)
            except L.Unmodelled as ex:
                dis.append({'what': 'aggregate query outside the modelled shapes: %s' % ex, 'input': inp}); continue
            except Exception as ex:
                dist['translator_raises'] += 1
                dis.append({'what': 'the real translator raised on a typed aggregate query', 'input': inp, 'impl': '%s: %s' % (type(ex).__name__, str(ex)[:200])}); continue
            d = L.DN[prov]
            m = dict(inp, impl=dump)
            exprs.append('oqaggr_eqb (tr_aggr %s 0%%nat %s) %s && oqxs_eqb %s (Some %s)' % (
                d, agg_coq(g), qa, '(tr_filter %s %s)' % (d, L.coq(filt)) if filt is not None else '(Some [])', conds))
            meta.append(dict(m, mode='aggregate-column')); dist['aggregate_columns'] += 1
            nontriv.add((prov, qsrc(g, filt)))
            if prov == 'sqlite':
                try:
                    val, sql = run(real, g, filt, params, raw=True)
                except Exception as ex:
                    dis.append({'what': 'real SQLite raised on an aggregate query', 'input': inp, 'impl': '%s: %s' % (type(ex).__name__, ex)}); continue
                r = coq_result(val)
                got = '(FracV %s %s)' % (vlib.cz(r.numerator), vlib.cz(r.denominator)) if isinstance(r, Fraction) else r
                exprs.append('(let PARAMS := %s in %s (sql_aggr DSqlite %s %s %s) %s)' % (L._coq_fn(list(params.items())), QV_SAME, qa, conds, env_list(real, params), got))
                meta.append(dict(m, mode='aggregate-value', impl=val, sql=sql)); dist['sqlite_values'] += 1
    return exprs, meta, dis, nontriv, dist


def classify(g, filt, params, rows):
    import c01_harness as H
    for e, mode in ((filt, 'filter'), (g[3] if g[0] == 'agg' else None, 'project')):
        if e is None: continue
        for row in rows:
            key = H.classify(e, row, params, mode)
            try:
                differs = (L.keeps(e, row, params, False) != L.keeps(e, row, params, True)) if mode == 'filter' else (L.ref(e, row, params, False) != L.ref(e, row, params, True))
            except L.RefError:
                differs = False
            if differs or not key.startswith('unlisted'): return key
    return 'unlisted:aggregate:%s' % (g[1] if g[0] == 'agg' else g[0])


def check_query(real, g, filt, params):
    rows = [real.rows[i] for i in sorted(real.rows)]
    try:
        want = reference(g, filt, params, rows)
    except Skip:
        return None
    got = run(real, g, filt, params)
    if same(got, want): return None
    return got, want


def aggr_failure(g, filt, params, rows, got, want):
    key = classify(g, filt, params, rows)
    what = '%s with %s over %d rows: Pony gives %r, the documented aggregate over the comprehension gives %r' % (
        qsrc(g, filt), {('x%d' % i): v for i, v in sorted(params.items())}, len(rows), got, str(want) if isinstance(want, Fraction) else want)
    return Failure(key, what, {'aggr': {'agg': to_json(g), 'filt': L.to_json(filt) if filt is not None else None,
                                        'params': {str(i): v for i, v in params.items()}, 'rows': [{k: v for k, v in r.items() if k != 'id'} for r in rows]}})


def shrink_rows(real_factory, g, filt, params, rows, key):
    """Greedy: drop rows while the failure (same key) persists."""
    cur = list(rows)
    i = 0
    while i < len(cur) and len(cur) > 1:
        cand = cur[:i] + cur[i + 1:]
        real = real_factory(cand)
        try:
            r = check_query(real, g, filt, params)
        except Exception:
            r = None
        if r is not None and classify(g, filt, params, cand) == key: cur = cand
        else: i += 1
    return cur


def aggr_search(ctx, queries, real, real_factory, max_per_key=1):
    failures, seen, evals, nontriv = [], {}, 0, set()
    dist = {'queries': 0, 'pony_raises': {}, 'failing_queries_by_key': seen}
    rows = [real.rows[i] for i in sorted(real.rows)]
    for g, filt, params in queries:
        dist['queries'] += 1
        try:
            r = check_query(real, g, filt, params)
        except Exception as ex:
            n = type(ex).__name__; dist['pony_raises'][n] = dist['pony_raises'].get(n, 0) + 1; continue
        evals += 1
        if r is None:
            nontriv.add(qsrc(g, filt)); continue
        key = classify(g, filt, params, rows)
        seen[key] = seen.get(key, 0) + 1
        if seen[key] <= max_per_key:
            small = shrink_rows(real_factory, g, filt, params, rows, key)
            rr = check_query(real_factory(small), g, filt, params) or r
            failures.append(aggr_failure(g, filt, params, small, rr[0], rr[1]))
    return evals, failures, nontriv, dist


def replay_aggr(d, real_factory):
    g = from_json(d['agg'])
    filt = L.from_json(d['filt']) if d['filt'] is not None else None
    params = {int(k): v for k, v in d['params'].items()}
    real = real_factory(d['rows'])
    try:
        r = check_query(real, g, filt, params)
    except Exception:
        return None
    if r is None: return None
    return aggr_failure(g, filt, params, [real.rows[i] for i in sorted(real.rows)], r[0], r[1])


# ---------------------------------------------------------------------------------------------- GROUP BY / several aggregates (coq/Model/C01Group.v)
# items: list of ('key', e) | <aggregate tuple as above>; select((i1, ..., in) for p in P [if filt])

GROUP_HEADER = AGGR_HEADER.replace('PonyV.Model.C01Aggr.', 'PonyV.Model.C01Aggr PonyV.Model.C01Group.')


def item_src(it):
    return L.src(it[1]) if it[0] == 'key' else agg_src(it)


def gqsrc(items, filt):
    return 'select((%s) for p in P%s)' % (', '.join(item_src(it) for it in items), '' if filt is None else ' if ' + L.src(filt))


def items_coq(items):
    return '[%s]' % '; '.join('(SKey %s)' % L.coq(it[1]) if it[0] == 'key' else '(SAgg %s)' % agg_coq(it) for it in items)


def items_json(items):
    return [['key', L.to_json(it[1])] if it[0] == 'key' else to_json(it) for it in items]


def items_from_json(js):
    return [('key', L.from_json(j[1])) if j[0] == 'key' else from_json(j) for j in js]


def qitem_term(col):
    try: return '(QAggr %s)' % qaggr_term(col)
    except L.Unmodelled: return '(QKey %s)' % L.qx(col)


def gtranslate(provider, items, filt, params):
    from pony import orm
    db, P = L.get_db(provider)
    with orm.db_session:
        q = orm.select(gqsrc(items, filt)[len('select('):-1], query_globals(P, params))
        t = q._translator
        if t.having_conditions or not t.aggregated or t.sqlquery.from_ast[0] != 'FROM' or len(t.sqlquery.from_ast) != 2 or len(t.expr_columns) != len(items):
            raise L.Unmodelled('not a grouped query over one table')
        cols = '[%s]' % '; '.join(qitem_term(c) for c in t.expr_columns)
        gb = '[%s]' % '; '.join(L.qx(c) for m in (t.groupby_monads or []) for c in m.getsql())
        conds = '[%s]' % '; '.join(L.qx(c) for c in t.conditions)
        return cols, gb, conds, q.get_sql(), L.strip_ast([t.conditions, t.expr_columns, [m.getsql() for m in (t.groupby_monads or [])]])


def grun(real, items, filt, params, raw=False):
    orm = real.orm
    with orm.db_session:
        q = orm.select(gqsrc(items, filt)[len('select('):-1], query_globals(real.P, params))
        if raw:
            sql, arguments, _, _ = q._construct_sql_and_arguments()
            return [tuple(r) for r in real.db._exec_sql(sql, arguments).fetchall()], sql
        return [tuple(r) for r in q]


def greference(items, filt, params, rows):
    """Rows grouped by the values of the key items (order of first appearance); aggregates per group."""
    kept = []
    for row in rows:
        try:
            if filt is not None and 'zero-division' in L.hazards(filt, row, params): raise Skip()
            if filt is None or L.keeps(filt, row, params, False): kept.append(row)
        except L.RefError:
            raise Skip()
    keys = [it[1] for it in items if it[0] == 'key']
    def keyval(row):
        out = []
        for e in keys:
            try:
                if 'zero-division' in L.hazards(e, row, params): raise Skip()
                v = L.ref(e, row, params, False)
            except L.RefError:
                raise Skip()
            out.append((type(v).__name__, v))
        return tuple(out)
    if keys:
        groups, order = {}, []
        for row in kept:
            k = keyval(row)
            if k not in groups: groups[k] = []; order.append(k)
            groups[k].append(row)
        glist = [(k, groups[k]) for k in order]
    else:
        glist = [((), kept)]
    out = []
    for k, grp in glist:
        vals, ki = [], 0
        for it in items:
            if it[0] == 'key': vals.append(k[ki][1]); ki += 1
            else: vals.append(reference(it, None, params, grp))
        out.append(tuple(vals))
    return out


def same_rows(got, want):
    if len(got) != len(want): return False
    rest = list(got)
    for w in want:
        for i, g in enumerate(rest):
            if len(g) == len(w) and all(same(a, b) for a, b in zip(g, w)):
                del rest[i]; break
        else:
            return False
    return True


ROWS_SAME = ('(fun (a b : list (list qv)) => let cell := %s in let row := (fix eq (x y : list qv) := match x, y with [], [] => true | u :: x1, v :: y1 => cell u v && eq x1 y1 | _, _ => false end) in '
             'Nat.eqb (length a) (length b) && forallb (fun r => existsb (row r) b) a && forallb (fun r => existsb (fun s => row s r) a) b)' % QV_SAME)


def gen_group_queries(ctx, n):
    rng = ctx.rng
    g = L.Gen(rng)
    hand = [
        ([('key', ('attr', 'g')), ('count_obj',)], None), ([('count_obj',), ('agg', 'sum', False, ('attr', 'a'))], None),
        ([('key', ('attr', 'r')), ('agg', 'sum', False, ('attr', 'a')), ('agg', 'max', False, ('attr', 'b'))], ('cmp', '>', ('attr', 'b'), ('int', 0))),
        ([('key', ('arith', '+', ('attr', 'r'), ('int', 1))), ('key', ('attr', 's')), ('count_rows',)], None),
        ([('agg', 'sum', False, ('attr', 'a')), ('key', ('attr', 'r'))], None),
        ([('key', ('attr', 'a')), ('agg', 'count', True, ('attr', 's')), ('agg', 'avg', False, ('attr', 'b'))], None),       # NULL keys form one group
        ([('agg', 'min', False, ('attr', 's')), ('agg', 'max', False, ('attr', 's'))], ('cmp', '>', ('attr', 'a'), ('int', 100))),   # no rows, no keys: one row
        ([('key', ('attr', 'f')), ('agg', 'sum', False, ('attr', 'r'))], ('cmp', '>', ('attr', 'a'), ('int', 100))),                 # no rows, keys: no row
    ]
    out = [(i, f, {}) for i, f in hand]
    while len(out) < n + len(hand):
        g.reset()
        items = []
        for _ in range(rng.choice((0, 1, 1, 2))):
            items.append(('key', g.value(rng.choice(L.VT), rng.choice((1, 1, 2)), True)))
        for _ in range(rng.choice((1, 1, 2))):
            r = rng.random()
            if r < 0.15: items.append(('count_rows',))
            elif r < 0.3: items.append(('count_obj',))
            else:
                f = rng.choice(('count', 'sum', 'sum', 'min', 'max', 'avg'))
                t = rng.choice(AGG_TYPES[f])
                items.append(('agg', f, True if f == 'count' else (rng.random() < 0.25 if f in ('sum', 'avg') else False), g.value(t, rng.choice((1, 1, 2)), True)))
        if len(items) < 2: continue
        rng.shuffle(items)
        filt = g.filter_expr(rng.choice((2, 3))) if rng.random() < 0.6 else None
        out.append((items, filt, dict(g.params)))
    return out


def group_cases(ctx, queries, real):
    exprs, meta, dis, nontriv = [], [], [], set()
    dist = {'select_lists': 0, 'sqlite_result_lists': 0, 'translator_raises': 0}
    for items, filt, params in queries:
        for prov in ('sqlite', 'postgres', 'mysql', 'oracle'):
            if prov == 'oracle' and any(v == '' for v in params.values()): continue
            inp = {'provider': prov, 'query': gqsrc(items, filt), 'params': params}
            try:
                cols, gb, conds, sql, dump = gtranslate(prov, items, filt, params)
            except L.Unmodelled as ex:
                dis.append({'what': 'grouped query outside the modelled shapes: %s' % ex, 'input': inp}); continue
            except Exception as ex:
                dist['translator_raises'] += 1
                dis.append({'what': 'the real translator raised on a typed grouped query', 'input': inp, 'impl': '%s: %s' % (type(ex).__name__, str(ex)[:200])}); continue
            d = L.DN[prov]
            m = dict(inp, impl=dump)
            exprs.append('oqitems_eqb (tr_items %s %s) %s && oqxs_eqb (option_map qkeys (tr_items %s %s)) (Some %s) && oqxs_eqb %s (Some %s)' % (
                d, items_coq(items), cols, d, items_coq(items), gb, '(tr_filter %s %s)' % (d, L.coq(filt)) if filt is not None else '(Some [])', conds))
            meta.append(dict(m, mode='group-select-list')); dist['select_lists'] += 1
            nontriv.add((prov, gqsrc(items, filt)))
            if prov == 'sqlite':
                try:
                    rows, sql = grun(real, items, filt, params, raw=True)
                except Exception as ex:
                    dis.append({'what': 'real SQLite raised on a grouped query', 'input': inp, 'impl': '%s: %s' % (type(ex).__name__, ex)}); continue
                def cell(v):
                    r = coq_result(v)
                    return '(FracV %s %s)' % (vlib.cz(r.numerator), vlib.cz(r.denominator)) if isinstance(r, Fraction) else r
                got = '[%s]' % '; '.join('[%s]' % '; '.join(cell(v) for v in r) for r in rows)
                exprs.append('(let PARAMS := %s in %s (sql_group_rows DSqlite %s %s %s) %s)' % (L._coq_fn(list(params.items())), ROWS_SAME, cols, conds, env_list(real, params), got))
                meta.append(dict(m, mode='group-rows', impl=rows, sql=sql)); dist['sqlite_result_lists'] += 1
    return exprs, meta, dis, nontriv, dist


def gclassify(items, filt, params, rows):
    for it in items:
        k = classify(it if it[0] != 'key' else ('agg', 'min', False, it[1]), filt, params, rows)
        if not k.startswith('unlisted'): return k
    return 'unlisted:aggregate:group'


def check_group_query(real, items, filt, params):
    rows = [real.rows[i] for i in sorted(real.rows)]
    try:
        want = greference(items, filt, params, rows)
    except Skip:
        return None
    got = grun(real, items, filt, params)
    if same_rows(got, want): return None
    return got, want


def group_failure(items, filt, params, rows, got, want):
    key = gclassify(items, filt, params, rows)
    what = '%s with %s over %d rows: Pony gives %r, grouping the comprehension gives %r' % (
        gqsrc(items, filt), {('x%d' % i): v for i, v in sorted(params.items())}, len(rows), got[:6], [tuple(str(c) if isinstance(c, Fraction) else c for c in r) for r in want[:6]])
    return Failure(key, what, {'group': {'items': items_json(items), 'filt': L.to_json(filt) if filt is not None else None,
                                         'params': {str(i): v for i, v in params.items()}, 'rows': [{k: v for k, v in r.items() if k != 'id'} for r in rows]}})


def group_search(ctx, queries, real, real_factory, max_per_key=1):
    failures, seen, evals, nontriv = [], {}, 0, set()
    dist = {'queries': 0, 'pony_raises': {}, 'failing_queries_by_key': seen}
    rows = [real.rows[i] for i in sorted(real.rows)]
    for items, filt, params in queries:
        dist['queries'] += 1
        try:
            r = check_group_query(real, items, filt, params)
        except Exception as ex:
            n = type(ex).__name__; dist['pony_raises'][n] = dist['pony_raises'].get(n, 0) + 1; continue
        evals += 1
        if r is None:
            nontriv.add(gqsrc(items, filt)); continue
        key = gclassify(items, filt, params, rows)
        seen[key] = seen.get(key, 0) + 1
        if seen[key] <= max_per_key:
            cur = list(rows); i = 0
            while i < len(cur) and len(cur) > 1:
                cand = cur[:i] + cur[i + 1:]
                try: rr = check_group_query(real_factory(cand), items, filt, params)
                except Exception: rr = None
                if rr is not None and gclassify(items, filt, params, cand) == key: cur = cand
                else: i += 1
            rr = check_group_query(real_factory(cur), items, filt, params) or r
            failures.append(group_failure(items, filt, params, cur, rr[0], rr[1]))
    return evals, failures, nontriv, dist


def replay_group(d, real_factory):
    items = items_from_json(d['items'])
    filt = L.from_json(d['filt']) if d['filt'] is not None else None
    params = {int(k): v for k, v in d['params'].items()}
    real = real_factory(d['rows'])
    try:
        r = check_group_query(real, items, filt, params)
    except Exception:
        return None
    if r is None: return None
    return group_failure(items, filt, params, [real.rows[i] for i in sorted(real.rows)], r[0], r[1])
