#!/bin/bash
# tools/mutcheck.sh <patch.diff> <property id> [tier]
# Run one check against a *mutated copy* of /repo without touching /repo or /verif's build:
# a scratch git worktree of /repo gets the patch, a scratch copy of /verif runs the check with VERIF_REPO set.
set -u
PATCH=$(readlink -f "$1"); PROP=$2; TIER=${3:-quick}
W=$(mktemp -d /tmp/mut-XXXXXX)
git -C /repo worktree add -q --detach "$W/repo" HEAD || exit 2
if ! git -C "$W/repo" apply "$PATCH"; then echo "patch does not apply"; git -C /repo worktree remove --force "$W/repo"; rm -rf "$W"; exit 2; fi
rsync -a --exclude .git --exclude .scratch --exclude replays /verif/ "$W/verif/"
( cd "$W/verif" && VERIF_REPO="$W/repo" ./check "$PROP" --tier "$TIER" ); RC=$?
git -C /repo worktree remove --force "$W/repo"; rm -rf "$W"
echo "mutcheck exit=$RC"
exit $RC
