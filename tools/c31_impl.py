"""C31 implementation driver: scenarios over a small model (auto-PK entity A, composite string-PK entity B, entity C whose composite
PK contains a reference to B) executed on real Pony + in-memory SQLite, with a Python shadow of the expected current state.

Scenario (JSON-able):
    {"a": [[name, n], ...], "b": [[k1, k2, a_index|None, val], ...], "c": [[b_index, idx, note], ...],
     "mods": [["set_n", ai, v] | ["set_val", bi, v] | ["set_a", bi, ai|None] | ["set_note", ci, s] | ["new_a", name] | ["new_b", k1, k2, ai|None]
              | ["new_c", bi, idx, note] | ["del_c", ci]],
     "given": [["a"|"b"|"c", index], ...]}          # objects handed to serialization.to_dict / to_json, in this order
check(scenario) -> list of (cls, detail).
"""
import json, pickle


# entity classes must be importable by name for pickle: they live at module level, bound once to an in-memory SQLite;
# every scenario starts from freshly created tables
_state = {}

def make_db():
    from pony import orm
    if 'db' in _state:
        db = _state['db']
        db.drop_all_tables(with_all_data=True)
        db.create_tables()
        return db, _state['A'], _state['B'], _state['C']
    db = orm.Database()
    g = globals()
    class A(db.Entity):
        name = orm.Required(str)
        n = orm.Optional(int)
        bs = orm.Set('B')
    class B(db.Entity):
        k1 = orm.Required(str)
        k2 = orm.Required(str)
        orm.PrimaryKey(k1, k2)
        a = orm.Optional(A)
        val = orm.Optional(int)
        cs = orm.Set('C')
    class C(db.Entity):
        b = orm.Required(B)
        idx = orm.Required(int)
        orm.PrimaryKey(b, idx)
        note = orm.Optional(str)
    for cls in (A, B, C):
        cls.__qualname__ = cls.__name__; cls.__module__ = __name__
        g[cls.__name__] = cls
    db.bind('sqlite', ':memory:')
    db.generate_mapping(create_tables=True)
    _state.update(db=db, A=A, B=B, C=C)
    return db, A, B, C


def py_reduce(parts):
    """specification of the key encoding: escape '*' and ',' with '*', join with ','"""
    return ','.join(str(p).replace('*', '**').replace(',', '*,') for p in parts)

def py_decode(s):
    out, cur, i = [], [], 0
    while i < len(s):
        c = s[i]
        if c == '*' and i + 1 < len(s): cur.append(s[i + 1]); i += 2; continue
        if c == ',': out.append(''.join(cur)); cur = []
        else: cur.append(c)
        i += 1
    out.append(''.join(cur))
    return out


class Shadow(object):
    """expected current state"""
    def __init__(self, sc):
        self.a = [{'id': i + 1, 'name': n, 'n': v} for i, (n, v) in enumerate(sc['a'])]
        self.b = [{'k1': k1, 'k2': k2, 'a': ai, 'val': v} for k1, k2, ai, v in sc['b']]
        self.c = [{'b': bi, 'idx': idx, 'note': note, 'alive': True} for bi, idx, note in sc['c']]
    def bkey(self, bi): return (self.b[bi]['k1'], self.b[bi]['k2'])
    def ckey(self, ci): return self.bkey(self.c[ci]['b']) + (self.c[ci]['idx'],)
    def a_dict(self, ai, reduced):
        d = {'id': self.a[ai]['id'], 'name': self.a[ai]['name'], 'n': self.a[ai]['n']}
        keys = sorted(self.bkey(bi) for bi, b in enumerate(self.b) if b['a'] == ai)
        d['bs'] = sorted(py_reduce(k) for k in keys) if reduced else keys
        return d
    def b_dict(self, bi, reduced):
        b = self.b[bi]
        d = {'k1': b['k1'], 'k2': b['k2'], 'a': None if b['a'] is None else self.a[b['a']]['id'], 'val': b['val']}
        keys = sorted(self.ckey(ci) for ci, c in enumerate(self.c) if c['alive'] and c['b'] == bi)
        d['cs'] = sorted(py_reduce(k) for k in keys) if reduced else keys
        return d
    def c_dict(self, ci):
        c = self.c[ci]
        return {'b': self.bkey(c['b']), 'idx': c['idx'], 'note': c['note']}


def norm(x):
    """tuples -> lists, for comparison with JSON-ish structures"""
    if isinstance(x, (tuple, list)): return [norm(i) for i in x]
    if isinstance(x, dict): return {k: norm(v) for k, v in x.items()}
    return x


def check(sc):
    from pony import orm
    from pony.orm import serialization
    out = []
    db, A, B, C = make_db()
    sh = Shadow(sc)
    with orm.db_session:
        aobj = [A(name=n, n=v) for n, v in sc['a']]
        orm.flush()
        bobj = [B(k1=k1, k2=k2, a=None if ai is None else aobj[ai], val=v) for k1, k2, ai, v in sc['b']]
        cobj = [C(b=bobj[bi], idx=idx, note=note) for bi, idx, note in sc['c']]
    try:
        with orm.db_session:
            aobj = [A[i + 1] for i in range(len(sc['a']))]
            bobj = [B[k1, k2] for k1, k2, _, _ in sc['b']]
            cobj = [C[bobj[bi], idx] for bi, idx, _ in sc['c']]
            for m in sc.get('mods', []):
                t = m[0]
                if t == 'set_n': aobj[m[1]].n = m[2]; sh.a[m[1]]['n'] = m[2]
                elif t == 'set_val': bobj[m[1]].val = m[2]; sh.b[m[1]]['val'] = m[2]
                elif t == 'set_a': bobj[m[1]].a = None if m[2] is None else aobj[m[2]]; sh.b[m[1]]['a'] = m[2]
                elif t == 'set_note': cobj[m[1]].note = m[2]; sh.c[m[1]]['note'] = m[2]
                elif t == 'new_a': aobj.append(A(name=m[1])); sh.a.append({'id': len(sh.a) + 1, 'name': m[1], 'n': None})
                elif t == 'new_b':
                    bobj.append(B(k1=m[1], k2=m[2], a=None if m[3] is None else aobj[m[3]])); sh.b.append({'k1': m[1], 'k2': m[2], 'a': m[3], 'val': None})
                elif t == 'new_c': cobj.append(C(b=bobj[m[1]], idx=m[2], note=m[3])); sh.c.append({'b': m[1], 'idx': m[2], 'note': m[3], 'alive': True})
                elif t == 'del_c': cobj[m[1]].delete(); sh.c[m[1]]['alive'] = False
                else: raise ValueError(m)
            given = [(k, i) for k, i in sc['given'] if not (k == 'c' and not sh.c[i]['alive'])]
            objs = [{'a': aobj, 'b': bobj, 'c': cobj}[k][i] for k, i in given]

            # (1) serialization.to_dict on the session as it is (pending changes unflushed)
            try:
                d = serialization.to_dict(objs)
                js = serialization.to_json(objs)
                d2 = serialization.to_dict(objs)         # same session state as the to_json call (after any implicit flush)
            except Exception as e:
                out.append(('bag:EXC:' + type(e).__name__, str(e)[:200])); d = None
            if d is not None:
                d = dict(d)
                exp = {}
                for k, i in given:
                    if k == 'a': exp.setdefault('A', {})[sh.a[i]['id']] = sh.a_dict(i, True)
                    if k == 'b': exp.setdefault('B', {})[py_reduce(sh.bkey(i))] = sh.b_dict(i, True)
                    if k == 'c': exp.setdefault('C', {})[py_reduce(sh.ckey(i))] = sh.c_dict(i)
                for ename, objs_exp in exp.items():
                    got_e = d.get(ename, {})
                    for key, want in objs_exp.items():
                        if key not in got_e:
                            cls = 'bag:given-object-missing'
                            if None in got_e: cls = 'bag:new-object-keyed-None'
                            out.append((cls, {'entity': ename, 'key': key, 'keys': sorted(map(str, got_e))})); continue
                        got = norm(got_e[key])
                        w = norm(want)
                        if got != w:
                            missing = sorted(set(w) - set(got))
                            if missing and all(got.get(f) == w[f] for f in got):
                                out.append(('bag:given-object-without-collections', {'entity': ename, 'key': key, 'missing': missing}))
                            elif ename == 'A' and got.get('id') is None and {f: v for f, v in got.items() if f != 'id'} == {f: v for f, v in w.items() if f != 'id'}:
                                out.append(('bag:new-object-id-None-under-its-key', {'entity': ename, 'key': key}))
                            else:
                                out.append(('bag:wrong-values', {'entity': ename, 'key': key, 'got': got, 'want': w}))
                # every composite key decodes to the raw key of exactly one object
                for ename in ('B', 'C'):
                    for key in d.get(ename, {}):
                        if not isinstance(key, str): out.append(('bag:composite-key-not-a-string', {'entity': ename, 'key': repr(key)})); continue
                        parts = py_decode(key)
                        raws = [list(map(str, sh.bkey(i))) for i in range(len(sh.b))] if ename == 'B' else [list(map(str, sh.ckey(i))) for i in range(len(sh.c))]
                        if raws.count(parts) != 1: out.append(('bag:key-does-not-decode', {'entity': ename, 'key': key, 'decoded': parts}))
                # related (not given) objects that appear: their non-collection values must be current
                for ename, got_e in d.items():
                    for key, got in got_e.items():
                        if key in exp.get(ename, {}): continue
                        if ename == 'A':
                            cand = [sh.a_dict(i, True) for i in range(len(sh.a)) if sh.a[i]['id'] == key]
                        elif ename == 'B': cand = [sh.b_dict(i, True) for i in range(len(sh.b)) if py_reduce(sh.bkey(i)) == key]
                        else: cand = [sh.c_dict(i) for i in range(len(sh.c)) if sh.c[i]['alive'] and py_reduce(sh.ckey(i)) == key]
                        if key is None: continue          # reported above as new-object-keyed-None
                        if len(cand) != 1: out.append(('bag:unknown-related-object', {'entity': ename, 'key': repr(key)})); continue
                        w = norm(cand[0]); g = norm(got)
                        if any(g.get(f) != w[f] for f in g if f in w) or any(f not in w for f in g):
                            out.append(('bag:related-object-wrong-values', {'entity': ename, 'key': repr(key), 'got': g, 'want': w}))
                # (2) to_json is the same data
                try:
                    back = json.loads(js)
                    again = json.loads(json.dumps(dict(d2), default=serialization.json_converter, sort_keys=True))
                    if back != again:
                        out.append(('json:differs-from-to_dict', {'json_keys': {e: sorted(back[e]) for e in back}, 'dict_keys': {e: sorted(again[e]) for e in again}}))
                except Exception as e:
                    out.append(('json:EXC:' + type(e).__name__, str(e)[:200]))

            # (3) Entity.to_dict (flushes first): current values, collections as sorted raw keys
            for k, i in given:
                try:
                    if k == 'a': got, want = aobj[i].to_dict(with_collections=True), sh.a_dict(i, False)
                    elif k == 'b': got, want = bobj[i].to_dict(with_collections=True), sh.b_dict(i, False)
                    else: got, want = cobj[i].to_dict(with_collections=True), sh.c_dict(i)
                    if norm(got) != norm(want): out.append(('entity.to_dict:wrong-values', {'obj': [k, i], 'got': norm(got), 'want': norm(want)}))
                except Exception as e:
                    out.append(('entity.to_dict:EXC:' + type(e).__name__, str(e)[:200]))
            orm.commit()

        # (4) pickling in one session, unpickling in another: equal attribute values
        with orm.db_session:
            aobj2 = A.select().order_by(A.id)[:]
            bres = B.select().order_by(B.k1, B.k2)[:]
            cres = orm.select((c, c.b.k1, c.idx) for c in C).order_by(2, 3)[:]
            blobs = {'a': pickle.dumps(list(aobj2)), 'bres': pickle.dumps(bres), 'cres': pickle.dumps(cres),
                     'sets': pickle.dumps([a.bs for a in aobj2])}
            want = {'a': [(a.id, a.name, a.n) for a in aobj2],
                    'b': [(b.k1, b.k2, None if b.a is None else b.a.id, b.val) for b in bres],
                    'c': [(c.b.k1, c.b.k2, c.idx, c.note, k1, idx) for c, k1, idx in cres],
                    'sets': [sorted((b.k1, b.k2) for b in a.bs) for a in aobj2]}
        with orm.db_session:
            try:
                a3 = pickle.loads(blobs['a']); b3 = pickle.loads(blobs['bres']); c3 = pickle.loads(blobs['cres']); s3 = pickle.loads(blobs['sets'])
                got = {'a': [(a.id, a.name, a.n) for a in a3],
                       'b': [(b.k1, b.k2, None if b.a is None else b.a.id, b.val) for b in b3],
                       'c': [(c.b.k1, c.b.k2, c.idx, c.note, k1, idx) for c, k1, idx in c3],
                       'sets': [sorted((b.k1, b.k2) for b in s) for s in s3]}
                if got != want: out.append(('pickle:wrong-values', {'got': norm(got), 'want': norm(want)}))
                if not all(isinstance(x, A) for x in a3) or not all(isinstance(x, B) for x in b3): out.append(('pickle:wrong-types', {}))
            except Exception as e:
                out.append(('pickle:EXC:' + type(e).__name__, str(e)[:200]))
    except Exception as e:
        out.append(('scenario:EXC:' + type(e).__name__, str(e)[:300]))
    return out


# ================================================================================================ pending members of cached collections
# Second scenario family: Entity.to_dict(with_collections=True) must report the keys of collection members that were created in
# this session and are not flushed yet (automatic keys), also when the collection was cached BEFORE the member was created
# (then no SELECT -- and no implicit flush -- happens while the collection is read).
#
#   {"groups": n, "courses": n, "students": [[group|None, [course, ...]], ...],        committed state
#    "preload": [["g"|"k"|"s", index], ...],                                           to_dict(with_collections=True) taken first (fills the cache)
#    "mods": [["new_s", group|None, [course, ...]] | ["new_k", [student, ...]] | ["new_g"] | ["move_s", student, group|None] | ["enroll", student, course]],
#    "probe": [["g"|"k"|"s", index], ...], "related_objects": bool}

def make_db2():
    from pony import orm
    if 'db2' in _state:
        db = _state['db2']
        db.drop_all_tables(with_all_data=True)
        db.create_tables()
        return db, _state['G'], _state['S'], _state['K']
    db = orm.Database()
    g = globals()
    class G(db.Entity):
        number = orm.PrimaryKey(int)
        students = orm.Set('S')
    class S(db.Entity):
        name = orm.Required(str)
        group = orm.Optional(G)
        courses = orm.Set('K')
    class K(db.Entity):
        name = orm.Required(str)
        students = orm.Set(S)
    for cls in (G, S, K):
        cls.__qualname__ = cls.__name__; cls.__module__ = __name__
        g[cls.__name__] = cls
    db.bind('sqlite', ':memory:')
    db.generate_mapping(create_tables=True)
    with db.set_perms_for(G, S, K):          # Database.to_json only shows what the current user may view
        orm.perm('view', group='anybody')
    _state.update(db2=db, G=G, S=S, K=K)
    return db, G, S, K


def check_pending(sc):
    from pony import orm
    out = []
    db, G, S, K = make_db2()
    # shadow: students [{'id', 'group': index|None, 'courses': set(index)}], groups by index (number = index + 1), courses by index (id = index + 1)
    studs = [{'id': i + 1, 'name': 's%d' % (i + 1), 'group': g, 'courses': set(cs)} for i, (g, cs) in enumerate(sc['students'])]
    n_g, n_k = sc['groups'], sc['courses']
    with orm.db_session:
        gobj = [G(number=i + 1) for i in range(n_g)]
        kobj = [K(name='k%d' % (i + 1)) for i in range(n_k)]
        orm.flush()
        sobj = []
        for st in studs:
            sobj.append(S(name=st['name'], group=None if st['group'] is None else gobj[st['group']], courses=[kobj[c] for c in sorted(st['courses'])]))
            orm.flush()
    def expect(kind, i):
        if kind == 'g': return {'number': i + 1, 'students': sorted(st['id'] for st in studs if st['group'] == i)}
        if kind == 'k': return {'id': i + 1, 'name': 'k%d' % (i + 1), 'students': sorted(st['id'] for st in studs if i in st['courses'])}
        st = studs[i]
        return {'id': st['id'], 'name': st['name'], 'group': None if st['group'] is None else st['group'] + 1, 'courses': sorted(c + 1 for c in st['courses'])}
    def key_of(o):
        if o is None: return None
        return o.number if isinstance(o, G) else o.id
    try:
        with orm.db_session:
            gobj = [G[i + 1] for i in range(n_g)]
            kobj = [K[i + 1] for i in range(n_k)]
            sobj = [S[i + 1] for i in range(len(studs))]
            pick = lambda kind, i: {'g': gobj, 'k': kobj, 's': sobj}[kind][i]
            for kind, i in sc.get('preload', []):
                got = pick(kind, i).to_dict(with_collections=True)
                if got != expect(kind, i): out.append(('entity.to_dict:committed:wrong-values', {'obj': [kind, i], 'got': norm(got), 'want': expect(kind, i)}))
            for m in sc.get('mods', []):
                t = m[0]
                if t == 'new_s':
                    studs.append({'id': len(studs) + 1, 'name': 'n%d' % (len(studs) + 1), 'group': m[1], 'courses': set(m[2])})
                    sobj.append(S(name=studs[-1]['name'], group=None if m[1] is None else gobj[m[1]], courses=[kobj[c] for c in m[2]]))
                elif t == 'new_k':
                    n_k += 1
                    kobj.append(K(name='k%d' % n_k, students=[sobj[s] for s in m[1]]))
                    for s in m[1]: studs[s]['courses'].add(n_k - 1)
                elif t == 'new_g':
                    n_g += 1; gobj.append(G(number=n_g))
                elif t == 'move_s': sobj[m[1]].group = None if m[2] is None else gobj[m[2]]; studs[m[1]]['group'] = m[2]
                elif t == 'enroll': sobj[m[1]].courses.add(kobj[m[2]]); studs[m[1]]['courses'].add(m[2])
                else: raise ValueError(m)
            ro = bool(sc.get('related_objects'))
            for kind, i in sc['probe']:
                want = expect(kind, i)
                try:
                    got = pick(kind, i).to_dict(with_collections=True, related_objects=ro)
                except Exception as e:
                    out.append(('entity.to_dict:pending:EXC:' + type(e).__name__, {'obj': [kind, i], 'error': str(e)[:160], 'want': want})); continue
                if ro:
                    got = {f: ([key_of(x) for x in v] if isinstance(v, list) else (key_of(v) if isinstance(v, (G, S, K)) else v)) for f, v in got.items()}
                if norm(got) != norm(want):
                    out.append(('entity.to_dict:pending:wrong-values', {'obj': [kind, i], 'related_objects': ro, 'got': norm(got), 'want': norm(want)}))
            orm.commit()
        # the shadow itself against the database (guards the oracle: ids of new objects are assigned in creation order)
        with orm.db_session:
            for kind, i in sc['probe']:
                obj = {'g': G, 'k': K, 's': S}[kind][i + 1]
                got = obj.to_dict(with_collections=True)
                if norm(got) != norm(expect(kind, i)): out.append(('oracle:shadow-differs-from-database', {'obj': [kind, i], 'db': norm(got), 'shadow': norm(expect(kind, i))}))
    except Exception as e:
        out.append(('scenario:EXC:' + type(e).__name__, str(e)[:300]))
    return out


# ================================================================================================ pickling across sessions
def pickle_entity_case(pickled_status, change_between, preload_here):
    """Entity instance A(name, n): pickle in session 1 (object loaded | modified | created | deleted), optionally change n in the
    database in between, unpickle in session 2 (optionally after loading the object there). Returns ('ok', n seen after unpickling,
    old n, new n) or ('err', exception class)."""
    from pony import orm
    db, A, B, C = make_db()
    with orm.db_session:
        A(name='x', n=5)
    with orm.db_session:
        if pickled_status == 'created': a = A(name='y', n=1)
        else:
            a = A[1]
            if pickled_status == 'modified': a.n = 6
            if pickled_status == 'deleted': a.delete()
        try: blob = pickle.dumps(a)
        except Exception as e:
            orm.rollback(); return ('err', type(e).__name__)
        orm.rollback()
    new_n = 5
    if change_between:
        with orm.db_session: A[1].n = 77
        new_n = 77
    with orm.db_session:
        if preload_here: assert A[1].n == new_n
        a2 = pickle.loads(blob)
        return ('ok', a2.n, 5, new_n, a2.name, isinstance(a2, A) and a2 is A[1])


def pickle_set_case(kind, preload_here):
    """SetInstance round trip. kind: 'o2m' (G.students), 'm2m_s' (S.courses), 'm2m_k' (K.students). Returns (ids before pickling,
    ids after unpickling in another session, ids a fresh read in that session gives afterwards)."""
    from pony import orm
    db, G, S, K = make_db2()
    with orm.db_session:
        g = G(number=1); k1 = K(name='k1'); k2 = K(name='k2'); orm.flush()
        S(name='s1', group=g, courses=[k1, k2]); orm.flush(); S(name='s2', group=g, courses=[k1])
    pick = {'o2m': lambda: G[1].students, 'm2m_s': lambda: S[1].courses, 'm2m_k': lambda: K[1].students}[kind]
    with orm.db_session:
        w = pick()
        before = sorted(x.id for x in w)
        blob = pickle.dumps(w)
    with orm.db_session:
        if preload_here: assert sorted(x.id for x in pick()) == before
        w2 = pickle.loads(blob)
        after = sorted(x.id for x in w2)
        fresh = sorted(x.id for x in pick())
    return before, after, fresh


def check_pickle_sets():
    out = []
    for kind in ('o2m', 'm2m_s', 'm2m_k'):
        for preload in (False, True):
            try:
                before, after, fresh = pickle_set_case(kind, preload)
            except Exception as e:
                out.append(('pickle:set:EXC:' + type(e).__name__, {'kind': kind, 'preload': preload, 'error': str(e)[:200]})); continue
            if after != before or fresh != before:
                out.append(('pickle:set:wrong-items', {'kind': kind, 'preload': preload, 'before': before, 'after': after, 'fresh_read_in_that_session': fresh}))
    return out



# ================================================================================================ Database.to_json
INCLUDABLE = ('G.students', 'S.group', 'S.courses', 'K.students')

def db_to_json_case(sc):
    """Run Database.to_json on a pending-members scenario (its `probe` objects are the data, sc['include'] the included relationship
    attributes, optional sc['schema'] in {'none', 'full', 'hash'}).  Returns a dict with the parsed JSON, the shadow's expectation and
    the graph needed by the model (objects numbered g*, k*, s*), or {'error': ...}."""
    from pony import orm
    db, G, S, K = make_db2()
    studs = [{'id': i + 1, 'name': 's%d' % (i + 1), 'group': g, 'courses': set(cs), 'new': False} for i, (g, cs) in enumerate(sc['students'])]
    n_g, n_k = sc['groups'], sc['courses']
    with orm.db_session:
        gobj = [G(number=i + 1) for i in range(n_g)]
        kobj = [K(name='k%d' % (i + 1)) for i in range(n_k)]
        orm.flush()
        for st in studs:
            S(name=st['name'], group=None if st['group'] is None else gobj[st['group']], courses=[kobj[c] for c in sorted(st['courses'])]); orm.flush()
    include_names = list(sc.get('include', []))
    new_k = set()
    with orm.db_session:
        gobj = [G[i + 1] for i in range(n_g)]; kobj = [K[i + 1] for i in range(n_k)]; sobj = [S[i + 1] for i in range(len(studs))]
        for kind, i in sc.get('preload', []): {'g': gobj, 'k': kobj, 's': sobj}[kind][i].to_dict(with_collections=True)
        for m in sc.get('mods', []):
            t = m[0]
            if t == 'new_s':
                studs.append({'id': len(studs) + 1, 'name': 'n%d' % (len(studs) + 1), 'group': m[1], 'courses': set(m[2]), 'new': True})
                sobj.append(S(name=studs[-1]['name'], group=None if m[1] is None else gobj[m[1]], courses=[kobj[c] for c in m[2]]))
            elif t == 'new_k':
                n_k += 1; new_k.add(n_k - 1)
                kobj.append(K(name='k%d' % n_k, students=[sobj[x] for x in m[1]]))
                for x in m[1]: studs[x]['courses'].add(n_k - 1)
            elif t == 'new_g': n_g += 1; gobj.append(G(number=n_g))
            elif t == 'move_s': sobj[m[1]].group = None if m[2] is None else gobj[m[2]]; studs[m[1]]['group'] = m[2]
            elif t == 'enroll': sobj[m[1]].courses.add(kobj[m[2]]); studs[m[1]]['courses'].add(m[2])
        pick = lambda kind, i: {'g': gobj, 'k': kobj, 's': sobj}[kind][i]
        include = [getattr({'G': G, 'S': S, 'K': K}[n.split('.')[0]], n.split('.')[1]) for n in include_names]
        data = [pick(kind, i) for kind, i in sc['probe']]
        mode = sc.get('schema', 'none')
        try:
            if mode == 'none': js = db.to_json(data, include=include, with_schema=False)
            elif mode == 'full': js = db.to_json(data, include=include)
            else:
                h = json.loads(db.to_json([], with_schema=True))['schema_hash']
                js = db.to_json(data, include=include, schema_hash=h)
            parsed = json.loads(js)
        except Exception as e:
            orm.rollback(); return {'error': type(e).__name__ + ': ' + str(e)[:160]}
        orm.rollback()
    # shadow expectation (keys as JSON strings)
    def succ(node):
        kind, i = node
        out = []
        if kind == 'g' and 'G.students' in include_names: out += [('s', x) for x in range(len(studs)) if studs[x]['group'] == i]
        if kind == 's':
            if 'S.group' in include_names and studs[i]['group'] is not None: out.append(('g', studs[i]['group']))
            if 'S.courses' in include_names: out += [('k', c) for c in sorted(studs[i]['courses'])]
        if kind == 'k' and 'K.students' in include_names: out += [('s', x) for x in range(len(studs)) if i in studs[x]['courses']]
        return out
    roots = []
    for kind, i in sc['probe']:
        if (kind, i) not in roots: roots.append((kind, i))
    seen, todo = list(roots), list(roots)
    while todo:
        o = todo.pop(0)
        for x in succ(o):
            if x not in seen: seen.append(x); todo.append(x)
    def pk(node): return node[1] + 1
    def odict(node):
        kind, i = node
        if kind == 'g':
            d = {'number': i + 1}
            if 'G.students' in include_names: d['students'] = sorted(studs[x]['id'] for x in range(len(studs)) if studs[x]['group'] == i)
        elif kind == 'k':
            d = {'id': i + 1, 'name': 'k%d' % (i + 1)}
            if 'K.students' in include_names: d['students'] = sorted(studs[x]['id'] for x in range(len(studs)) if i in studs[x]['courses'])
        else:
            st = studs[i]
            d = {'id': st['id'], 'name': st['name'], 'group': None if st['group'] is None else st['group'] + 1}
            if 'S.courses' in include_names: d['courses'] = sorted(c + 1 for c in st['courses'])
        return d
    cls = {'g': 'G', 'k': 'K', 's': 'S'}
    want = {'data': [{'class': cls[k], 'pk': pk((k, i))} for k, i in sc['probe']], 'objects': {}}
    for node in seen: want['objects'].setdefault(cls[node[0]], {})[str(pk(node))] = odict(node)
    universe = [('g', i) for i in range(n_g)] + [('k', i) for i in range(n_k)] + [('s', i) for i in range(len(studs))]
    pending = [n for n in universe if (n[0] == 's' and studs[n[1]]['new']) or (n[0] == 'k' and n[1] in new_k)]
    return {'parsed': parsed, 'want': want, 'universe': universe, 'succ': {universe.index(n): [universe.index(x) for x in succ(n)] for n in universe},
            'roots': [universe.index(n) for n in roots], 'pending': [universe.index(n) for n in pending], 'mode': mode,
            'present': [universe.index(n) for n in universe if str(pk(n)) in parsed.get('objects', {}).get(cls[n[0]], {})]}


def check_db_to_json(sc):
    out = []
    r = db_to_json_case(sc)
    if 'error' in r:
        e = r['error']
        return [('db.to_json:EXC:' + e.split(':')[0], {'error': e})]
    parsed, want = r['parsed'], r['want']
    exp_sections = {'none': ['data', 'objects'], 'full': ['data', 'objects', 'schema', 'schema_hash'], 'hash': ['data', 'objects', 'schema_hash']}[r['mode']]
    if sorted(parsed) != sorted(exp_sections): out.append(('db.to_json:wrong-sections', {'got': sorted(parsed), 'want': exp_sections}))
    got = {'data': parsed.get('data'), 'objects': parsed.get('objects')}
    if got != want:
        flat = json.dumps(got)
        if r['pending'] and ('null' in flat):
            out.append(('db.to_json:new-object-pk-null', {'data': got['data'], 'object_keys': {e: sorted(v) for e, v in (got['objects'] or {}).items()}}))
        else:
            out.append(('db.to_json:wrong-values', {'got': got, 'want': want}))
    return out



# ================================================================================================ Database.to_json and can_view
def make_db3():
    """the G/S/K model again, but the current user (anybody) may view groups and students only, not courses"""
    from pony import orm
    if 'db3' in _state:
        db = _state['db3']
        db.drop_all_tables(with_all_data=True)
        db.create_tables()
        return db, _state['G3'], _state['S3'], _state['K3']
    db = orm.Database()
    class G(db.Entity):
        number = orm.PrimaryKey(int)
        students = orm.Set('S')
    class S(db.Entity):
        name = orm.Required(str)
        group = orm.Optional(G)
        courses = orm.Set('K')
    class K(db.Entity):
        name = orm.Required(str)
        students = orm.Set(S)
    db.bind('sqlite', ':memory:')
    db.generate_mapping(create_tables=True)
    with db.set_perms_for(G, S):
        orm.perm('view', group='anybody')
    _state.update(db3=db, G3=G, S3=S, K3=K)
    return db, G, S, K


def db_to_json_perm_case(sc):
    """committed G/S/K state of a scenario, probe objects as data, sc['include']: does to_json raise PermissionError, and if not, which
    objects does it ship?  Returns (raised: bool, shipped: set of (kind, index)), plus the graph for the model."""
    from pony import orm
    db, G, S, K = make_db3()
    studs = [{'group': g, 'courses': set(cs)} for g, cs in sc['students']]
    n_g, n_k = sc['groups'], sc['courses']
    with orm.db_session:
        gobj = [G(number=i + 1) for i in range(n_g)]
        kobj = [K(name='k%d' % (i + 1)) for i in range(n_k)]
        orm.flush()
        for i, st in enumerate(studs):
            S(name='s%d' % (i + 1), group=None if st['group'] is None else gobj[st['group']], courses=[kobj[c] for c in sorted(st['courses'])]); orm.flush()
    names = list(sc.get('include', []))
    universe = [('g', i) for i in range(n_g)] + [('k', i) for i in range(n_k)] + [('s', i) for i in range(len(studs))]
    def succ(node):
        kind, i = node
        out = []
        if kind == 'g' and 'G.students' in names: out += [('s', x) for x in range(len(studs)) if studs[x]['group'] == i]
        if kind == 's':
            if 'S.group' in names and studs[i]['group'] is not None: out.append(('g', studs[i]['group']))
            if 'S.courses' in names: out += [('k', c) for c in sorted(studs[i]['courses'])]
        if kind == 'k' and 'K.students' in names: out += [('s', x) for x in range(len(studs)) if i in studs[x]['courses']]
        return out
    probe = [p for p in sc['probe'] if tuple(p) in universe]
    if not probe: return None
    roots = []
    for p in probe:
        if tuple(p) not in roots: roots.append(tuple(p))
    with orm.db_session:
        ent = {'G': G, 'S': S, 'K': K}
        include = [getattr(ent[n.split('.')[0]], n.split('.')[1]) for n in names]
        pick = lambda kind, i: {'g': G, 'k': K, 's': S}[kind][i + 1]
        try:
            parsed = json.loads(db.to_json([pick(k, i) for k, i in probe], include=include, with_schema=False))
            raised = False
        except orm.core.PermissionError:
            raised, parsed = True, None
    shipped = set()
    if parsed is not None:
        cls = {'G': 'g', 'S': 's', 'K': 'k'}
        for ref in parsed['data']: shipped.add((cls[ref['class']], ref['pk'] - 1))
        for e, objs in parsed['objects'].items():
            for key in objs: shipped.add((cls[e], int(key) - 1))
    return {'raised': raised, 'shipped': sorted(universe.index(n) for n in shipped), 'universe': universe,
            'succ': {universe.index(n): [universe.index(x) for x in succ(n)] for n in universe}, 'roots': [universe.index(n) for n in roots],
            'viewable': [universe.index(n) for n in universe if n[0] != 'k']}
