"""C15 implementation driver: object graphs on real Pony + SQLite (file database, foreign keys enforced), deletions through
obj.delete() in one or several sessions and through bulk deletes executed by the database; after every commit the rows are read
back through a separate sqlite3 connection and turned into the abstract state of coq/Model/C15Delete.v (live objects + links).

Schema format: entities = list of {'attrs': [PK, rel attrs...]} as in c13_impl (attribute 0 is the integer primary key, which is the
object's global handle).  Ops:
    ["new", oid, ent, [[attr, partner_oid], ...]]
    ["del", oid, ent]         obj.delete()
    ["del", oid, ent, [pe, poid, pa]]   the same object reached as getattr(pe[poid], pa) - an unloaded placeholder when the peer holds the
                                        reference in its own row and nothing else has loaded the object in this session
    ["bulk", ent, [oids]]     ent.select(lambda x: x.id in oids).delete(bulk=True), in a session of its own
A history is a list of sessions (lists of ops); each session ends with commit()."""
import itertools, json, os, sqlite3, sys, tempfile
import c13_impl as B
from c13_impl import A_ref, A_set, PK, ename, aname

# P (E0) with one dependent entity per relationship kind x flags; E9 hangs below the cascading child E1
S15 = {'entities': [
    {'attrs': [PK, A_set(1, 1), A_set(2, 1, cascade=False), A_set(3, 1), A_set(4, 1, cascade=True),
               A_ref(5, 1), A_ref(6, 1, cascade=True), A_ref(7, 1), A_set(8, 1)], 'ckeys': []},
    {'attrs': [PK, A_ref(0, 1, required=True), A_set(9, 1)], 'ckeys': []},        # required child: cascades by default
    {'attrs': [PK, A_ref(0, 2, required=True)], 'ckeys': []},                     # required child, cascade_delete=False: refuses
    {'attrs': [PK, A_ref(0, 3)], 'ckeys': []},                                    # optional child: reference cleared
    {'attrs': [PK, A_ref(0, 4)], 'ckeys': []},                                    # optional child, cascade_delete=True
    {'attrs': [PK, A_ref(0, 5, required=True)], 'ckeys': []},                     # one-to-one, required holder, no cascade: refuses
    {'attrs': [PK, A_ref(0, 6, required=True)], 'ckeys': []},                     # one-to-one, cascade from the parent side
    {'attrs': [PK, A_ref(0, 7)], 'ckeys': []},                                    # one-to-one, both optional
    {'attrs': [PK, A_set(0, 8)], 'ckeys': []},                                    # many-to-many
    {'attrs': [PK, A_ref(1, 2, required=True)], 'ckeys': []},                     # grandchild (cascades)
]}
# a chain with a refusing leaf and an optional back reference, to exercise refusal below a cascade and SET NULL on bulk deletes
S15B = {'entities': [
    {'attrs': [PK, A_set(1, 1), A_ref(2, 2)], 'ckeys': []},
    {'attrs': [PK, A_ref(0, 1, required=True), A_set(2, 1, cascade=False), A_set(3, 1)], 'ckeys': []},
    {'attrs': [PK, A_ref(1, 2, required=True), A_ref(0, 2)], 'ckeys': []},
    {'attrs': [PK, A_set(1, 3)], 'ckeys': []},
]}
# several relationships of different kinds on one entity, the cascading / clearing ones declared BEFORE a refusing one-to-one:
# one-to-many cascade (a01), many-to-many (a02), one-to-one cascade (a03, with a child below the dependent), then the refusal (a04)
S15C = {'entities': [
    {'attrs': [PK, A_set(1, 1), A_set(2, 1), A_ref(3, 1, cascade=True), A_ref(4, 1)], 'ckeys': []},
    {'attrs': [PK, A_ref(0, 1, required=True), A_set(5, 1)], 'ckeys': []},        # cascading child (with grandchildren E5)
    {'attrs': [PK, A_set(0, 2)], 'ckeys': []},                                    # many-to-many partner
    {'attrs': [PK, A_ref(0, 3, required=True), A_set(6, 1)], 'ckeys': []},        # one-to-one dependent, cascaded from E0.a03 (with children E6)
    {'attrs': [PK, A_ref(0, 4, required=True)], 'ckeys': []},                     # one-to-one dependent without cascade: refuses
    {'attrs': [PK, A_ref(1, 2, required=True)], 'ckeys': []},
    {'attrs': [PK, A_ref(3, 2, required=True)], 'ckeys': []},
]}
# an entity that holds the columns of its one-to-one references itself (both sides optional: the entity with the smaller name gets the
# column), one cascading (a02) and one that is cleared (a03), and that is referenced by notes (a01) - so that it can be reached as an
# unloaded placeholder through note.a01 and deleted without ever being read
S15D = {'entities': [
    {'attrs': [PK, A_set(1, 1), A_ref(2, 1, cascade=True), A_ref(3, 1)], 'ckeys': []},
    {'attrs': [PK, A_ref(0, 1)], 'ckeys': []},                                    # note: optional reference to E0
    {'attrs': [PK, A_ref(0, 2), A_set(4, 1)], 'ckeys': []},                       # one-to-one partner, cascaded from E0.a02 (column in E0's row); with children E4
    {'attrs': [PK, A_ref(0, 3)], 'ckeys': []},                                    # one-to-one partner, reference cleared (column in E0's row)
    {'attrs': [PK, A_ref(2, 2, required=True)], 'ckeys': []},
]}
SCHEMAS = {'S15': S15, 'S15B': S15B, 'S15C': S15C, 'S15D': S15D}


class World15(object):
    def __init__(self, schema, path):
        self.w = B.World(schema, path)
        self.schema = schema
        self.path = path
        self.orm = self.w.orm

    # facts for the model schema + what the real mapping decided (cascade_delete, column, ON DELETE)
    def facts(self):
        out = []
        db = self.w.db
        for i, e in enumerate(self.schema['entities']):
            fa = []
            for j, a in enumerate(e['attrs']):
                if a['kind'] == 'pk': continue
                at = self.w.attrs[i][j]
                f = {'idx': j, 'kind': a['kind'], 'required': bool(at.is_required), 'target': a['target'], 'reverse': a['reverse'],
                     'cascade_opt': a.get('cascade'), 'cascade': bool(at.cascade_delete), 'has_column': bool(getattr(at, 'columns', None)) and a['kind'] == 'ref'}
                if f['has_column']:
                    table = db.schema.tables[self.w.ents[i]._table_]
                    od = None
                    for fk in table.foreign_keys.values():
                        if [c.name for c in fk.child_columns] == list(at.columns): od = fk.on_delete or None
                    f['on_delete'] = od
                fa.append(f)
            out.append(fa)
        return out

    def ddl(self):
        con = sqlite3.connect(self.path)
        try: return [r[0] for r in con.execute("select sql from sqlite_master where sql is not null order by name").fetchall()]
        finally: con.close()

    def run_session(self, ops):
        """one db_session; returns [(result, text)] per op and the commit result"""
        orm = self.orm
        res = []
        objs = {}
        def get(e, oid):
            if (e, oid) not in objs: objs[(e, oid)] = self.w.ents[e][oid]
            return objs[(e, oid)]
        commit = ('ok', '')
        try:
            with orm.db_session:
                for op in ops:
                    try:
                        if op[0] == 'new':
                            oid, e, refs = op[1], op[2], op[3]
                            kw = {aname(0): oid}
                            for a, y in refs:
                                at = self.schema['entities'][e]['attrs'][a]
                                yo = get(at['target'], y)
                                if at['kind'] == 'set': kw.setdefault(aname(a), []).append(yo)
                                else: kw[aname(a)] = yo
                            objs[(e, oid)] = self.w.ents[e](**kw)
                        elif op[0] == 'del':
                            e = op[2]
                            o = None
                            if len(op) > 3 and (e, op[1]) not in objs:
                                pe, poid, pa = op[3]
                                try: o = getattr(get(pe, poid), aname(pa))
                                except orm.ObjectNotFound: o = None
                                if o is not None and o._pkval_ != op[1]: o = None
                            if o is None:
                                try: o = get(e, op[1])
                                except orm.ObjectNotFound: res.append(('gone', '', self._marked(objs))); continue
                            o.delete()
                        elif op[0] == 'bulk':
                            E = self.w.ents[op[1]]
                            ids = list(op[2])
                            E.select(lambda x: x.a00 in ids).delete(bulk=True)
                        res.append(('ok', '', self._marked(objs)))
                    except (orm.ConstraintError, orm.core.IntegrityError, orm.TransactionIntegrityError) as ex:
                        res.append(('refused', '%s: %s' % (type(ex).__name__, str(ex)[:160]), self._marked(objs)))
                    except Exception as ex:
                        # the program catches the exception and goes on (what remains of the session is committed below)
                        res.append(('error:' + type(ex).__name__, str(ex)[:160], self._marked(objs)))
                orm.commit()
        except Exception as ex:
            commit = ('failed', '%s: %s' % (type(ex).__name__, str(ex)[:200]))
        while len(res) < len(ops): res.append(('skipped', '', []))
        return res, commit

    def _marked(self, objs):
        """handles of the objects this session holds (directly or through a loaded relationship) whose status says deleted"""
        out = set()
        for o in list(self.w.db._get_cache().objects):
            if o._status_ in ('marked_to_delete', 'deleted', 'cancelled'): out.add(o._pkval_)
        return sorted(out)

    def db_state(self):
        """(objs, links, fk_violations) read through a separate connection"""
        con = sqlite3.connect(self.path)
        try:
            objs, links = [], []
            for i, E in enumerate(self.w.ents):
                cols = {}
                for j, a in enumerate(self.schema['entities'][i]['attrs']):
                    at = self.w.attrs[i][j]
                    if a['kind'] == 'ref' and at.columns: cols[j] = at.columns[0]
                sel = ', '.join(['"%s"' % E._pk_columns_[0]] + ['"%s"' % c for c in cols.values()])
                for row in con.execute('select %s from "%s"' % (sel, E._table_)).fetchall():
                    objs.append([row[0], i])
                    for (j, c), v in zip(cols.items(), row[1:]):
                        if v is not None: links.append([i, j, row[0], v])
                for j, a in enumerate(self.schema['entities'][i]['attrs']):
                    if a['kind'] != 'set': continue
                    at = self.w.attrs[i][j]
                    r = at.reverse
                    if not r.is_collection: continue
                    if (i, j) > (a['target'], a['reverse']): continue      # the model stores a many-to-many link on its first side
                    for x, y in con.execute('select "%s", "%s" from "%s"' % (r.columns[0], at.columns[0], at.table)).fetchall():
                        links.append([i, j, x, y])
            con.execute('PRAGMA foreign_keys = ON')
            viol = [list(map(str, r)) for r in con.execute('PRAGMA foreign_key_check').fetchall()]
            return sorted(objs), sorted(links), viol
        finally:
            con.close()


def run_memory_ddl_bulk(inner_commit=True, ddl_session=True):
    """Fixed scenario on an in-memory database (the connection survives its sessions): P(1) with required children K(1), K(2); a
    db_session(ddl=True) that creates a table, commits, and creates another one; then P.select().delete(bulk=True) in a new session.
    Returns the rows of P and K afterwards and PRAGMA foreign_keys as the bulk-delete session sees it."""
    orm = B.orm_module() if hasattr(B, 'orm_module') else __import__('pony.orm', fromlist=['x'])
    db = orm.Database('sqlite', ':memory:')
    P = type('P', (db.Entity,), {'id': orm.PrimaryKey(int), 'kids': orm.Set('K')})
    K = type('K', (db.Entity,), {'id': orm.PrimaryKey(int), 'p': orm.Required('P')})
    db.generate_mapping(create_tables=True)
    out = {}
    try:
        with orm.db_session:
            p = P(id=1); K(id=1, p=p); K(id=2, p=p)
        if ddl_session:
            with orm.db_session(ddl=True):
                db.execute('create table if not exists t1 (x int)')
                if inner_commit: orm.commit()
                db.execute('create table if not exists t2 (x int)')
        err = None
        try:
            with orm.db_session:
                out['foreign_keys'] = db.execute('PRAGMA foreign_keys').fetchone()[0]
                P.select().delete(bulk=True)
        except Exception as ex:
            err = type(ex).__name__
        with orm.db_session:
            out['P'] = sorted(db.select('select id from P'))
            out['K'] = sorted(tuple(r) for r in db.select('select id, p from K'))
        out['error'] = err
    finally:
        db.disconnect()
    return out


def run_history(sname, sessions):
    """sessions: list of op lists.  Returns per session: op results, commit result, db state after."""
    fd, path = tempfile.mkstemp(prefix='c15-', suffix='.sqlite', dir=os.environ.get('C15_TMP') or None)
    os.close(fd); os.unlink(path)
    try:
        w = World15(SCHEMAS[sname], path)
        out = []
        for ops in sessions:
            res, commit = w.run_session(ops)
            objs, links, viol = w.db_state()
            out.append({'results': res, 'commit': commit, 'objs': objs, 'links': links, 'fk_check': viol})
        return out
    finally:
        try: os.unlink(path)
        except OSError: pass
