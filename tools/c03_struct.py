"""C03, structural part: the NON-boolean grammar of the statement (calls with keyword arguments, attribute chains,
subscripts and slices, arithmetic, constants, f-strings, nested generators, several for-clauses, comparison chains).
There is no control flow in these constructs apart from comparison chains, so "same meaning" is checked as equality
of the decompiled tree with `ast.parse` of the source after a normalisation that only undoes what CPython's compiler
itself does to constants (tuple constants, folded signs, `in [..]` -> `in (..)`).  An exception is a rejection (allowed).
"""
import ast, warnings

FREE = ['p', 'q', 'r']
BINOPS = ['+', '-', '*', '/', '//', '%', '**', '<<', '>>', '&', '|', '^', '@']
CMPOPS = ['<', '<=', '>', '>=', '==', '!=', 'is', 'is not', 'in', 'not in']


class Gen(object):
    """Random expression source text; every production is tagged so that the evidence can report coverage."""
    def __init__(self, rng, loopvars, feats):
        self.rng = rng
        self.vars = list(loopvars) + FREE
        self.feats = feats
        self.gen_depth = 0

    def tag(self, f):
        self.feats[f] = self.feats.get(f, 0) + 1

    def const(self):
        r = self.rng
        k = r.randrange(9)
        if k == 0: self.tag('const-int'); return str(r.choice([0, 1, 2, 7, 255, 1000, 70000, 2 ** 40]))
        if k == 1: self.tag('const-str'); return repr(r.choice(['', 'abc', 'a b', "it's", 'x' * 5, '%s', '{}']))
        if k == 2: self.tag('const-float'); return r.choice(['1.5', '0.0', '2e10'])
        if k == 3: self.tag('const-none'); return 'None'
        if k == 4: self.tag('const-bool'); return r.choice(['True', 'False'])
        if k == 5: self.tag('const-tuple'); return r.choice(['(1, 2)', "('a', 'b', 3)", '()', '(1,)', '((1, 2), 3)'])
        if k == 6: self.tag('const-neg'); return r.choice(['-1', '-2.5', '(-7)'])
        if k == 7: self.tag('const-bytes'); return "b'ab'"
        self.tag('const-ellipsis'); return '...'

    def name(self):
        self.tag('name'); return self.rng.choice(self.vars)

    def primary(self, d):
        """something that can be followed by .attr / (..) / [..]"""
        r = self.rng
        if d <= 0 or r.random() < 0.35: return self.name()
        k = r.randrange(4)
        if k == 0:
            self.tag('attribute'); return '%s.%s' % (self.primary(d - 1), r.choice(['a', 'b', 'name', 'items']))
        if k == 1: return self.call(d)
        if k == 2: return self.subscript(d)
        return '(%s)' % self.expr(d - 1)

    def call(self, d):
        r = self.rng
        n = r.randrange(4)
        args = [self.expr(d - 1) for _ in range(n)]
        nk = r.choice([0, 0, 1, 2])
        kws = ['%s=%s' % (k, self.expr(d - 1)) for k in r.sample(['k', 'key', 'default'], nk)]
        star = ''
        x = r.random()
        # (*args / **kwargs calls are outside the grammar of the statement; two fixed cases are in FIXED_CASES)
        if nk: self.tag('call-kwargs')
        if r.random() < 0.5:
            self.tag('call-method'); f = '%s.%s' % (self.primary(d - 1), r.choice(['m', 'startswith', 'get']))
        else:
            self.tag('call-function'); f = r.choice(['f', 'len', 'max', 'g'])
        return '%s(%s)' % (f, ', '.join(args + kws))

    def slice_item(self, d):
        r = self.rng
        k = r.randrange(7)
        e = lambda: self.expr(d - 1)
        if k == 0: self.tag('slice-both'); return '%s:%s' % (e(), e())
        if k == 1: self.tag('slice-upper'); return ':%s' % e()
        if k == 2: self.tag('slice-lower'); return '%s:' % e()
        if k == 3: self.tag('slice-empty'); return ':'
        if k == 4: self.tag('slice-step'); return '%s:%s:%s' % (e(), e(), e())
        if k == 5: self.tag('slice-step-only'); return '::%s' % e()
        self.tag('index'); return e()

    def subscript(self, d):
        r = self.rng
        if r.random() < 0.2:
            self.tag('subscript-tuple')
            return '%s[%s]' % (self.primary(d - 1), ', '.join(self.slice_item(d) for _ in range(r.randint(2, 3))))
        return '%s[%s]' % (self.primary(d - 1), self.slice_item(d))

    def nonconst(self, d):
        """an expression that is certainly not a compile-time constant (so that CPython folds nothing)"""
        r = self.rng
        if d <= 0 or r.random() < 0.4: return self.name()
        return self.primary(d)

    def fstring(self, d):
        r = self.rng
        parts = []
        for _ in range(r.randint(1, 3)):
            k = r.randrange(6)
            v = self.nonconst(d - 1)
            if k == 0: self.tag('fstring-literal'); parts.append(r.choice(['a', ' - ', 'x=', '{{', '}}']))
            elif k == 1: self.tag('fstring-plain'); parts.append('{%s}' % v)
            elif k == 2: self.tag('fstring-conversion'); parts.append('{%s!%s}' % (v, r.choice('rsa')))
            elif k == 3: self.tag('fstring-spec'); parts.append('{%s:%s}' % (v, r.choice(['>10', '.2f', '05d'])))
            elif k == 4: self.tag('fstring-nested-spec'); parts.append('{%s:{%s}}' % (v, self.name()))
            else: self.tag('fstring-conv-spec'); parts.append('{%s!r:>8}' % v)
        return "f'%s'" % ''.join(parts)

    def display(self, d):
        r = self.rng
        k = r.randrange(5)
        n = r.randrange(4)
        if k == 0: self.tag('list'); return '[%s]' % ', '.join(self.expr(d - 1) for _ in range(n))
        if k == 1:
            self.tag('tuple')
            items = [self.nonconst(d - 1)] + [self.expr(d - 1) for _ in range(n)]
            return '(%s,)' % ', '.join(items)
        if k == 2: self.tag('dict'); return '{%s}' % ', '.join('%s: %s' % (self.expr(d - 1), self.expr(d - 1)) for _ in range(n))
        if k == 3: self.tag('set'); return '{%s}' % ', '.join([self.nonconst(d - 1)] + [self.expr(d - 1) for _ in range(n)])
        self.tag('dict-const-keys'); return '{%s}' % ', '.join('%r: %s' % (kk, self.expr(d - 1)) for kk in ['a', 'b', 'c'][:n + 1])

    def compare(self, d):
        r = self.rng
        n = 1 if r.random() < 0.75 else r.randint(2, 3)
        if n > 1: self.tag('compare-chain')
        parts = [self.arith(d - 1)]
        for _ in range(n):
            op = r.choice(CMPOPS)
            self.tag('cmp-' + op.replace(' ', '-'))
            if op in ('in', 'not in') and r.random() < 0.5:
                k = r.randrange(3)
                if k == 0: self.tag('in-const-list'); rhs = r.choice(['[1, 2, 3]', "['a', 'b']"])
                elif k == 1: self.tag('in-const-tuple'); rhs = r.choice(['(1, 2, 3)', "('a', 'b')"])
                else: rhs = self.nested_gen(d)
            elif op in ('is', 'is not') and r.random() < 0.6:
                self.tag('is-none'); rhs = 'None'
            else:
                rhs = self.arith(d - 1)
            parts += [op, rhs]
        return '(%s)' % ' '.join(parts)

    def arith(self, d):
        r = self.rng
        if d <= 0: return self.name() if r.random() < 0.7 else self.const()
        k = r.randrange(10)
        if k < 3:
            op = r.choice(BINOPS); self.tag('binop ' + op)
            a, b = self.nonconst(d - 1), self.arith(d - 1)
            if r.random() < 0.5: a, b = b, a
            if op == '**' and a.startswith('-'): a = '(%s)' % a
            return '(%s %s %s)' % (a, op, b)
        if k == 3:
            op = r.choice(['-', '+', '~']); self.tag('unary ' + op)
            return '(%s%s)' % (op, self.nonconst(d - 1))
        if k == 4: return self.const()
        if k == 5: return self.call(d)
        if k == 6: return self.subscript(d)
        if k == 7: return self.fstring(d)
        if k == 8: self.tag('attribute'); return '%s.%s' % (self.primary(d - 1), r.choice(['a', 'b', 'name']))
        return self.name()

    def nested_gen(self, d):
        r = self.rng
        if self.gen_depth >= 2: return self.name()
        self.gen_depth += 1
        v = 'uvw'[self.gen_depth]
        self.vars.append(v)
        self.tag('nested-generator')
        src = self.primary(max(0, d - 2))
        cond = ''
        if r.random() < 0.5:
            self.tag('nested-generator-if'); cond = ' if %s' % self.compare(max(1, d - 1))
        text = '(%s for %s in %s%s)' % (self.arith(max(0, d - 1)), v, src, cond)
        self.vars.pop()
        self.gen_depth -= 1
        return text

    def expr(self, d):
        r = self.rng
        if d <= 0: return self.arith(0)
        k = r.randrange(12)
        if k < 5: return self.arith(d)
        if k < 7: return self.compare(d)
        if k == 7: return self.display(d)
        if k == 8:
            self.tag('call-with-generator'); return '%s(%s)' % (r.choice(['sum', 'max', 'select', 'exists']), self.nested_gen(d))
        if k == 9: return self.fstring(d)
        return self.primary(d)


def random_query(rng, feats, depth):
    """-> (form, text): a generator expression or lambda in the non-boolean grammar (nothing the compiler would fold)"""
    while True:
        f2 = {}
        form, text = _random_query(rng, f2, depth)
        with warnings.catch_warnings():
            warnings.simplefilter('ignore')
            tree = ast.parse(text, mode='eval')
        if foldable(tree): continue
        for k, v in f2.items(): feats[k] = feats.get(k, 0) + v
        return form, text


def _random_query(rng, feats, depth):
    form = rng.choice(['gen', 'gen', 'gen-if', 'gen-if', 'gen-2for', 'gen-2for-if', 'gen-tuple-target', 'gen-2if', 'lambda', 'lambda-args', 'gen-attr-iter'])
    feats['form ' + form] = feats.get('form ' + form, 0) + 1
    if form.startswith('lambda'):
        g = Gen(rng, ['x', 'y'] if form == 'lambda-args' else [], feats)
        return form, 'lambda%s: %s' % (' x, y' if form == 'lambda-args' else '', g.expr(depth))
    if form == 'gen-tuple-target':
        g = Gen(rng, ['x', 'y'], feats)
        return form, '(%s for x, y in T)' % g.expr(depth)
    if form in ('gen', 'gen-if'):
        g = Gen(rng, ['x'], feats)
        cond = ' if %s' % g.compare(depth) if form == 'gen-if' else ''
        return form, '(%s for x in T%s)' % (g.expr(depth), cond)
    if form == 'gen-attr-iter':
        g = Gen(rng, ['x', 'y'], feats)
        return form, '(%s for x in T for y in x.items if %s)' % (g.expr(depth), g.compare(depth))
    if form == 'gen-2if':
        g = Gen(rng, ['x'], feats)
        return form, '(%s for x in T if %s if %s)' % (g.expr(depth), g.compare(depth - 1), g.compare(depth - 1))
    g = Gen(rng, ['x', 'y'], feats)
    if form == 'gen-2for':
        return form, '(%s for x in T for y in U)' % g.expr(depth)
    return form, '(%s for x in T if %s for y in U if %s)' % (g.expr(depth), Gen(rng, ['x'], feats).compare(depth - 1), g.compare(depth - 1))


# hand-written cases: one per construct named in the statement, plus the generator sources of the repo's own
# pony.orm.decompiling.test_lines that contain no and/or/not/if-else (those go through the semantic checker instead)
FIXED_CASES = [
    "(func1(a, a.attr, x=123) for s in T)", "(func1(a, b, a.attr1, a.b.c, x=123, y='foo') for s in T)",
    "(a.b.c.d for a in T)", "(a.b().c[1].d(k=2) for a in T)",
    "(a[1:2] for b in T)", "(a[:2] for b in T)", "(a[2:] for b in T)", "(a[:] for b in T)", "(a[1:2:3] for b in T)",
    "(a[1:2, 3:4] for b in T)", "(a[2:4:6,6:8] for a, y in T)", "(a[2,v] for b in T if t - r > y[3])",
    "(a**2 for b in T if t * r > y / 3)", "(a + 2 for b in T if t + r > y // 3)", "((a + 2) * 3 for b in T if t[r, e] > y[3, r * 4, t])",
    "(a<<2 for b in T if t>>e > r & (y & u))", "(a|b for c in T1 if t^e > r | (y & (u & (w % z))))", "(-a @ b for c in T)",
    "([a, b, c] for d in T)", "([a, b, 4] for d in T if a[4, b] > b[1,v,3])", "((a, b, c) for d in T)", "({} for d in T)",
    "({'a' : x, 'b' : y} for a, b in T)", "(({'a' : x, 'b' : y}, {'c' : x1, 'd' : 1}) for a, b, c, d in T)",
    "([{'a' : x, 'b' : y}, {'c' : x1, 'd' : 1}] for a, b, c, d in T)", "({a, b} for c in T)", "({a: b, c: d} for e in T)",
    "(1 for x in T)", "('abc' for x in T)", "(1.5 for x in T)", "(None for x in T)", "(True for x in T)", "((1, 'a', None) for x in T)", "(-1 for x in T)",
    "(b'xy' for x in T)", "(... for x in T)", "(x for x in T if x.a == -3)", "(x for x in T if x.a in (1, 2, 3))", "(x for x in T if x.a in [1, 2, 3])",
    "(x for x in T if x.a not in ('a', 'b'))", "(x for x in T if x.a is None)", "(x for x in T if x.a is not None)",
    "(f'{x.a}' for x in T)", "(f'a{x.a}b' for x in T)", "(f'{x.a!r}' for x in T)", "(f'{x.a:>10}' for x in T)", "(f'{x.a:{w}}' for x in T)",
    "(f'{x.a}{x.b}' for x in T)", "(f'{x.a!s:>{w}}' for x in T)", "(x for x in T if f'{x.a}-{x.b}' == y)",
    "(a for a in T1 if a in (b for b in T2))", "(a for a in T1 if a in (b for b in T2 if b == a))", "(a for a in T1 if a in select(b for b in T2))",
    "(a for a in T1 if a in (b for b in T2 if b in (c for c in T3 if c == a)))", "(sum(y.v for y in x.items) for x in T)",
    "(max(y.v for y in x.items if y.w > 1) for x in T if count(z for z in x.others) > 2)",
    "(a for b in T)", "(a for b, c in T)", "(a for b in T1 for c in T2)", "(a for b in T1 for c in T2 for d in T3)", "(a for b in T if f)",
    "(a for b in T1 if c > d for e in T2 if f < g)", "(a.b.c for d.e.f.g in T)", "((x, y) for x in T for y in x.items if y.v > x.w)",
    "(x for x in T if a < b < c)", "(x for x in T if a < b <= c < d)", "(a < b < c for x in T)", "(x for x in T if a == b != c)", "(x for x in T if 1 < x.a < 10)",
    "lambda: a < b < c", "lambda x: x.a", "lambda x, y: x.a + y.b", "lambda: f(a, k=b)", "lambda x: x.name[1:3]", "lambda x: f'{x.a}'",
    "lambda x: (x.a, x.b)", "lambda x: x.a in (1, 2)", "lambda: {'a': b}", "lambda x: -x.a", "lambda x: +x.a", "lambda x: ~x.a",
    # (f(*args) / f(**kw) are not in the grammar the property names and Pony rejects every query that uses them - in the
    #  element of a generator only later, in the translator, because decompile() returns a tree with ifs=[None]; not checked)
]


# ------------------------------------------------------------------------------------------------ normalisation / comparison

class Norm(ast.NodeTransformer):
    """Undo CPython's own compile-time rewriting of constants, on BOTH trees:
    tuple constants <-> Tuple of constants; -<number literal> -> negative constant; `in [consts]` -> `in (consts)`;
    a `format_spec` that is a plain string constant <-> JoinedStr of that constant."""
    def visit_Constant(self, node):
        if isinstance(node.value, tuple):
            return ast.Tuple([self.visit(ast.Constant(v)) for v in node.value], ast.Load())
        if isinstance(node.value, frozenset):
            return ast.Set([self.visit(ast.Constant(v)) for v in sorted(node.value, key=repr)])
        return ast.Constant(node.value)

    def visit_UnaryOp(self, node):
        self.generic_visit(node)
        if isinstance(node.op, ast.USub) and isinstance(node.operand, ast.Constant) and type(node.operand.value) in (int, float):
            return ast.Constant(-node.operand.value)
        return node

    def visit_Compare(self, node):
        self.generic_visit(node)
        for i, (op, c) in enumerate(zip(node.ops, node.comparators)):
            if isinstance(op, (ast.In, ast.NotIn)) and isinstance(c, ast.List) and all(isinstance(e, ast.Constant) for e in c.elts):
                node.comparators[i] = ast.Tuple(c.elts, ast.Load())
            if isinstance(op, (ast.In, ast.NotIn)) and isinstance(c, ast.Set) and all(isinstance(e, ast.Constant) for e in c.elts):
                node.comparators[i] = ast.Set(sorted(c.elts, key=lambda e: repr(e.value)))
        return node

    def _fv(self, node):
        self.generic_visit(node)
        fs = node.format_spec
        if isinstance(fs, ast.Constant) and isinstance(fs.value, str):
            node.format_spec = ast.JoinedStr([fs]) if fs.value else None
        return node

    def visit_FormattedValue(self, node):
        # a one-piece f-string f'{x}' is compiled without BUILD_STRING and comes back as a bare FormattedValue
        return ast.JoinedStr([self._fv(node)])

    def visit_JoinedStr(self, node):
        vals = []
        for v in node.values:
            v = self._fv(v) if isinstance(v, ast.FormattedValue) else self.visit(v)
            if isinstance(v, ast.Constant) and isinstance(v.value, str):
                if v.value == '': continue
                # adjacent literal pieces are one literal
                if vals and isinstance(vals[-1], ast.Constant) and isinstance(vals[-1].value, str):
                    vals[-1] = ast.Constant(vals[-1].value + v.value); continue
            vals.append(v)
        if len(vals) == 1 and isinstance(vals[0], ast.Constant): return vals[0]     # f'abc' is the constant 'abc'
        if not vals: return ast.Constant('')
        return ast.JoinedStr(vals)

    def visit_Slice(self, node):
        self.generic_visit(node)
        for f in ('lower', 'upper', 'step'):
            v = getattr(node, f, None)
            if isinstance(v, ast.Constant) and v.value is None: setattr(node, f, None)     # x[None:None] is x[:]
        return ast.Slice(node.lower, node.upper, getattr(node, 'step', None))

    def visit_Call(self, node):
        self.generic_visit(node)
        if node.keywords is None: node.keywords = []          # "no keywords"
        if node.args is None: node.args = []
        kws = []
        for k in node.keywords:
            # f(*a, k=v) is compiled as f(*a, **{'k': v}); the two spellings are the same call
            if k.arg is None and isinstance(k.value, ast.Dict) and k.value.keys and all(isinstance(x, ast.Constant) and isinstance(x.value, str) for x in k.value.keys):
                kws.extend(ast.keyword(x.value, v) for x, v in zip(k.value.keys, k.value.values))
            else:
                kws.append(k)
        node.keywords = kws
        return node

    def visit_comprehension(self, node):
        self.generic_visit(node)
        # only the truth value of a condition is observable: `if not not c` is `if c`
        def strip2(c):
            while (isinstance(c, ast.UnaryOp) and isinstance(c.op, ast.Not) and isinstance(c.operand, ast.UnaryOp)
                   and isinstance(c.operand.op, ast.Not)):
                c = c.operand.operand
            return c
        node.ifs = [strip2(c) for c in node.ifs]
        if len(node.ifs) > 1:                      # `if a if b` is `if a and b`
            vals = []
            for c in node.ifs:
                if isinstance(c, ast.BoolOp) and isinstance(c.op, ast.And): vals.extend(c.values)
                else: vals.append(c)
            node.ifs = [ast.BoolOp(ast.And(), vals)]
        return node


def foldable(tree):
    """CPython folds operations on constants at compile time; such sources are not generated (the folded value is
    indistinguishable from a literal, there is nothing to decompile)."""
    for n in ast.walk(tree):
        if isinstance(n, ast.UnaryOp) and isinstance(n.operand, ast.Constant): return True
        if isinstance(n, ast.BinOp) and isinstance(n.left, ast.Constant) and isinstance(n.right, ast.Constant): return True
        if isinstance(n, ast.Subscript) and isinstance(n.value, ast.Constant): return True
        if isinstance(n, ast.Compare) and isinstance(n.left, ast.Constant) and all(isinstance(c, ast.Constant) for c in n.comparators): return True
    return False


def safe_dump(t):
    try:
        return ast.dump(t)
    except Exception as e:
        return None


def expected_tree(text):
    with warnings.catch_warnings():
        warnings.simplefilter('ignore')
        tree = ast.parse(text, mode='eval').body
    if isinstance(tree, ast.Lambda): tree = tree.body
    else: tree.generators[0].iter = ast.Name('.0', ast.Load())
    return tree


def first_diff(a, b, path='root'):
    """(path, source node type) of the first difference between two (normalised) trees"""
    if type(a) is not type(b):
        return path, type(a).__name__
    if isinstance(a, ast.AST):
        for name in a._fields:
            va, vb = getattr(a, name, None), getattr(b, name, None)
            if name in ('ctx', 'kind', 'type_comment'): continue
            d = first_diff(va, vb, '%s.%s' % (type(a).__name__, name))
            if d: return d
        return None
    if isinstance(a, list):
        if len(a) != len(b): return path + '[len]', 'list'
        for i, (x, y) in enumerate(zip(a, b)):
            d = first_diff(x, y, path)
            if d: return d
        return None
    if a != b or type(a) is not type(b): return path, type(a).__name__
    return None


def check(text):
    """-> ('exc', name) | ('ok', None) | ('wrong', (path, nodetype, got_unparsed)) | ('malformed', why)"""
    import c03_lib as L
    want = Norm().visit(expected_tree(text))
    try:
        got = L.real_decompile(text)
    except RecursionError:
        raise
    except Exception as e:
        return ('exc', type(e).__name__)
    if safe_dump(got) is None or not L.is_wellformed_expr(got):
        return ('malformed', 'tree is not a well-formed expression')
    import copy
    got = Norm().visit(copy.deepcopy(got))
    d = first_diff(want, got)
    if d is None: return ('ok', None)
    try: shown = ast.unparse(ast.fix_missing_locations(got))
    except Exception: shown = '<cannot unparse>'
    return ('wrong', (d[0], d[1], shown))


# ------------------------------------------------------------------------------------------------ shrinking / keys

SKIP_TYPES = ('Name', 'Constant', 'Load', 'Store', 'GeneratorExp', 'comprehension', 'Lambda', 'arguments', 'arg', 'Expression')


def _expr_slots(tree):
    """(parent, field, index) of every expression child that may be replaced"""
    out = []
    for node in ast.walk(tree):
        if isinstance(node, ast.Expression): continue          # the generator / lambda itself stays
        if isinstance(node, ast.comprehension):
            fields = ['iter', 'ifs']          # keep targets
        elif isinstance(node, (ast.Lambda,)):
            fields = ['body']
        elif isinstance(node, (ast.keyword, ast.Starred, ast.FormattedValue)):
            fields = ['value'] + (['format_spec'] if isinstance(node, ast.FormattedValue) else [])
        else:
            fields = list(node._fields)
        for f in fields:
            v = getattr(node, f, None)
            if isinstance(v, ast.expr) and not isinstance(v, ast.Name): out.append((node, f, None))
            elif isinstance(v, list):
                for i, x in enumerate(v):
                    if isinstance(x, ast.expr) and not isinstance(x, ast.Name): out.append((node, f, i))
    return out


def _text_variants(text):
    """one-step reductions of a query text: an expression child replaced by a name, or by one of its own sub-expressions,
    or (in a list) dropped; a tuple target replaced by a name; a later for-clause dropped"""
    import copy
    base = ast.parse(text, mode='eval')
    seen = set()
    def emit(t2):
        try:
            out = ast.unparse(ast.fix_missing_locations(t2))
            with warnings.catch_warnings():
                warnings.simplefilter('ignore')
                compile(out, '<c03-shrink>', 'eval')
        except Exception:
            return None
        if out not in seen and out != text and len(out) < len(text) + 4:
            seen.add(out); return out
        return None
    # clause-level reductions
    gens = [n for n in ast.walk(base) if isinstance(n, ast.GeneratorExp)]
    for gi, g in enumerate(gens):
        for ci, c in enumerate(g.generators):
            if isinstance(c.target, ast.Tuple):
                t2 = copy.deepcopy(base)
                g2 = [n for n in ast.walk(t2) if isinstance(n, ast.GeneratorExp)][gi]
                g2.generators[ci].target = ast.Name('x', ast.Store())
                o = emit(t2)
                if o: yield o
            if ci > 0:
                t2 = copy.deepcopy(base)
                g2 = [n for n in ast.walk(t2) if isinstance(n, ast.GeneratorExp)][gi]
                del g2.generators[ci]
                o = emit(t2)
                if o: yield o
    n = len(_expr_slots(base))
    for k in range(n):
        node, f, i = _expr_slots(base)[k]
        cur = getattr(node, f) if i is None else getattr(node, f)[i]
        if isinstance(node, ast.JoinedStr) or (isinstance(cur, ast.JoinedStr) and f == 'format_spec'):
            repl = []
        else:
            repl = [ast.Name('p', ast.Load())]
            for sub in ast.walk(cur):          # promote any sub-expression
                if sub is not cur and isinstance(sub, ast.expr) and not isinstance(sub, (ast.Slice, ast.Starred, ast.FormattedValue, ast.Name, ast.Constant)): repl.append(sub)
        if i is not None and not isinstance(node, (ast.Compare, ast.Dict, ast.BoolOp)):
            repl.append(None)       # drop the element
        if isinstance(node, ast.Compare) and f == 'comparators' and len(node.comparators) > 1:
            repl.append('drop-link')
        for r in repl:
            t2 = copy.deepcopy(base)
            node2, f2, i2 = _expr_slots(t2)[k]
            if r == 'drop-link':
                del node2.comparators[i2]; del node2.ops[i2]
            elif i2 is None:
                if r is None: continue
                setattr(node2, f2, copy.deepcopy(r))
            else:
                lst = getattr(node2, f2)
                if r is None: del lst[i2]
                else: lst[i2] = copy.deepcopy(r)
            o = emit(t2)
            if o: yield o


def status_of(text):
    r = check(text)
    if r[0] == 'wrong': return 'wrong:%s' % r[1][1]
    return r[0]


def shrink(text, st, cache):
    """greedy: shortest one-step reduction with the same failure status"""
    while True:
        best = None
        for v in sorted(_text_variants(text), key=lambda v: (len(v), v)):
            if v not in cache: cache[v] = status_of(v)
            if cache[v] == st:
                best = v; break
        if best is None: return text
        text = best


def struct_key(text, st):
    with warnings.catch_warnings():
        warnings.simplefilter('ignore')
        tree = ast.parse(text, mode='eval')
    kinds = set()
    for n in ast.walk(tree):
        nm = type(n).__name__
        if nm in SKIP_TYPES or isinstance(n, (ast.operator, ast.cmpop, ast.unaryop, ast.boolop, ast.expr_context)): continue
        if isinstance(n, ast.Compare) and len(n.ops) > 1: nm = 'CompareChain'
        kinds.add(nm)
    for g in ast.walk(tree):
        if isinstance(g, ast.comprehension) and isinstance(g.target, ast.Tuple): kinds.discard('Tuple') if not any(
            isinstance(x, ast.Tuple) and not isinstance(getattr(x, 'ctx', None), ast.Store) for x in ast.walk(tree)) else None
    form = 'lambda' if isinstance(tree.body, ast.Lambda) else 'generator'
    return 'struct:%s:%s:%s' % (form, st.split(':')[0], '+'.join(sorted(kinds)) or 'Name')
