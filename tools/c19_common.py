"""Shared by the C19 / C17 / C35 plugins: case generation, running the implementation driver (tools/c19_driver.py) in a
fresh interpreter, and serialising implementation observations as Coq literals for Model/C19Txn.v."""
import json, os, subprocess
import vlib

HEADER = ('From Coq Require Import List Bool Arith.\nImport ListNotations.\n'
          'Require Import PonyV.Model.C19Txn.\n')

SHAPES = {'opt': 'ShOpt', 'imm': 'ShImm', 'ser': 'ShSer', 'ddl': 'ShDdl', 'nonopt': 'ShImm'}
STMTS = {'fk_on': 'SFkOn', 'cslike': 'SCsLike', 'fk_get': 'SFkGet', 'fk_off': 'SFkOff', 'begin': 'SBegin', 'select': 'SSelect', 'write': 'SWrite'}
OPS = {'select': 'OSelect', 'load': 'OSelect', 'forupd': 'OForUpd', 'qforupd': 'OForUpd', 'new': 'ONew', 'set': 'ONew', 'del': 'ONew',
       'flush': 'OFlush', 'rawwrite': 'ORawWrite', 'rawupdate': 'ORawWrite', 'ddlwrite': 'ORawWrite', 'commit': 'OCommit', 'rollback': 'ORollback',
       'dbcommit': 'ODbCommit', 'dbrollback': 'ODbRollback', 'raise': 'ORaise', 'getconn': 'OGetConn'}
EXC = {'none': 'Ok', 'EDb': '(Err EDb)', 'EDrv': '(Err EDrv)', 'Other:UnexpectedError': '(Err EUnexp)', 'ECommit': '(Err ECommit)', 'ERollback': '(Err ERollback)',
       'EBody': '(Err EBody)', 'EAssert': '(Err EAssert)', 'EConnClosed': '(Err EConnClosed)', 'ERuntime': '(Err ERuntime)'}


class Unmodelled(Exception):
    pass


def cb(b): return 'true' if b else 'false'


def run_driver(payload, timeout=900):
    """tools/c19_driver.py in a fresh interpreter (it monkey-patches pony.orm.dbproviders.sqlite.sqlite and starts threads)."""
    tmp = '/tmp/builder-c19-run'
    os.makedirs(tmp, exist_ok=True)
    payload = dict(payload, tmp=tmp)
    return vlib.run_impl('c19_driver.py', payload, timeout=timeout)


def coq_event(ev):
    kind, stmt, con, ok, lock, txn = ev[:6]
    if kind == 'connect': call = 'KConnect'
    elif kind == 'cursor': call = 'KCursor'
    elif kind == 'commit': call = 'KCommit'
    elif kind == 'rollback': call = 'KRollback'
    elif kind == 'close': call = 'KClose'
    elif kind == 'execute':
        if stmt not in STMTS: raise Unmodelled('statement kind %r' % stmt)
        call = '(KExecute %s)' % STMTS[stmt]
    else:
        raise Unmodelled('DB-API call %r' % kind)
    return 'ev5 %s %d %s %s %s' % (call, con, cb(ok), cb(lock), cb(txn))


def coq_body(ops):
    return '[' + '; '.join('(%s, %s)' % (OPS[o[0]], cb(o[1])) for o in ops) + ']'


def coq_sessions(case):
    ses = [[case['shape'], case['ops']]] + list(case.get('more', []))
    return '[' + '; '.join('(%s, %s)' % (SHAPES[sh], coq_body(ops)) for sh, ops in ses) + ']'


def coq_faults(fs):
    return '[' + '; '.join(str(k) for k in fs) + ']'


def coq_observation(out):
    """Observation of one `sessions`-mode case as a Coq `observation` literal."""
    a = out['after']
    exc = out['sessions'][-1]['exc']
    if exc not in EXC: raise Unmodelled('exception %r leaves the session' % exc)
    ncon = len(a['closes'])
    closes = [a['closes'][str(i)] for i in range(ncon)] if all(str(i) in a['closes'] for i in range(ncon)) else None
    if closes is None: raise Unmodelled('connection ids %r' % sorted(a['closes']))
    pr = out.get('pragmas')
    if a['pool'] is None: pragmas = '(false, false)'
    else:
        if not pr or 'error' in pr: raise Unmodelled('pragmas of the pooled connection: %r' % (pr,))
        pragmas = '(%s, %s)' % (cb(pr['fk']), cb(pr['case_sensitive_like']))
    return 'Obs [%s] %s %s %s %s [%s] %s false' % (
        '; '.join(coq_event(e) for e in out['trace']), EXC[exc], cb(a['lock']),
        'None' if a['pool'] is None else '(Some %d)' % a['pool'], pragmas,
        '; '.join(str(c) for c in closes), cb(not a['db2cache_empty']))


def coq_case(case, out):
    """bool: the model run on the same sessions and faults yields exactly the implementation's observation."""
    start = 'st_pooled' if case.get('start', 'pooled') == 'pooled' else 'st_empty'
    return 'obs_eqb (observe (run_sessions (faults_oracle %s) %s %s)) (%s)' % (
        coq_faults(case.get('faults', [])), coq_sessions(case), start, coq_observation(out))


def run_bools(ctx, exprs, chunk=400, name='cases', header=HEADER):
    """exprs: Coq bool terms. Returns indexes whose value is not `true` (evaluated by vm_compute inside coqc)."""
    chunks = []
    for i in range(0, len(exprs), chunk):
        part = exprs[i:i + chunk]
        chunks.append('Definition cases : list bool := [\n' + ';\n'.join(part) + '].\nEval vm_compute in (failing cases).\n')
    if not chunks: return []
    outs = vlib.coq_eval_many(ctx, header, chunks, name=name)
    bad = []
    for k, out in enumerate(outs):
        vals = vlib.parse_eval_outputs(out)
        assert len(vals) == 1, out[-500:]
        body = vals[0].strip()
        assert body.startswith('['), body
        inner = body.strip('[]').strip()
        if inner:
            for tok in inner.split(';'):
                bad.append(k * chunk + int(tok.strip().replace('%nat', '')))
    return bad


def model_observation(ctx, case):
    """Ask Coq for the model's observation of one case (debugging aid for disagreements; small output)."""
    start = 'st_pooled' if case.get('start', 'pooled') == 'pooled' else 'st_empty'
    text = HEADER + 'Eval vm_compute in (observe (run_sessions (faults_oracle %s) %s %s)).\n' % (
        coq_faults(case.get('faults', [])), coq_sessions(case), start)
    out = vlib.coq_eval(ctx, text, name='dbg')
    vals = vlib.parse_eval_outputs(out)
    return vals[0] if vals else out[-1500:]


# ------------------------------------------------------------------------------------------------ anomalies (property oracle)

def session_anomalies(case, out):
    """Property-level oracle for C19 on one executed case: list of (key, what)."""
    res = []
    a = out['after']
    faults = ','.join(str(k) for k in case.get('faults', []))
    tag = '%s/%s' % (case['shape'], case.get('start', 'pooled'))
    def fault_calls():
        names = []
        for k in case.get('faults', []):
            if k < len(out['trace']):
                e = out['trace'][k]
                names.append(e[0] + (':' + e[1] if e[1] else ''))
        return '+'.join(names) or 'none'
    where = fault_calls()
    if a['lock']:
        res.append(('lock-left-held:%s' % where, 'provider.transaction_lock is still held after the session (%s, faults at calls [%s] = %s)' % (tag, faults, where)))
    if a['prelock']:
        res.append(('prelock-left-held:%s' % where, 'provider.pre_transaction_lock is still held after the session (%s, faults [%s])' % (tag, faults)))
    if not a['db2cache_empty']:
        res.append(('cache-left-registered:%s' % where, 'local.db2cache still holds the session cache after the session (%s, faults [%s] = %s)' % (tag, faults, where)))
    if not a['db_session_none'] or a['counter'] != 0:
        res.append(('db-session-left-open:%s' % where, 'local.db_session / db_context_counter not reset (%s, faults [%s])' % (tag, faults)))
    for cid, n in sorted(a['closes'].items()):
        if n > 1:
            res.append(('connection-closed-twice:%s' % where, 'connection %s was closed %d times (%s, faults [%s] = %s)' % (cid, n, tag, faults, where)))
        if n == 0 and a['pool'] != int(cid):
            res.append(('connection-leaked:%s' % where, 'connection %s is neither in the pool nor closed (%s, faults [%s] = %s)' % (cid, tag, faults, where)))
        if n >= 1 and a['pool'] == int(cid):
            res.append(('closed-connection-in-pool:%s' % where, 'connection %s was closed but is still pool.con (%s, faults [%s] = %s)' % (cid, tag, faults, where)))
    # the pooled connection must be rolled back: last driver call on it is a successful rollback (or it was never used)
    if a['pool'] is not None:
        evs = [e for e in out['trace'] if e[2] == a['pool'] and e[0] != 'connect']
        used = [e for e in evs if e[0] in ('execute', 'commit', 'rollback')]
        begun = any(e[0] == 'execute' and e[1] == 'begin' and e[3] for e in evs)
        if begun:
            last_end = None
            for e in evs:
                if e[0] in ('commit', 'rollback') and e[3]: last_end = e
                if e[0] == 'execute' and e[1] == 'begin' and e[3]: last_end = None
            if last_end is None:
                res.append(('pooled-with-open-transaction:%s' % where, 'connection returned to the pool with an open transaction (%s, faults [%s] = %s)' % (tag, faults, where)))
        pr = out.get('pragmas')
        if pr and 'error' not in pr and (pr['fk'] != 1 or pr['case_sensitive_like'] != 1):
            res.append(('pool-keeps-half-initialised-connection:%s' % ('fk_on' if pr['fk'] != 1 else 'cslike'),
                        'a connection whose initialisation failed stays in the pool and is handed to later sessions (foreign_keys=%s, case_sensitive_like=%s; %s, faults [%s] = %s)'
                        % (pr['fk'], pr['case_sensitive_like'], tag, faults, where)))
    if out.get('follow_other') != 'ok':
        res.append(('following-session-other-thread-%s:%s' % (out.get('follow_other'), where), 'a following session in another thread does not work: %s (%s, faults [%s] = %s)' % (out.get('follow_other'), tag, faults, where)))
    if out.get('follow_same') not in ('ok',):
        res.append(('following-session-same-thread-%s:%s' % (out.get('follow_same'), where), 'a following session in the same thread does not work: %s (%s, faults [%s] = %s)' % (out.get('follow_same'), tag, faults, where)))
    return res
