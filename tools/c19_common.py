"""Shared by the C19 / C17 / C35 plugins: case generation, running the implementation driver (tools/c19_driver.py) in a
fresh interpreter, and serialising implementation observations as Coq literals for Model/C19Txn.v."""
import json, os, subprocess
import vlib

HEADER = ('From Coq Require Import List Bool Arith.\nImport ListNotations.\n'
          'Require Import PonyV.Model.C19Txn.\n')

SHAPES = {'opt': 'ShOpt', 'imm': 'ShImm', 'ser': 'ShSer', 'ddl': 'ShDdl', 'nonopt': 'ShImm'}
STMTS = {'fk_on': 'SFkOn', 'cslike': 'SCsLike', 'fk_get': 'SFkGet', 'fk_off': 'SFkOff', 'begin': 'SBegin', 'select': 'SSelect', 'write': 'SWrite'}
OPS = {'select': 'OSelect', 'load': 'OSelect', 'loadu': 'OSelect', 'forupd': 'OForUpd', 'qforupd': 'OForUpd', 'new': 'ONew', 'set': 'ONew', 'del': 'ONew',
       'flush': 'OFlush', 'rawwrite': 'ORawWrite', 'rawupdate': 'ORawWrite', 'ddlwrite': 'ORawWrite', 'commit': 'OCommit', 'rollback': 'ORollback',
       'dbcommit': 'ODbCommit', 'dbrollback': 'ODbRollback', 'raise': 'ORaise', 'getconn': 'OGetConn'}
EXC = {'none': 'Ok', 'EDb': '(Err EDb)', 'EDrv': '(Err EDrv)', 'Other:UnexpectedError': '(Err EUnexp)', 'ECommit': '(Err ECommit)', 'ERollback': '(Err ERollback)',
       'EBody': '(Err EBody)', 'Other:AttributeError': '(Err EAttr)', 'Other:NotImplementedError': '(Err ENotImpl)', 'EAssert': '(Err EAssert)', 'EConnClosed': '(Err EConnClosed)', 'ERuntime': '(Err ERuntime)'}


OUT = dict(EXC, ok='Ok')


START = {'pooled': 'st_pooled', 'none': 'st_disconnected', 'fresh': 'st_empty'}


class Unmodelled(Exception):
    pass


def cb(b): return 'true' if b else 'false'


def run_driver(payload, timeout=None):
    """tools/c19_driver.py in a fresh interpreter (it monkey-patches pony.orm.dbproviders.sqlite.sqlite and starts threads).
    Long lists of cases are run in chunks.  The time limits are backstops against a hung harness only (3 h per chunk): nothing is
    ever classified by an expiring timeout - blocking is observed on the lock, and a slow machine only makes the run slower."""
    tmp = '/dev/shm/builder-c19-run' if os.path.isdir('/dev/shm') and os.access('/dev/shm', os.W_OK) else '/tmp/builder-c19-run'
    os.makedirs(tmp, exist_ok=True)
    limit = 3 * 3600
    cases = payload.get('cases')
    if not isinstance(cases, list) or len(cases) <= 400:
        return vlib.run_impl('c19_driver.py', dict(payload, tmp=tmp, total_timeout=limit), timeout=limit + 60)
    out = []
    for i in range(0, len(cases), 400):
        out += vlib.run_impl('c19_driver.py', dict(payload, cases=cases[i:i + 400], tmp=tmp, total_timeout=limit), timeout=limit + 60)
    return out


def coq_event(ev):
    kind, stmt, con, ok, lock, txn = ev[:6]
    if kind == 'connect': call = 'KConnect'
    elif kind == 'cursor': call = 'KCursor'
    elif kind == 'commit': call = 'KCommit'
    elif kind == 'rollback': call = 'KRollback'
    elif kind == 'close': call = 'KClose'
    elif kind in ('execute', 'executemany'):
        if stmt not in STMTS: raise Unmodelled('statement kind %r' % stmt)
        call = '(%s %s)' % ('KExecute' if kind == 'execute' else 'KExecMany', STMTS[stmt])
    else:
        raise Unmodelled('DB-API call %r' % kind)
    return 'ev5 %s %d %s %s %s' % (call, con, cb(ok), cb(lock), cb(txn))


LOCKING = {'forupd': lambda a: a, 'forupd_u': lambda a: a, 'forupd_c': lambda a: a}


def model_ops(ops, outcomes=None):
    """the model operations of a body.  Locking lookups become OGetFU cached locked, the flags coming from a replay of the
    body's own history (which objects this cache has loaded / locked so far, given how the earlier operations ended);
    link / unlink = the SELECT the collection makes, then the pending many-to-many change."""
    out, loaded, locked = [], set(), set()
    loaded_w, locked_w = set(), set()
    for i, o in enumerate(ops):
        op, catch, arg = o[0], o[1], o[2]
        res = outcomes[i] if outcomes is not None and i < len(outcomes) else 'ok'
        if op in LOCKING:
            out.append('(OGetFU %s %s, %s)' % (cb(arg in loaded), cb(arg in locked), cb(catch)))
            if res == 'ok': loaded.add(arg); locked.add(arg)
        elif op == 'forupd_r':
            # W.get_for_update(t=T[k]): T[k] is loaded if needed, the reverse attribute loads W[k] if needed, then the locking lookup
            if catch: raise Unmodelled('forupd_r with a caught exception')
            if arg not in loaded: out.append('(OSelect, false)')
            if arg not in loaded_w: out.append('(OSelect, false)')
            out.append('(OGetFU true %s, false)' % cb(arg in locked_w))
            if res == 'ok': loaded.add(arg); loaded_w.add(arg); locked_w.add(arg)
        elif op == 'forupd_rt':
            # T.get_for_update(w=W[k]): W[k] is loaded if needed; T is found through the reverse attribute, usable only if already locked
            if arg not in loaded_w: out.append('(OSelect, %s)' % cb(catch))
            out.append('(OGetFURev %s, %s)' % (cb(arg in locked), cb(catch)))
            loaded_w.add(arg)
        elif op == 'loadw':
            out.append('(OSelect, %s)' % cb(catch))
            if res == 'ok': loaded_w.add(arg)
        elif op in ('link', 'unlink'):
            if catch: raise Unmodelled('link/unlink with a caught exception')
            out.append('(OSelect, false)'); out.append('(%s, false)' % ('OLink' if op == 'link' else 'OUnlink'))
        else:
            out.append('(%s, %s)' % (OPS[op], cb(catch)))
            if op == 'load' and res == 'ok': loaded.add(arg)
            if op == 'qforupd' and res == 'ok': loaded.add(arg); locked.add(arg)
            if op in ('commit', 'dbcommit'):
                if res == 'ok': locked.clear(); locked_w.clear()
                else: loaded.clear(); locked.clear(); loaded_w.clear(); locked_w.clear()
            if op in ('rollback', 'dbrollback'): loaded.clear(); locked.clear(); loaded_w.clear(); locked_w.clear()
    return out


def coq_body(ops, outcomes=None):
    return '[' + '; '.join(model_ops(ops, outcomes)) + ']'


def coq_sessions(case, out=None):
    ses = [[case['shape'], case['ops']]] + list(case.get('more', []))
    outs = [x['outcomes'] for x in out['sessions']] if out is not None else [None] * len(ses)
    return '[' + '; '.join('(%s, %s)' % (SHAPES[sh], coq_body(ops, oc)) for (sh, ops), oc in zip(ses, outs)) + ']'


def coq_faults(fs):
    return '[' + '; '.join(str(k) for k in fs) + ']'


def coq_observation(out):
    """Observation of one `sessions`-mode case as a Coq `observation` literal."""
    a = out['after']
    exc = out['sessions'][-1]['exc']
    if exc not in EXC: raise Unmodelled('exception %r leaves the session' % exc)
    ncon = len(a['closes'])
    closes = [a['closes'][str(i)] for i in range(ncon)] if all(str(i) in a['closes'] for i in range(ncon)) else None
    if closes is None: raise Unmodelled('connection ids %r' % sorted(a['closes']))
    pr = out.get('pragmas')
    if a['pool'] is None: pragmas = '(false, false)'
    else:
        if not pr or 'error' in pr: raise Unmodelled('pragmas of the pooled connection: %r' % (pr,))
        pragmas = '(%s, %s)' % (cb(pr['fk']), cb(pr['case_sensitive_like']))
    return 'Obs [%s] %s %s %s %s [%s] %s false' % (
        '; '.join(coq_event(e) for e in out['trace']), EXC[exc], cb(a['lock']),
        'None' if a['pool'] is None else '(Some %d)' % a['pool'], pragmas,
        '; '.join(str(c) for c in closes), cb(not a['db2cache_empty']))


def coq_case(case, out):
    """bool: the model run on the same sessions and faults yields exactly the implementation's observation."""
    start = START[case.get('start', 'pooled')]
    faults = sorted(set(case.get('faults', [])) | set(out.get('real_failures', [])))      # injected + the driver's own failures
    if case.get('disconnect_after_first'):
        # first session; Database.disconnect(); the remaining sessions
        ses = [[case['shape'], case['ops']]] + list(case.get('more', []))
        outs = [x['outcomes'] for x in out['sessions']]
        first = '[(%s, %s)]' % (SHAPES[ses[0][0]], coq_body(ses[0][1], outs[0]))
        rest = '[' + '; '.join('(%s, %s)' % (SHAPES[sh], coq_body(ops, oc)) for (sh, ops), oc in zip(ses[1:], outs[1:])) + ']'
        o = 'faults_oracle %s' % coq_faults(faults)
        return 'obs_eqb (observe (run_sessions (%s) %s (snd (db_disconnect (%s) (snd (run_sessions (%s) %s %s)))))) (%s)' % (
            o, rest, o, o, first, start, coq_observation(out))
    return 'obs_eqb (observe (run_sessions (faults_oracle %s) %s %s)) (%s)' % (
        coq_faults(faults), coq_sessions(case, out), start, coq_observation(out))


def run_bools(ctx, exprs, chunk=400, name='cases', header=HEADER):
    """exprs: Coq bool terms. Returns indexes whose value is not `true` (evaluated by vm_compute inside coqc)."""
    chunks = []
    for i in range(0, len(exprs), chunk):
        part = exprs[i:i + chunk]
        chunks.append('Definition cases : list bool := [\n' + ';\n'.join(part) + '].\nEval vm_compute in (failing cases).\n')
    if not chunks: return []
    outs = vlib.coq_eval_many(ctx, header, chunks, name=name)
    bad = []
    for k, out in enumerate(outs):
        vals = vlib.parse_eval_outputs(out)
        assert len(vals) == 1, out[-500:]
        body = vals[0].strip()
        assert body.startswith('['), body
        inner = body.strip('[]').strip()
        if inner:
            for tok in inner.split(';'):
                bad.append(k * chunk + int(tok.strip().replace('%nat', '')))
    return bad


def model_observation(ctx, case):
    """Ask Coq for the model's observation of one case (debugging aid for disagreements; small output)."""
    start = START[case.get('start', 'pooled')]
    text = HEADER + 'Eval vm_compute in (observe (run_sessions (faults_oracle %s) %s %s)).\n' % (
        coq_faults(case.get('faults', [])), coq_sessions(case), start)
    out = vlib.coq_eval(ctx, text, name='dbg')
    vals = vlib.parse_eval_outputs(out)
    return vals[0] if vals else out[-1500:]


# ------------------------------------------------------------------------------------------------ anomalies (property oracle)

def session_anomalies(case, out):
    """Property-level oracle for C19 on one executed case: list of (key, what)."""
    res = []
    a = out['after']
    faults = ','.join(str(k) for k in case.get('faults', []))
    tag = '%s/%s' % (case['shape'], case.get('start', 'pooled'))
    def fault_calls():
        names = []
        for k in sorted(set(case.get('faults', [])) | set(out.get('real_failures', []))):
            if k < len(out['trace']):
                e = out['trace'][k]
                names.append(e[0] + (':' + e[1] if e[1] else ''))
        return '+'.join(names) or 'none'
    where = fault_calls()
    exc = out['sessions'][-1]['exc']
    if any(x['exc'] == 'ERuntime' for x in out['sessions']):
        res.append(('protocol-error-leaves-session:%s' % where, 'a RuntimeError (release of an unlocked lock) left the session (%s, faults [%s] = %s)' % (tag, faults, where)))
    # a session none of whose own DB-API calls failed and whose body does not raise must succeed, whatever happened in the sessions before it
    allf = set(case.get('faults', [])) | set(out.get('real_failures', []))
    sess_ops = [case['ops']] + [x[1] for x in case.get('more', [])]
    lo = 0
    for si, x in enumerate(out['sessions']):
        hi = x['calls']
        own = [k for k in allf if lo <= k < hi]
        if not own and x['exc'] != 'none' and si < len(sess_ops) and not any(op[0] == 'raise' for op in sess_ops[si]):
            res.append(('fault-free-session-fails:%s:%s' % (x['exc'], 'first' if si == 0 else 'after-%s' % where),
                        'session %d met no failing DB-API call and its body does not raise, yet it ends with %s (%s; failures of earlier sessions: [%s] = %s)' % (si, x['exc'], tag, faults, where)))
            break
        lo = hi
    if out.get('ext_writer') is not None:
        ew = out['ext_writer']
        if not ew.get('committed') or ew.get('status') != 0 or not any(r[1] == 777 for r in out.get('rows_after', [])):
            res.append(('other-process-commit-lost:%s' % where, 'the write committed by another process while the session was failing is not in the file (%s, %r)' % (tag, ew)))
    if out.get('disconnect') not in (None, 'ok') and not [k for k in allf if k >= out['sessions'][0]['calls'] and k < out.get('disconnect_calls', 0)]:
        res.append(('disconnect-fails:%s' % out['disconnect'], 'Database.disconnect() between two sessions raised %s although none of its calls failed (%s)' % (out['disconnect'], tag)))
    for ev in out.get('lock_events', []):
        if ev[0] == 'self-deadlock':
            res.append(('session-deadlock:%s' % where, 'the session asks for the provider lock while holding it itself: it would wait forever (%s, faults [%s] = %s)' % (tag, faults, where)))
            break
        res.append(('provider-lock-%s:%s' % (ev[0], where), 'the provider lock was released %s (%s, faults [%s] = %s)' %
                    ('while it was not held (released twice)' if ev[0] == 'release-of-unlocked-lock' else 'by a thread that does not hold it (lock of %s taken away)' % (ev[2] if len(ev) > 2 else '?'), tag, faults, where)))
        break
    if a['lock']:
        res.append(('lock-left-held:%s' % where, 'provider.transaction_lock is still held after the session (%s, faults at calls [%s] = %s)' % (tag, faults, where)))
    if a['prelock']:
        res.append(('prelock-left-held:%s' % where, 'provider.pre_transaction_lock is still held after the session (%s, faults [%s])' % (tag, faults)))
    if not a['db2cache_empty']:
        res.append(('cache-left-registered:%s' % where, 'local.db2cache still holds the session cache after the session (%s, faults [%s] = %s)' % (tag, faults, where)))
    if not a['db_session_none'] or a['counter'] != 0:
        res.append(('db-session-left-open:%s' % where, 'local.db_session / db_context_counter not reset (%s, faults [%s])' % (tag, faults)))
    for cid, n in sorted(a['closes'].items()):
        if n > 1:
            res.append(('connection-closed-twice:%s' % where, 'connection %s was closed %d times (%s, faults [%s] = %s)' % (cid, n, tag, faults, where)))
        if n == 0 and a['pool'] != int(cid):
            res.append(('connection-leaked:%s' % where, 'connection %s is neither in the pool nor closed (%s, faults [%s] = %s)' % (cid, tag, faults, where)))
        if n >= 1 and a['pool'] == int(cid):
            res.append(('closed-connection-in-pool:%s' % where, 'connection %s was closed but is still pool.con (%s, faults [%s] = %s)' % (cid, tag, faults, where)))
    # the pooled connection must be rolled back: last driver call on it is a successful rollback (or it was never used)
    if a['pool'] is not None:
        evs = [e for e in out['trace'] if e[2] == a['pool'] and e[0] != 'connect']
        used = [e for e in evs if e[0] in ('execute', 'commit', 'rollback')]
        begun = any(e[0] == 'execute' and e[1] == 'begin' and e[3] for e in evs)
        if begun:
            last_end = None
            for e in evs:
                if e[0] in ('commit', 'rollback') and e[3]: last_end = e
                if e[0] == 'execute' and e[1] == 'begin' and e[3]: last_end = None
            if last_end is None:
                res.append(('pooled-with-open-transaction:%s' % where, 'connection returned to the pool with an open transaction (%s, faults [%s] = %s)' % (tag, faults, where)))
        ends = [e for e in evs if e[0] in ('commit', 'rollback')]
        if ends and not ends[-1][3]:
            res.append(('pooled-after-failed-%s:%s' % (ends[-1][0], where), 'the connection stays in the pool although its last %s() failed (%s, faults [%s] = %s)' % (ends[-1][0], tag, faults, where)))
        pr = out.get('pragmas')
        if pr and 'error' not in pr and (pr['fk'] != 1 or pr['case_sensitive_like'] != 1):
            res.append(('pool-keeps-half-initialised-connection:%s' % ('fk_on' if pr['fk'] != 1 else 'cslike'),
                        'a connection whose initialisation failed stays in the pool and is handed to later sessions (foreign_keys=%s, case_sensitive_like=%s; %s, faults [%s] = %s)'
                        % (pr['fk'], pr['case_sensitive_like'], tag, faults, where)))
    # a ddl session that switched foreign keys off on a connection must try to switch them on again before it gives the connection up
    off = {}
    for e in out['trace']:
        if e[0] == 'execute' and e[1] == 'fk_off' and e[3]: off[e[2]] = True
        elif e[0] == 'execute' and e[1] == 'fk_on' and off.get(e[2]): off[e[2]] = False
        elif e[0] == 'close' and off.get(e[2]):
            # allowed only when the release itself was never reached (the connection was dropped by an error path)
            if not case.get('faults') and not out.get('real_failures'):
                res.append(('ddl-foreign-keys-not-restored:%s' % case['shape'], 'a ddl session switched PRAGMA foreign_keys off and released the connection without switching it on again (%s, ops %s)' % (tag, case['ops'])))
            off[e[2]] = False
    if out.get('follow_other') != 'ok':
        res.append(('following-session-other-thread-%s:%s' % (out.get('follow_other'), where), 'a following session in another thread does not work: %s (%s, faults [%s] = %s)' % (out.get('follow_other'), tag, faults, where)))
    if out.get('follow_same') not in ('ok',):
        pr = out.get('pragmas')
        if out.get('follow_same') == 'exc:AttributeError' and case.get('start') == 'fresh' and a['pool'] is not None and pr and (pr.get('fk') != 1 or pr.get('case_sensitive_like') != 1):
            res.append(('later-sessions-fail-after-failed-connection-init:AttributeError-pool-pid',
                        'in a thread that never connected before, after a failed connection initialisation every later session fails with '
                        "AttributeError: 'SQLitePool' object has no attribute 'pid' (%s, faults [%s] = %s)" % (tag, faults, where)))
        else:
            res.append(('following-session-same-thread-%s:%s' % (out.get('follow_same'), where), 'a following session in the same thread does not work: %s (%s, faults [%s] = %s)' % (out.get('follow_same'), tag, faults, where)))
    return res


# ------------------------------------------------------------------------------------------------ case generation

TEMPLATES = {
    'opt': [
        ('ro', [['select', False, 0]]),
        ('write', [['select', False, 0], ['new', False, 5], ['rawwrite', False, 7]]),
        ('commit-more', [['new', False, 5], ['commit', False, 0], ['select', False, 0], ['new', False, 6]]),
        ('rollback-more', [['new', False, 5], ['flush', False, 0], ['rollback', False, 0], ['select', False, 0], ['new', False, 6]]),
        ('catch', [['rawwrite', True, 5], ['new', True, 1], ['flush', True, 0], ['select', True, 0], ['commit', True, 0], ['rawwrite', True, 0]]),
        ('forupd', [['forupd', False, 1], ['new', False, 2], ['qforupd', False, 3]]),
        ('dbcommit', [['new', False, 1], ['dbcommit', True, 0], ['rawwrite', False, 2], ['dbrollback', True, 0], ['select', False, 0]]),
        ('getconn', [['getconn', False, 0], ['new', False, 3]]),
        ('raise', [['new', False, 5], ['flush', False, 0], ['raise', False, 0]]),
        ('m2m-only', [['load', False, 2], ['loadu', False, 2], ['link', False, [2, 2]], ['flush', False, 0], ['select', False, 0], ['raise', False, 0]]),
        ('m2m-mixed', [['load', False, 1], ['loadu', False, 1], ['unlink', False, [1, 1]], ['new', False, 4], ['loadu', False, 3], ['link', False, [1, 3]], ['commit', False, 0], ['select', False, 0]]),
        ('lock-routes-reverse', [['load', False, 1], ['forupd_r', False, 1], ['forupd_r', False, 1], ['loadw', False, 2], ['forupd_rt', True, 2], ['forupd', False, 2], ['forupd_rt', False, 2],
                                 ['commit', False, 0], ['forupd_rt', True, 2], ['forupd_r', False, 2]]),
        ('lock-routes', [['load', False, 2], ['forupd_u', False, 2], ['forupd_c', False, 3], ['forupd', True, 3], ['forupd_u', False, 4], ['commit', False, 0], ['forupd_c', False, 2]]),
    ],
    'imm': [
        ('write', [['select', False, 0], ['new', False, 5]]),
        ('raise', [['new', False, 5], ['flush', False, 0], ['raise', False, 0]]),
        ('catch', [['select', True, 0], ['rawwrite', True, 1], ['commit', True, 0], ['new', True, 2], ['rollback', True, 0], ['select', True, 0]]),
    ],
    'ser': [
        ('forupd', [['forupd', False, 2], ['new', False, 5]]),
        ('read', [['select', False, 0]]),
        ('catch', [['select', True, 0], ['forupd', True, 1], ['commit', True, 0], ['rawwrite', True, 2]]),
    ],
    'ddl': [
        ('ddl', [['ddlwrite', False, 1]]),
        ('ddl-more', [['ddlwrite', True, 1], ['commit', True, 0], ['ddlwrite', True, 2], ['new', False, 1]]),
        ('raise', [['ddlwrite', False, 1], ['raise', False, 0]]),
    ],
}


def random_body(rng, shape, n):
    ops, fu = [], 1
    for _ in range(n):
        r = rng.random()
        catch = rng.random() < 0.5
        if r < 0.18: ops.append(['select', catch, 0])
        elif r < 0.36: ops.append(['new', catch, rng.randrange(1, 9)])
        elif r < 0.46: ops.append(['flush', catch, 0])
        elif r < 0.60: ops.append(['ddlwrite' if shape == 'ddl' else 'rawwrite', catch, rng.randrange(1, 9)])
        elif r < 0.68: ops.append(['commit', catch, 0])
        elif r < 0.75: ops.append(['rollback', catch, 0])
        elif r < 0.80: ops.append(['dbcommit', catch, 0])
        elif r < 0.84: ops.append(['dbrollback', catch, 0])
        elif r < 0.92 and fu <= 6:
            ops.append(['forupd' if rng.random() < 0.6 else 'qforupd', catch, fu]); fu += 1
        elif r < 0.96: ops.append(['getconn', catch, 0])
        else:
            ops.append(['raise', catch, 0])
            if not catch: break
    return ops or [['select', False, 0]]


READER_CASES = [
    # the COMMIT fails for real ('database is locked': another connection keeps a read transaction open), then the reader goes away
    {'shape': 'imm', 'start': 'none', 'ops': [['rawwrite', False, 1]], 'reader': 'first', 'more': [['imm', [['rawwrite', False, 2]]]], 'name': 'commit-locked/imm'},
    {'shape': 'opt', 'start': 'pooled', 'ops': [['new', False, 1], ['rawwrite', False, 2]], 'reader': 'first', 'more': [['opt', [['new', False, 3]]], ['ser', [['forupd', False, 1]]]], 'name': 'commit-locked/opt'},
    {'shape': 'opt', 'start': 'fresh', 'ops': [['new', False, 1], ['commit', True, 0], ['select', False, 0], ['new', False, 2], ['commit', True, 0]], 'reader': 'all', 'name': 'commit-locked/caught'},
    {'shape': 'ddl', 'start': 'none', 'ops': [['ddlwrite', False, 1]], 'reader': 'first', 'more': [['imm', [['rawwrite', False, 2]]]], 'name': 'commit-locked/ddl'},
    # ANOTHER PROCESS holds BEGIN IMMEDIATE during the first session: Pony's own BEGIN IMMEDIATE fails ('database is locked' after the busy timeout);
    # after the other process has committed, the next session works and both writes are in the file
    {'shape': 'opt', 'start': 'none', 'ops': [['select', False, 0], ['new', False, 1], ['rawwrite', True, 2], ['select', False, 0]], 'ext_writer': 'first',
     'more': [['imm', [['rawwrite', False, 3]]]], 'name': 'other-process-writes/opt'},
    {'shape': 'ser', 'start': 'pooled', 'ops': [['select', False, 0]], 'ext_writer': 'first', 'more': [['opt', [['new', False, 4]]]], 'name': 'other-process-writes/ser'},
    {'shape': 'imm', 'start': 'fresh', 'ops': [['forupd', False, 1]], 'ext_writer': 'first', 'more': [['imm', [['forupd', False, 1], ['rawupdate', False, 1]]]], 'name': 'other-process-writes/imm'},
    # Database.disconnect() between two sessions
    {'shape': 'opt', 'start': 'pooled', 'ops': [['new', False, 1]], 'disconnect_after_first': True, 'more': [['imm', [['rawwrite', False, 2]]]], 'name': 'disconnect/opt'},
    {'shape': 'ddl', 'start': 'none', 'ops': [['ddlwrite', False, 1]], 'disconnect_after_first': True, 'more': [['opt', [['select', False, 0]]]], 'name': 'disconnect/ddl'},
    {'shape': 'imm', 'start': 'fresh', 'ops': [['rawwrite', False, 1], ['raise', False, 0]], 'disconnect_after_first': True, 'more': [['ser', [['select', False, 0]]]], 'name': 'disconnect/imm'},
]


def session_base_cases(ctx, deep=False):
    """fault-free base cases: every template x start, plus seeded random bodies and two-session sequences."""
    base = []
    for shape, progs in TEMPLATES.items():
        for name, ops in progs:
            for start in ('pooled', 'none', 'fresh'):
                base.append({'shape': shape, 'start': start, 'ops': ops, 'faults': [], 'name': '%s/%s' % (shape, name)})
    for c in READER_CASES: base.append(dict(c, faults=[]))
    nrand = ctx.scale(10, 60) if not deep else 80
    for k in range(nrand):
        shape = ctx.rng.choice(['opt', 'opt', 'imm', 'ser', 'ddl', 'nonopt'])
        base.append({'shape': shape, 'start': ctx.rng.choice(['pooled', 'none', 'fresh']), 'ops': random_body(ctx.rng, shape, ctx.rng.randrange(1, 7)),
                     'faults': [], 'name': 'random%d' % k})
    for k in range(ctx.scale(6, 30)):
        s1, s2 = ctx.rng.choice(['opt', 'imm', 'ser', 'ddl']), ctx.rng.choice(['opt', 'imm', 'ser', 'ddl'])
        base.append({'shape': s1, 'start': ctx.rng.choice(['pooled', 'none', 'fresh']), 'ops': random_body(ctx.rng, s1, 3),
                     'more': [[s2, random_body(ctx.rng, s2, 3)]], 'faults': [], 'name': 'seq%d' % k})
    return base


def session_fault_cases(ctx, base, outs, deep=False):
    """every single fault index of every base case; pairs (k, j) with j after k; some seeded triples."""
    cases = []
    pair_budget = ctx.scale(4, 40) if not deep else 60
    for c, o in zip(base, outs):
        if 'harness_error' in o: continue
        n = o['sessions'][-1]['calls']
        for k in range(n):
            cases.append(dict(c, faults=[k]))
        pairs = [(k, j) for k in range(n) for j in range(k + 1, n + 3)]
        if len(pairs) > pair_budget:
            pairs = ctx.rng.sample(pairs, pair_budget)
        for k, j in sorted(pairs):
            cases.append(dict(c, faults=[k, j]))
        for _ in range(ctx.scale(1, 10)):
            cases.append(dict(c, faults=sorted(set(ctx.rng.randrange(0, n + 4) for _ in range(3)))))
    return cases


# ------------------------------------------------------------------------------------------------ threads

THREAD_TEMPLATES = [
    # (threads, steps, faults)
    (3, [[0, 'enter', 'imm'], [1, 'enter', 'opt'], [2, 'enter', 'ser'], [0, 'rawwrite', 1], [1, 'select', 0], [1, 'new', 5], [1, 'flush', 0],
         [2, 'forupd', 2], [1, 'select', 0], [0, 'exit', 0], [1, 'select', 0], [1, 'exit', 0], [2, 'rawupdate', 2], [2, 'exit', 0]], {}),
    (2, [[0, 'enter', 'imm'], [1, 'enter', 'imm'], [0, 'select', 0], [1, 'select', 0], [0, 'exit_exc', 0], [1, 'exit', 0]], {'0': [3]}),
    (2, [[0, 'enter', 'opt'], [1, 'enter', 'opt'], [0, 'forupd', 1], [1, 'rawupdate', 1], [0, 'rawupdate', 1], [0, 'exit', 0], [1, 'exit', 0]], {}),
    (2, [[0, 'enter', 'ser'], [1, 'enter', 'opt'], [0, 'select', 0], [1, 'new', 3], [1, 'exit', 0], [0, 'exit_exc', 0], [1, 'enter', 'opt'], [1, 'select', 0], [1, 'exit', 0]], {}),
    (2, [[0, 'enter', 'imm'], [1, 'enter', 'ddl'], [0, 'rawwrite', 1], [1, 'ddlwrite', 1], [0, 'exit', 0], [1, 'exit', 0]], {'0': [7]}),
    (2, [[0, 'enter', 'imm'], [1, 'enter', 'imm'], [0, 'rawwrite', 1], [1, 'rawwrite', 2], [0, 'exit', 0], [1, 'exit', 0]], {'0': [7, 8]}),
    # the COMMIT of thread 0 fails while thread 1 (and 2) wait for the lock: the lock must change hands exactly once
    (2, [[0, 'enter', 'imm'], [1, 'enter', 'imm'], [0, 'rawwrite', 1], [1, 'rawwrite', 2], [0, 'exit', 0], [1, 'exit', 0]], {'0': [7]}),
    (3, [[0, 'enter', 'opt'], [1, 'enter', 'imm'], [2, 'enter', 'ser'], [0, 'new', 1], [0, 'flush', 0], [1, 'rawwrite', 2], [2, 'forupd', 1], [0, 'commit', 0], [0, 'exit', 0],
         [1, 'exit', 0], [2, 'exit', 0]], {'0': [7]}),
    (3, [[0, 'enter', 'imm'], [1, 'enter', 'imm'], [2, 'enter', 'imm'], [0, 'select', 0], [1, 'select', 0], [2, 'select', 0], [0, 'exit', 0], [1, 'exit_exc', 0], [2, 'exit', 0]], {}),
]

TH_OPS = ['select', 'new', 'flush', 'rawwrite', 'commit', 'rollback', 'forupd', 'rawupdate']


def random_schedule(rng, nthreads, nsteps):
    """a schedule in which every thread runs sessions back to back; all sessions are closed at the end."""
    steps, inside, fu = [], {}, {}
    for t in range(nthreads):
        inside[t] = False; fu[t] = 1
    for _ in range(nsteps):
        t = rng.randrange(nthreads)
        if not inside[t]:
            steps.append([t, 'enter', rng.choice(['opt', 'opt', 'imm', 'ser'])]); inside[t] = True
            continue
        r = rng.random()
        if r < 0.22:
            steps.append([t, rng.choice(['exit', 'exit', 'exit_exc']), 0]); inside[t] = False; fu[t] = 1
        else:
            op = rng.choice(TH_OPS)
            if op == 'forupd':
                if fu[t] > 6: op = 'select'
                else:
                    steps.append([t, 'forupd', fu[t]]); fu[t] += 1
                    continue
            steps.append([t, op, rng.randrange(1, 7)])
    for t in range(nthreads):
        if inside[t]: steps.append([t, 'exit', 0])
    # blocked threads skip steps: make sure everything gets closed by repeating the exits
    for t in range(nthreads):
        steps.append([t, 'exit_if_open', 0])
    return steps


def thread_cases(ctx, deep=False):
    cases = [{'threads': n, 'steps': steps, 'faults': faults, 'name': 'template%d' % i} for i, (n, steps, faults) in enumerate(THREAD_TEMPLATES)]
    for k in range(ctx.scale(25, 150) if not deep else 200):
        n = ctx.rng.choice([2, 2, 3])
        steps = random_schedule(ctx.rng, n, ctx.rng.randrange(8, 22))
        faults = {}
        if ctx.rng.random() < 0.6:
            for t in range(n):
                if ctx.rng.random() < 0.5:
                    faults[str(t)] = sorted(set(ctx.rng.randrange(0, 16) for _ in range(ctx.rng.randrange(1, 3))))
        cases.append({'threads': n, 'steps': steps, 'faults': faults, 'name': 'random%d' % k})
    return cases


def nat_fun(d, default, render):
    """Coq `fun i => match i with 0 => .. | 1 => .. | _ => default end`"""
    arms = ' '.join('| %d => %s' % (k, render(v)) for k, v in sorted(d.items()))
    return '(fun i : nat => match i with %s | _ => %s end)' % (arms, default)


THREAD_HEADER = HEADER + '''
Definition event_eqb_nl (a b : event) : bool :=
  call_eqb (e_call a) (e_call b) && (e_con a =? e_con b) && eqb (e_ok a) (e_ok b) && eqb (e_txn a) (e_txn b) &&
  (if e_mine a then e_lock a && e_lock b else true).
Definition ores_eqb (r : res) (o : option res) : bool := match o with None => negb (res_eqb r Blocked) | Some x => res_eqb r x end.
Fixpoint list_eqb2 {A B} (f : A -> B -> bool) (l1 : list A) (l2 : list B) : bool :=
  match l1, l2 with [], [] => true | x :: l1', y :: l2' => f x y && list_eqb2 f l1' l2' | _, _ => false end.
Fixpoint grun_res (orc : nat -> nat -> bool) (g : gstate) (l : list (nat * action)) : list res * gstate :=
  match l with
  | [] => ([], g)
  | (i, a) :: l' => let r := fst (tstep (orc i) a (set_lock (fst g) (snd g i))) in
                    let (rs, g') := grun_res orc (gstep orc g (i, a)) l' in (r :: rs, g')
  end.
Definition thread_case (orc : nat -> nat -> bool) (sh : nat -> shape) (l : list (nat * action)) (expect : list (option res))
                       (lock_after : bool) (traces : list (nat * list event)) : bool :=
  let (rs, g) := grun_res orc (g_init sh) l in
  list_eqb2 ores_eqb rs expect && eqb (fst g) lock_after &&
  forallb (fun it => list_eqb event_eqb_nl (rev (trace (snd g (fst it)))) (snd it)) traces.
'''


def coq_thread_case(case, out):
    """bool: the model's global run of the effective schedule gives the same blocked / outcome per step, the same final lock
    state and the same driver-call trace per thread."""
    eff = [e for e in out['effective'] if e[3] not in ('skipped', 'noop')]
    first_shape, sched, expect = {}, [], []
    books = {}
    # shape of the next session of each thread, looking forward from each exit
    for idx, (t, op, arg, outcome, _lk) in enumerate(eff):
        if op == 'enter':
            if t not in first_shape: first_shape[t] = arg
            continue
        if op in ('exit', 'exit_exc', 'exit_if_open'):
            nxt = 'opt'
            for t2, op2, arg2, _o, _l in eff[idx + 1:]:
                if t2 == t and op2 == 'enter':
                    nxt = arg2; break
            sched.append('(%d, AExit %s %s)' % (t, cb(op == 'exit_exc'), SHAPES[nxt]))
            if outcome != 'blocked': books.pop(t, None)
            if outcome == 'blocked': expect.append('(Some Blocked)')
            elif op == 'exit_exc': expect.append('None')
            elif outcome in OUT: expect.append('(Some %s)' % OUT[outcome])
            else: raise Unmodelled('outcome %r of exit' % outcome)
        else:
            # locking lookups: what the session cache of this thread already holds decides whether SQL is issued (as in model_ops);
            # skipped enter / exit steps of a blocked thread merge its sessions, so the same row can be asked for twice
            book = books.setdefault(t, {'loaded': set(), 'locked': set()})
            if op in LOCKING:
                mop = '(OGetFU %s %s)' % (cb(arg in book['loaded']), cb(arg in book['locked']))
                if outcome == 'ok': book['loaded'].add(arg); book['locked'].add(arg)
            else:
                mop = OPS[op]
                if outcome == 'ok' and op == 'load': book['loaded'].add(arg)
                if outcome == 'ok' and op == 'qforupd': book['loaded'].add(arg); book['locked'].add(arg)
                if op in ('commit', 'dbcommit') and outcome != 'blocked':
                    if outcome == 'ok': book['locked'].clear()
                    else: book['loaded'].clear(); book['locked'].clear()
                if op in ('rollback', 'dbrollback') and outcome != 'blocked': book['loaded'].clear(); book['locked'].clear()
            sched.append('(%d, AOp %s)' % (t, mop))
            if outcome == 'blocked': expect.append('(Some Blocked)')
            elif outcome in OUT: expect.append('(Some %s)' % OUT[outcome])
            else: raise Unmodelled('outcome %r of %s' % (outcome, op))
    orc = nat_fun({int(t): v for t, v in case.get('faults', {}).items()}, 'faults_oracle []', lambda v: 'faults_oracle %s' % coq_faults(v))
    sh = nat_fun(first_shape, 'ShOpt', lambda v: SHAPES[v])
    traces = '[' + '; '.join('(%d, [%s])' % (int(t), '; '.join(coq_event(e) for e in evs)) for t, evs in sorted(out['traces'].items())) + ']'
    return 'thread_case %s %s [%s] [%s] %s %s' % (orc, sh, '; '.join(sched), '; '.join(expect), cb(out['lock_after']), traces)


def thread_anomalies(case, out):
    """property oracle on one executed schedule (all sessions are closed at its end)."""
    res = []
    name = case.get('name', '?')
    if out.get('failed'):
        res.append(('thread-schedule-hangs', 'schedule %s did not finish: %s' % (name, out['failed'])))
    if out['still_blocked']:
        res.append(('thread-left-blocked', 'threads %s are still blocked on the provider lock after every session has ended (%s)' % (out['still_blocked'], name)))
    if out['lock_after']:
        res.append(('lock-left-held-threads', 'provider.transaction_lock is held after every session has ended (%s)' % name))
    if out.get('prelock_after'):
        res.append(('prelock-left-held-threads', 'provider.pre_transaction_lock is held after every session has ended (%s)' % name))
    if out.get('threads_alive'):
        res.append(('thread-alive', '%d worker threads did not terminate (%s)' % (out['threads_alive'], name)))
    for k, n in out.get('closes', {}).items():
        if n > 1: res.append(('connection-closed-twice-threads', 'connection %s closed %d times (%s)' % (k, n, name)))
    for ev in out.get('lock_events', []):
        res.append(('provider-lock-%s-threads' % ev[0], 'the provider lock was released %s in schedule %s (%r)' %
                    ('while it was not held (released twice)' if ev[0] == 'release-of-unlocked-lock' else 'by a thread that does not hold it', name, ev)))
        break
    # a thread none of whose own calls is made to fail must not see any exception (its sessions do not raise by themselves)
    for t, op, arg, outcome, _lk in out.get('effective', []):
        if str(t) not in case.get('faults', {}) and outcome not in ('ok', 'blocked', 'skipped', 'noop', 'rolled-back') and not case.get('with_sem'):
            res.append(('fault-free-thread-fails:%s' % outcome, 'thread %d has no failing DB-API call of its own, yet its %s ends with %s (%s)' % (t, op, outcome, name)))
            break
    return res


# ------------------------------------------------------------------------------------------------ PostgreSQL autocommit (C17)

PG_HEADER = HEADER + 'Require Import PonyV.Model.C17Pg.\n'
PG_CALLS = {'execute:select': 'PExecute PSel', 'execute:write': 'PExecute PWr', 'execute:set_serializable': 'PExecute PSetSerializable',
            'execute:discard': 'PExecute PDiscard', 'close': 'PClose', 'commit': 'PCommit', 'rollback': 'PRollback',
            'autocommit:True': 'PSetAutocommit true', 'autocommit:False': 'PSetAutocommit false'}
PG_OPS = {'select': 'PoSelect', 'write': 'PoWrite', 'commit': 'PoCommit', 'rollback': 'PoRollback'}


def pg_random_cases(rng, n):
    cases = []
    for _ in range(n):
        ses = []
        for _s in range(rng.randrange(1, 4)):
            shape = rng.choice(['opt', 'opt', 'imm', 'ser', 'ddl'])
            ops = [[rng.choice(['select', 'write', 'write', 'commit', 'rollback']), rng.random() < 0.4] for _o in range(rng.randrange(0, 6))]
            ses.append([shape, ops, rng.random() < 0.3])
        faults = sorted(set(rng.randrange(0, 24) for _f in range(rng.choice([0, 0, 1, 1, 2, 3]))))
        cases.append({'sessions': ses, 'faults': faults})
    return cases


def coq_pg_case(case, out):
    evs = []
    for what, ok, ac, dtx in out['events']:
        if what not in PG_CALLS: raise Unmodelled('postgres call %r' % what)
        evs.append('PEv (%s) %s %s %s' % (PG_CALLS[what], cb(ok), cb(ac), cb(dtx)))
    ses = '[' + '; '.join('(%s, [%s], %s)' % (SHAPES[sh], '; '.join('(%s, %s)' % (PG_OPS[o], cb(c)) for o, c in ops), cb(fail)) for sh, ops, fail in case['sessions']) + ']'
    return ('(let s := pg_run (faults_oracle %s) %s (pg_init false) in list_eqb pevent_eqb (rev (g_trace s)) [%s] && eqb (g_bad s) %s && eqb (g_reg s) %s && pg_writes_ok (g_trace s))'
            % (coq_faults(case.get('faults', [])), ses, '; '.join(evs), cb(out['bad']), cb(not out.get('db2cache_empty', True))))
