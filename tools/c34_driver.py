"""C34 implementation driver: declares rule sets with the real API (db.set_perms_for / perm(...).exclude(...)) on a 2-entity
model and tabulates has_perm / can_view / to_json for every user, permission and target.

stdin: {"rulesets": [[rule, ...], ...], "mode": "table" | "stable" | "order"}
  rule = {"ctx": [entity ids], "perms": [perm names], "groups": [..], "roles": [..], "labels": [..], "exclE": [entity ids], "exclA": [attr ids]}
stdout: "\n@@JSON@@" + {"results": [...]}

Universe
  entities   0 = A, 1 = B               attributes  0 = A.name, 1 = A.bs (Set B), 2 = B.title, 3 = B.a (Optional A); 1 <-> 3 are reverse
  objects    0 = a1, 1 = a2 (A) ; 2 = b1, 3 = b2 (B) ;  a1.bs = {b1}, a2.bs = {b2}
  users      0 = None, 1 = U0 (no groups), 2 = U1 (group g1)
  roles      r1 : (U0, a1), (U1, a2), (U1, b1)            labels     l1 : a1, b2
Result table order: for user in 0..2, for perm in (view, edit): has_perm for targets E0 E1 A0 A1 A2 A3 O0 O1 O2 O3; then can_view for the same
targets; then to_json of each single object (True = serialised, False = PermissionError); then to_json([obj], include=[A.bs] or [B.a]) - which
pulls in the related object (a1<->b1, a2<->b2) - once with everything already loaded, once in a fresh session with only the top object loaded.
The iteration order of each entity._access_rules_[perm] set (it decides the result of the attribute branch) is reported with the table.
"""
import json, sys

PERMS = ('view', 'edit')
ROLES = {(1, 0), (2, 1), (2, 2)}
LABELS = {0, 3}


def main():
    payload = json.load(sys.stdin)
    from pony import orm
    from pony.orm import core

    db = orm.Database('sqlite', ':memory:')
    class A(db.Entity):
        name = orm.Required(str)
        bs = orm.Set('B')
    class B(db.Entity):
        title = orm.Required(str)
        a = orm.Optional(A)
    db.generate_mapping(create_tables=True)
    ENT = [A, B]
    ATTR = [A.name, A.bs, B.title, B.a]
    with orm.db_session:
        a1 = A(name='a1'); a2 = A(name='a2')
        B(title='b1', a=a1); B(title='b2', a=a2)

    class User(object):
        def __init__(self, uid, groups): self.uid = uid; self.groups = groups
        def __repr__(self): return 'U%d' % self.uid
    USERS = [None, User(1, []), User(2, ['g1'])]

    flip = {'on': False, 'calls': 0}
    def objid(obj):
        if isinstance(obj, A): return 0 if obj.name == 'a1' else 1
        if isinstance(obj, B): return 2 if obj.title == 'b1' else 3
        return -1        # objects of the inheritance universe carry no roles / labels

    @core.user_groups_getter(User)
    def groups_of(user):
        flip['calls'] += 1
        if flip['on'] and flip['calls'] > 1: return ['g1'] if not user.groups else []     # a provider that changes its mind
        return list(user.groups)
    role_override = {'value': None}      # 'sessions' mode: the user has / has not role r1 on every object, changeable between sessions
    @core.user_roles_getter(User, None)
    def roles_of(user, obj):
        flip['calls'] += 1
        has = (user.uid, objid(obj)) in ROLES
        if role_override['value'] is not None: has = role_override['value']
        if flip['on'] and flip['calls'] > 3: has = not has
        return ['r1'] if has else []
    @core.obj_labels_getter(None)
    def labels_of(obj):
        flip['calls'] += 1
        has = objid(obj) in LABELS
        if flip['on'] and flip['calls'] > 3: has = not has
        return ['l1'] if has else []

    def clear_rules():
        for e in ENT: e._access_rules_.clear()

    def declare(rules):
        objs = []
        for r in rules:
            with db.set_perms_for(*[ENT[i] for i in r['ctx']]):
                kw = {}
                if r['groups']: kw['groups'] = list(r['groups'])
                if r['roles']: kw['roles'] = list(r['roles'])
                if r['labels']: kw['labels'] = list(r['labels'])
                rule = core.perm(' '.join(r['perms']), **kw)
                ex = [ENT[i] for i in r['exclE']] + [ATTR[i] for i in r['exclA']]
                if ex: rule.exclude(*ex)
                objs.append(rule)
        return objs

    def order_of(objs):
        out = {}
        for ei, e in enumerate(ENT):
            for p in PERMS:
                s = e._access_rules_.get(p)
                if s: out['%d,%s' % (ei, p)] = [objs.index(x) for x in s]
        return out

    def targets():
        return ENT + ATTR + [A.get(name='a1'), A.get(name='a2'), B.get(title='b1'), B.get(title='b2')]

    def top_object(oi):
        return [lambda: A.get(name='a1'), lambda: A.get(name='a2'), lambda: B.get(title='b1'), lambda: B.get(title='b2')][oi]()

    def tojson_include(x, u):
        """True = serialised (top object and everything reached through the relationship), False = PermissionError"""
        inc = [A.bs] if isinstance(x, A) else [B.a]
        try:
            js = json.loads(db.to_json([x], include=inc, with_schema=False))
        except core.PermissionError:
            return False
        # sanity: the related object really is in the output
        n = sum(len(v) for v in js['objects'].values())
        assert n == 2, js
        return True

    def table():
        res = []
        fresh = {0: [], 1: [], 2: []}
        with orm.db_session:
            tg = targets()
            for u in USERS:
                for p in PERMS:
                    for x in tg: res.append(bool(core.has_perm(u, p, x)))
                for x in tg: res.append(bool(core.can_view(u, x)))
                core.set_current_user(u)
                try:
                    for x in tg[6:]:
                        try:
                            db.to_json([x], with_schema=False); res.append(True)
                        except core.PermissionError:
                            res.append(False)
                    # the same with the related objects pulled in through include=[relationship]; in this session every object is
                    # already fully loaded
                    for x in tg[6:]:
                        res.append(tojson_include(x, u))
                    # the schema section: which entities / attributes are listed for this user
                    sch = {d['name']: set(a['name'] for a in d['newAttrs']) for d in json.loads(db.to_json([], with_schema=True))['schema']}
                    res += ['A' in sch, 'B' in sch, 'name' in sch.get('A', ()), 'bs' in sch.get('A', ()), 'title' in sch.get('B', ()), 'a' in sch.get('B', ())]
                finally:
                    core.set_current_user(None)
        # ... and in a fresh session where only the top object has been loaded: the to-one side arrives as a seed (pk only) and is
        # loaded by to_json itself, the collection side is fetched by the collection load
        for u in USERS:
            for oi in range(4):
                core.set_current_user(u)
                try:
                    with orm.db_session:
                        x = top_object(oi)
                        res_cell = tojson_include(x, u)
                finally:
                    core.set_current_user(None)
                fresh[u.uid if u is not None else 0].append(res_cell)
        # table layout per user: 20 has_perm, 10 can_view, 4 to_json, 4 to_json+include (all loaded), 6 schema cells, 4 to_json+include (fresh session)
        out = []
        per = 44
        for ui in range(3):
            row = res[ui * per:(ui + 1) * per]
            out += row[:38] + fresh[ui] + row[38:]       # ... to_json+include (loaded), to_json+include (fresh session), schema cells
        return out

    results = []
    mode = payload.get('mode', 'table')
    if mode == 'inherit':
        # a second universe: Base <- Sub, Other; Base.secret is hidden; rules are declared through set_perms_for on Base / Sub / Other
        db2 = orm.Database('sqlite', ':memory:')
        class Base(db2.Entity):
            name = orm.Required(str)
            secret = orm.Optional(str, hidden=True)
        class Sub(Base):
            pass
        class Other(db2.Entity):
            title = orm.Required(str)
        db2.generate_mapping(create_tables=True)
        with orm.db_session:
            Base(name='base1'); Sub(name='sub1'); Other(title='o1')
        E3 = [Base, Sub, Other]; A3 = [Base.name, Base.secret, Other.title]
        for decls in payload['decls']:
            for e in E3: e._access_rules_.clear()
            for d in decls:
                with db2.set_perms_for(*[E3[i] for i in d['ctx']]):
                    rule = core.perm('view', **({'groups': list(d['groups'])} if d['groups'] else {}))
                    ex = [E3[i] for i in d['exclE']] + [A3[i] for i in d['exclA']]
                    if ex: rule.exclude(*ex)
            with orm.db_session:
                objs = [Base.select(lambda b: b.name == 'base1').first(), Sub.select().first(), Other.select().first()]
                assert type(objs[0]) is Base and type(objs[1]) is Sub
                tg = E3 + A3 + objs
                row = [bool(core.has_perm(u, 'view', x)) for u in (USERS[0], USERS[2]) for x in tg]
            results.append({'table': row, 'sizes': [[len(e._access_rules_.get('view', ())) for e in E3]]})
        for e in E3: e._access_rules_.clear()
        sys.stdout.write('\n@@JSON@@' + json.dumps({'results': results}))
        return
    if mode == 'sessions':
        # histories across sessions of one thread: session 1 (check; ends with commit or with an exception -> rollback), the user's
        # groups / roles change, session 2 (check).  The thread-local provider caches must not carry session 1's answers over.
        class Boom(Exception): pass
        for case in payload['cases']:
            clear_rules(); declare(case['rules'])
            u = USERS[case['user']]
            saved = list(u.groups)
            answers = []
            try:
                u.groups = ['g1'] if case['g0'] else []; role_override['value'] = case['r0']
                try:
                    with orm.db_session:
                        answers.append(bool(core.has_perm(u, case['perm'], targets()[case['target']])))
                        if case['end1'] == 'raise': raise Boom()
                except Boom: pass
                u.groups = ['g1'] if case['g1'] else []; role_override['value'] = case['r1']
                with orm.db_session:
                    answers.append(bool(core.has_perm(u, case['perm'], targets()[case['target']])))
            finally:
                u.groups = saved; role_override['value'] = None
                core.local.user_groups_cache.clear(); core.local.user_roles_cache.clear()      # no leak into the next case
            results.append({'answers': answers})
        clear_rules()
        sys.stdout.write('\n@@JSON@@' + json.dumps({'results': results}))
        return
    for rules in payload['rulesets']:
        clear_rules()
        if mode == 'order':
            # re-declare the same rule set until the wanted iteration order of A's rules for 'view' shows up (set order depends on object addresses)
            want = payload['want_order']; found = None; keep = []
            for attempt in range(200):
                clear_rules()
                objs = declare(rules); keep.append(objs)
                o = order_of(objs)
                if o.get(payload['order_key']) == want:
                    found = o; break
            if found is None:
                results.append({'order': None}); continue
            results.append({'order': found, 'table': table(), 'attempts': attempt + 1})
            continue
        objs = declare(rules)
        if mode == 'stable':
            # every provider changes its answer after its first calls; inside one db_session repeated checks must agree
            out = []
            for u in USERS[1:]:
                flip['on'] = True; flip['calls'] = 0
                with orm.db_session:
                    tg = targets()
                    first = [[bool(core.has_perm(u, p, x)) for x in tg] for p in PERMS]
                    again = [[[bool(core.has_perm(u, p, x)) for x in tg] for p in PERMS] for _ in range(3)]
                flip['on'] = False
                out.append({'first': first, 'again_equal': all(a == first for a in again)})
            results.append({'stable': out})
            continue
        results.append({'order': order_of(objs), 'table': table()})
    clear_rules()
    sys.stdout.write('\n@@JSON@@' + json.dumps({'results': results}))


if __name__ == '__main__':
    main()
