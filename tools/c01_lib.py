"""Shared pieces of the C01 / C02 (and C05) checks: the expression grammar of coq/Model/C01Expr.v as Python trees,
static typing, generators, printers (Python query source / Coq term), the reference interpreter, and the serialiser of
Pony's list SQL AST into the Coq type qx of coq/Model/C01Sql.v.

Trees (tuples):
    ('attr', name) ('int', z) ('str', s) ('bool', b) ('none',) ('param', i, ty|None)       ty in 'int' 'str' 'bool'
    ('arith', op, a, b)   op in + - * // % /
    ('neg', a) ('abs', a) ('concat', a, b) ('len', a)
    ('cmp', op, a, b)     op in == != < <= > >= is 'is not'
    ('and', a, b) ('or', a, b) ('not', a)
    ('in', neg, a, (lit, ...))        lit = ('int', z) | ('str', s)
    ('if', c, t, f) ('coalesce', (args...)) ('minmax', is_max, (args...))
Outside the Coq grammar (search only):
    ('like', kind, neg, a, b)   kind in startswith endswith contains      a.startswith(b) / a.endswith(b) / b in a
    ('upper', a) ('lower', a) ('slice', a, lo, hi) ('between', a, lo, hi)
"""
import vlib
from vlib import cz

# ---------------------------------------------------------------------------------------------- schema

# name -> (column id, type, declared nullable)
ATTRS = {
    'id': (0, 'int', False),
    'a': (1, 'int', True), 'b': (2, 'int', True), 'r': (3, 'int', False),
    's': (4, 'str', True), 'u': (5, 'str', False),
    'f': (6, 'bool', True), 'g': (7, 'bool', False),
}
# attribute paths of the join schema (tools/c01_join.py, coq/Model/C01Join.v): P as above + group -> G -> dept -> D
# p.group.id / p.group.dept.id are the primary keys G.id / D.id read from the foreign key column (pk-only optimisation): the AttrMonad's
# `nullable` is the one of the primary key attribute (False) although the reference is Optional
JOIN_ATTRS = {
    'group.id': (8, 'int', False),
    'group.number': (11, 'int', False), 'group.title': (12, 'str', True), 'group.dept.id': (13, 'int', False), 'group.level': (14, 'int', True),
    'group.dept.name': (21, 'str', False), 'group.dept.code': (22, 'int', True), 'group.dept.open': (23, 'bool', False),
}
ATTRS.update(JOIN_ATTRS)
# pseudo attribute of the collection harness (tools/c01_coll.py, coq/Model/C01Coll.v): the value of a count-subquery
ATTRS['group.cnt'] = (30, 'int', False)
# pseudo attributes of the formula harness (coq/Model/C01Form.v): column 40 + k holds the value of the k-th subquery; ('sub', 40 + k) is the
# truth value of an EXISTS / IN subquery (leaf ESub), ('col', 40 + k, type, nullable) the value of a scalar subquery (leaf ECol)
for _k in range(40, 50): ATTRS['group.q%d' % _k] = (_k, 'int', False)
BY_ID = {v[0]: k for k, v in ATTRS.items()}


def define_entity(db):
    from pony import orm
    class P(db.Entity):
        a = orm.Optional(int)
        b = orm.Optional(int)
        r = orm.Required(int)
        s = orm.Optional(str, nullable=True)
        u = orm.Required(str)
        f = orm.Optional(bool)
        g = orm.Required(bool)
    return P


_dbs = {}

def get_db(provider, real=False):
    """provider in sqlite/postgres/mysql/oracle; real=True: an executing in-memory SQLite database."""
    key = (provider, real)
    if key not in _dbs:
        from pony import orm
        db = orm.Database('sqlite', ':memory:') if real else vlib.mock_database(provider)
        P = define_entity(db)
        if real: db.generate_mapping(create_tables=True)
        else: db.generate_mapping()
        _dbs[key] = (db, P)
    return _dbs[key]


def fresh_real_db():
    from pony import orm
    db = orm.Database('sqlite', ':memory:')
    P = define_entity(db)
    db.generate_mapping(create_tables=True)
    return db, P


def attr_nullable(P, name):
    if '.' in name: return ATTRS[name][2]
    return bool(getattr(P, name).nullable)


# ---------------------------------------------------------------------------------------------- static types

VT = ('int', 'str', 'bool')
ARITH = ('+', '-', '*', '//', '%', '/')
CMPS = ('==', '!=', '<', '<=', '>', '>=', 'is', 'is not')


def ty_of(e, ext=False):
    """Mirror of ty_of in C01Expr.v: 'int' | 'str' | 'bool' | 'cond' | 'none' | None (ill-typed).
    ext=True also types the search-only node kinds."""
    k = e[0]
    if ext:
        if k in ('like', 'between', 'cmpc'): return 'cond'
        if k in ('upper', 'lower', 'slice'): return 'str'
    _t = ty_of
    ty_of_ = lambda x: _t(x, ext)
    return _ty_of(e, ty_of_)


def _ty_of(e, ty_of):
    k = e[0]
    if k == 'attr': return ATTRS[e[1]][1]
    if k in ('int', 'str', 'bool'): return k
    if k == 'none': return 'none'
    if k == 'param': return e[2] if e[2] is not None else 'none'
    if k == 'sub': return 'cond'
    if k == 'col': return e[2]
    if k == 'arith':
        ta, tb = ty_of(e[2]), ty_of(e[3])
        if (ta, tb) in (('int', 'int'), ('int', 'bool'), ('bool', 'int')): return 'int'
        return None
    if k in ('neg', 'abs'): return 'int' if ty_of(e[1]) == 'int' else None
    if k == 'concat': return 'str' if ty_of(e[1]) == 'str' and ty_of(e[2]) == 'str' else None
    if k == 'len': return 'int' if ty_of(e[1]) == 'str' else None
    if k == 'cmp':
        op, ta, tb = e[1], ty_of(e[2]), ty_of(e[3])
        if ta in VT and tb in VT:
            if op in ('is', 'is not'): return None
            if ta == 'str' and tb == 'str': return 'cond'
            if ta == 'str' or tb == 'str': return None
            return 'cond'
        if (ta in VT and tb == 'none') or (ta == 'none' and tb in VT):
            return None if op in ('<', '<=', '>', '>=') else 'cond'
        return None
    if k in ('and', 'or'):
        ta, tb = ty_of(e[1]), ty_of(e[2])
        return 'cond' if ta in VT + ('cond',) and tb in VT + ('cond',) else None
    if k == 'not':
        return 'cond' if ty_of(e[1]) in VT + ('cond',) else None
    if k == 'in':
        ta = ty_of(e[2])
        if ta in ('int', 'str') and all(l[0] == ta for l in e[3]): return 'cond'
        return None
    if k == 'if':
        tc, tt, tf = ty_of(e[1]), ty_of(e[2]), ty_of(e[3])
        if tc in ('cond', 'str', 'bool', 'int') and tt in VT and tt == tf: return tt      # an int test raised before repo commit 809623a
        return None
    if k == 'coalesce':
        ts = [ty_of(x) for x in e[1]]
        if len(ts) >= 2 and ts[0] in VT and all(t == ts[0] for t in ts): return ts[0]
        return None
    if k == 'minmax':
        ts = [ty_of(x) for x in e[2]]
        if len(ts) >= 2 and ts[0] in ('int', 'str') and all(t == ts[0] for t in ts): return ts[0]
        return None
    return None


def children(e):
    k = e[0]
    if k in ('attr', 'int', 'str', 'bool', 'none', 'param', 'sub', 'col'): return []
    if k in ('arith', 'cmp', 'cmpc'): return [e[2], e[3]]
    if k in ('neg', 'abs', 'len', 'not', 'upper', 'lower'): return [e[1]]
    if k in ('concat', 'and', 'or'): return [e[1], e[2]]
    if k == 'in': return [e[2]]
    if k == 'if': return [e[1], e[2], e[3]]
    if k == 'coalesce': return list(e[1])
    if k == 'minmax': return list(e[2])
    if k == 'like': return [e[3], e[4]]
    if k in ('slice', 'between'): return [x for x in e[1:] if x is not None]
    raise ValueError(k)


def has_attr(e):
    return e[0] in ('attr', 'sub', 'col') or any(has_attr(c) for c in children(e))


def wf(e):
    """The domain on which the model is claimed to describe the real translator: every operator node mentions the loop
    variable (a sub-expression without it is evaluated by Python and arrives as ONE parameter), integer literals are
    not negative (`-1` is such an external expression)."""
    k = e[0]
    if k == 'int': return e[1] >= 0
    if k in ('attr', 'str', 'bool', 'none', 'param', 'sub', 'col'): return True
    if not has_attr(e): return False
    if k == 'in' and not all(l[0] != 'int' or l[1] >= 0 for l in e[3]): return False
    return all(wf(c) for c in children(e))


def size(e):
    return 1 + sum(size(c) for c in children(e))


def depth(e):
    cs = children(e)
    return 1 + (max(depth(c) for c in cs) if cs else 0)


def params_of(e, acc=None):
    acc = {} if acc is None else acc
    if e[0] == 'param': acc[e[1]] = e[2]
    for c in children(e): params_of(c, acc)
    return acc


def attrs_of(e, acc=None):
    acc = set() if acc is None else acc
    if e[0] == 'attr': acc.add(e[1])
    for c in children(e): attrs_of(c, acc)
    return acc


def kinds_of(e, acc=None):
    acc = set() if acc is None else acc
    k = e[0]
    acc.add(k + ':' + str(e[1]) if k in ('arith', 'cmp', 'like', 'cmpc') else k)
    for c in children(e): kinds_of(c, acc)
    return acc


# ---------------------------------------------------------------------------------------------- printers

def src(e):
    """Python source of the expression inside `... for p in P`; fully parenthesised."""
    k = e[0]
    if k == 'attr': return 'p.' + e[1]
    if k == 'int': return str(e[1]) if e[1] >= 0 else '(%d)' % e[1]
    if k == 'str': return repr(e[1])
    if k == 'bool': return 'True' if e[1] else 'False'
    if k == 'none': return 'None'
    if k == 'param': return 'x%d' % e[1]
    if k == 'sub': return 'p.group.s%d' % e[1]
    if k == 'col': return 'p.group.q%d' % e[1]
    if k == 'arith': return '(%s %s %s)' % (src(e[2]), e[1], src(e[3]))
    if k == 'neg': return '(-%s)' % src(e[1])
    if k == 'abs': return 'abs(%s)' % src(e[1])
    if k == 'concat': return '(%s + %s)' % (src(e[1]), src(e[2]))
    if k == 'len': return 'len(%s)' % src(e[1])
    if k in ('cmp', 'cmpc'): return '(%s %s %s)' % (src(e[2]), e[1], src(e[3]))
    if k == 'and': return '(%s and %s)' % (src(e[1]), src(e[2]))
    if k == 'or': return '(%s or %s)' % (src(e[1]), src(e[2]))
    if k == 'not': return '(not %s)' % src(e[1])
    if k == 'in':
        items = ', '.join(src(l) for l in e[3])
        if len(e[3]) == 1: items += ','
        return '(%s %s (%s))' % (src(e[2]), 'not in' if e[1] else 'in', items)
    if k == 'if': return '(%s if %s else %s)' % (src(e[2]), src(e[1]), src(e[3]))
    if k == 'coalesce': return 'coalesce(%s)' % ', '.join(src(x) for x in e[1])
    if k == 'minmax': return '%s(%s)' % ('max' if e[1] else 'min', ', '.join(src(x) for x in e[2]))
    if k == 'like':
        kind, neg, a, b = e[1], e[2], e[3], e[4]
        if kind == 'contains': return '(%s %s %s)' % (src(b), 'not in' if neg else 'in', src(a))
        s = '%s.%s(%s)' % (src(a), kind, src(b))
        return '(not %s)' % s if neg else s
    if k == 'upper': return '%s.upper()' % src(e[1])
    if k == 'lower': return '%s.lower()' % src(e[1])
    if k == 'slice': return '%s[%s:%s]' % (src(e[1]), '' if e[2] is None else src(e[2]), '' if e[3] is None else src(e[3]))
    if k == 'between': return 'between(%s, %s, %s)' % (src(e[1]), src(e[2]), src(e[3]))
    raise ValueError(k)


def cstr(s):
    return '[' + '; '.join(str(ord(c)) for c in s) + ']'

_VTY = {'int': 'TInt', 'str': 'TStr', 'bool': 'TBool'}
_AOP = {'+': 'Add', '-': 'Sub', '*': 'Mul', '//': 'FloorDiv', '%': 'Mod', '/': 'TrueDiv'}
_COP = {'==': 'CEq', '!=': 'CNe', '<': 'CLt', '<=': 'CLe', '>': 'CGt', '>=': 'CGe', 'is': 'CIs', 'is not': 'CIsNot'}


def coq(e, nullable=None):
    """Coq term of type expr. nullable: name -> bool (the real attr.nullable of the provider), default = declared."""
    k = e[0]
    r = lambda x: coq(x, nullable)
    if k == 'attr':
        i, t, n = ATTRS[e[1]]
        if nullable is not None: n = nullable[e[1]]
        return '(EAttr (mkattr %d %s %s))' % (i, _VTY[t], 'true' if n else 'false')
    if k == 'int': return '(EInt %s)' % cz(e[1])
    if k == 'str': return '(EStr %s)' % cstr(e[1])
    if k == 'bool': return '(EBool %s)' % ('true' if e[1] else 'false')
    if k == 'none': return 'ENone'
    if k == 'param': return '(EParam %d %s)' % (e[1], 'None' if e[2] is None else '(Some %s)' % _VTY[e[2]])
    if k == 'sub': return '(ESub %d)' % e[1]
    if k == 'col': return '(ECol %d %s %s)' % (e[1], _VTY[e[2]], 'true' if e[3] else 'false')
    if k == 'arith': return '(EArith %s %s %s)' % (_AOP[e[1]], r(e[2]), r(e[3]))
    if k == 'neg': return '(ENeg %s)' % r(e[1])
    if k == 'abs': return '(EAbs %s)' % r(e[1])
    if k == 'concat': return '(EConcat %s %s)' % (r(e[1]), r(e[2]))
    if k == 'len': return '(ELen %s)' % r(e[1])
    if k == 'cmp': return '(ECmp %s %s %s)' % (_COP[e[1]], r(e[2]), r(e[3]))
    if k == 'and': return '(EAnd %s %s)' % (r(e[1]), r(e[2]))
    if k == 'or': return '(EOr %s %s)' % (r(e[1]), r(e[2]))
    if k == 'not': return '(ENot %s)' % r(e[1])
    if k == 'in':
        items = '; '.join('LInt %s' % cz(l[1]) if l[0] == 'int' else 'LStr %s' % cstr(l[1]) for l in e[3])
        return '(EIn %s %s [%s])' % ('true' if e[1] else 'false', r(e[2]), items)
    if k == 'if': return '(EIf %s %s %s)' % (r(e[1]), r(e[2]), r(e[3]))
    if k == 'coalesce': return '(ECoalesce [%s])' % '; '.join(r(x) for x in e[1])
    if k == 'minmax': return '(EMinMax %s [%s])' % ('true' if e[1] else 'false', '; '.join(r(x) for x in e[2]))
    raise ValueError('no Coq form for %s' % k)


def coq_pyv(v):
    if v is None: return 'PNone'
    if isinstance(v, bool): return '(PBool %s)' % ('true' if v else 'false')
    if isinstance(v, int): return '(PInt %s)' % cz(v)
    if isinstance(v, str): return '(PStr %s)' % cstr(v)
    raise ValueError(v)


def _coq_fn(pairs):
    return '(fun i => match i with %s | _ => PNone end)' % ' | '.join('%d%%nat => %s' % (i, coq_pyv(v)) for i, v in sorted(pairs)) if pairs else '(fun _ => PNone)'


def coq_rowfn(row):
    return _coq_fn([(ATTRS[k][0], v) for k, v in row.items()])


def coq_env(row, params, rowname=None):
    """row: attr name -> value; params: index -> value. rowname: a Coq identifier already bound to coq_rowfn(row)."""
    return '(mkenv %s %s)' % (rowname or coq_rowfn(row), _coq_fn(list(params.items())))


DN = {'sqlite': 'DSqlite', 'postgres': 'DPostgres', 'mysql': 'DMysql', 'oracle': 'DOracle'}


# ---------------------------------------------------------------------------------------------- SQL AST -> Coq qx

class Unmodelled(Exception):
    pass

_QBIN = {'ADD': 'QAdd', 'SUB': 'QSub', 'MUL': 'QMul', 'DIV': 'QDiv', 'FLOORDIV': 'QFloorDiv', 'MOD': 'QMod',
         'EQ': 'QEq', 'NE': 'QNe', 'LT': 'QLt', 'LE': 'QLe', 'GT': 'QGt', 'GE': 'QGe'}
_QUN = {'NEG': 'QNeg', 'ABS': 'QAbs', 'LENGTH': 'QLen', 'TO_INT': 'QToInt', 'NOT': 'QNot', 'IS_NULL': 'QIsNull', 'IS_NOT_NULL': 'QIsNotNull'}


def param_index(key):
    varkey, i, j = key
    name = varkey[1]
    if i is not None or j is not None or not (name.startswith('x') and name[1:].isdigit()):
        raise Unmodelled('PARAM %r' % (key,))
    return int(name[1:])


COLUMN_HOOK = [None]      # optional function (alias, column name) -> column id, set by the join harness


def qx(x):
    """Pony's list SQL AST -> Coq term of type qx (raises Unmodelled for nodes outside the modelled fragment)."""
    t = x[0]
    if t == 'COLUMN' and COLUMN_HOOK[0] is not None:
        return '(QCol %d)' % COLUMN_HOOK[0](x[1], x[2])
    if t == 'VALUE':
        v = x[1]
        if v is None: return '(QVal QLNone)'
        if isinstance(v, bool): return '(QVal (QLBool %s))' % ('true' if v else 'false')
        if isinstance(v, int): return '(QVal (QLInt %s))' % cz(v)
        if isinstance(v, str): return '(QVal (QLStr %s))' % cstr(v)
        raise Unmodelled('VALUE %r' % (v,))
    if t == 'COLUMN':
        name = x[2].lower()
        if name not in ATTRS: raise Unmodelled('COLUMN %r' % (x,))
        return '(QCol %d)' % ATTRS[name][0]
    if t == 'PARAM': return '(QParam %d)' % param_index(x[1])
    if t in _QBIN and len(x) == 3: return '(QBin %s %s %s)' % (_QBIN[t], qx(x[1]), qx(x[2]))
    if t == 'CONCAT' and len(x) == 3: return '(QBin QConcat %s %s)' % (qx(x[1]), qx(x[2]))
    if t in _QUN and len(x) == 2: return '(QUn %s %s)' % (_QUN[t], qx(x[1]))
    if t in ('AND', 'OR'): return '(%s [%s])' % ('QAnd' if t == 'AND' else 'QOr', '; '.join(qx(y) for y in x[1:]))
    if t in ('IN', 'NOT_IN') and len(x) == 3 and (not x[2] or x[2][0] != 'SELECT'):
        return '(QIn %s %s [%s])' % ('true' if t == 'NOT_IN' else 'false', qx(x[1]), '; '.join(qx(y) for y in x[2]))
    if t == 'CASE' and x[1] is None and len(x) == 4 and len(x[2]) == 1 and x[3] is not None:
        return '(QCase %s %s %s)' % (qx(x[2][0][0]), qx(x[2][0][1]), qx(x[3]))
    if t == 'COALESCE': return '(QCoalesce [%s])' % '; '.join(qx(y) for y in x[1:])
    if t in ('MIN', 'MAX') and x[1] is None: return '(QMinMax %s [%s])' % ('true' if t == 'MAX' else 'false', '; '.join(qx(y) for y in x[2:]))
    raise Unmodelled(t)


def strip_ast(x):
    """JSON-able copy of a list AST (converters replaced by their class names)."""
    if isinstance(x, (list, tuple)):
        if x and x[0] == 'PARAM': return ['PARAM', x[1][0][1], x[1][1], x[1][2]]
        return [strip_ast(y) for y in x]
    if x is None or isinstance(x, (bool, int, str)): return x
    return repr(x)


# ---------------------------------------------------------------------------------------------- real translator

def query_globals(P, params):
    from pony.orm import coalesce, between
    g = {'P': P, 'coalesce': coalesce, 'between': between}
    for i, v in params.items(): g['x%d' % i] = v
    return g


def translate_filter(provider, e, params):
    """conditions of `select(p for p in P if <e>)` on the mock-up database of the provider."""
    from pony import orm
    db, P = get_db(provider)
    with orm.db_session:
        q = orm.select('p for p in P if ' + src(e), query_globals(P, params))
        return list(q._translator.conditions)


def translate_project(provider, e, params):
    from pony import orm
    db, P = get_db(provider)
    with orm.db_session:
        q = orm.select('(p.id, %s) for p in P' % src(e), query_globals(P, params))
        cols = q._translator.expr_columns
        assert len(cols) == 2 and q._translator.distinct is False, (cols, q._translator.distinct)
        return cols[1]


# ---------------------------------------------------------------------------------------------- reference interpreter

UNKNOWN = None      # a condition's third value is represented by None as well (the static type tells which is meant)


class RefError(Exception):
    """Python itself raises on this input (ZeroDivisionError, ...)."""


def _and3(a, b):
    if a is False or b is False: return False
    if a is True and b is True: return True
    return None

def _or3(a, b):
    if a is True or b is True: return True
    if a is False and b is False: return False
    return None

def _not3(a):
    return None if a is None else (not a)


def ref(e, row, params, k3=False):
    """The reference meaning (C01Expr.reval k3): real Python operators on real values; None propagates as stated in the
    property.  Values: int / str / bool / None; conditions: True / False / None (unknown).
    and / or / if-else short-circuit like Python (an operand that is not needed is not evaluated)."""
    k = e[0]
    R = lambda x: ref(x, row, params, k3)
    def truth(x):
        v = R(x)
        if ty_of_ext(x) == 'cond': return v
        if v is None: return None if k3 else False
        return bool(v)
    if k == 'attr': return row[e[1]]
    if k in ('int', 'str', 'bool'): return e[1]
    if k == 'none': return None
    if k == 'param': return params[e[1]]
    if k == 'sub': return row['group.s%d' % e[1]]
    if k == 'col': return row['group.q%d' % e[1]]
    if k == 'arith':
        a, b = R(e[2]), R(e[3])
        if a is None or b is None: return None
        try:
            norm = lambda r: int(r) if isinstance(r, (bool, int)) else r      # bool arithmetic gives int; floats stay floats
            if e[1] == '+': return norm(a + b)
            if e[1] == '-': return norm(a - b)
            if e[1] == '*': return norm(a * b)
            if e[1] == '//': return norm(a // b)
            if e[1] == '%': return norm(a % b)
            if e[1] == '/':
                q = a / b
                return int(q) if q == int(q) else q
        except ZeroDivisionError:
            raise RefError('ZeroDivisionError')
    if k == 'neg':
        a = R(e[1]); return None if a is None else -a
    if k == 'abs':
        a = R(e[1]); return None if a is None else abs(a)
    if k == 'concat':
        a, b = R(e[1]), R(e[2]); return None if a is None or b is None else a + b
    if k == 'len':
        a = R(e[1]); return None if a is None else len(a)
    if k == 'cmp':
        op = e[1]
        ta, tb = ty_of_ext(e[2]), ty_of_ext(e[3])
        if tb == 'none' or ta == 'none':
            v = R(e[2]) if tb == 'none' else R(e[3])
            return (v is None) if op in ('==', 'is') else (v is not None)
        a, b = R(e[2]), R(e[3])
        if a is None or b is None: return None
        if op in ('==', 'is'): return a == b
        if op in ('!=', 'is not'): return a != b
        if op == '<': return a < b
        if op == '<=': return a <= b
        if op == '>': return a > b
        if op == '>=': return a >= b
    if k == 'cmpc':
        # comparison of truth values: (cond) == (cond / bool value); unknown if either side is unknown / None
        def side(x):
            v = R(x)
            return v if (ty_of_ext(x) == 'cond' or v is None) else bool(v)
        a, b = side(e[2]), side(e[3])
        if a is None or b is None: return None
        return (a == b) if e[1] == '==' else (a != b)
    if k == 'and':
        a = truth(e[1])
        if a is False: return False
        return _and3(a, truth(e[2]))
    if k == 'or':
        a = truth(e[1])
        if a is True: return True
        return _or3(a, truth(e[2]))
    if k == 'not':
        if ty_of_ext(e[1]) == 'cond': return _not3(R(e[1]))
        return not R(e[1])
    if k == 'in':
        v = R(e[2])
        r = False
        for l in e[3]:
            r = _or3(None if v is None else (v == l[1]), r)
        return _not3(r) if e[1] else r
    if k == 'if':
        return R(e[2]) if truth(e[1]) is True else R(e[3])
    if k == 'coalesce':
        for x in e[1]:
            v = R(x)
            if v is not None: return v
        return None
    if k == 'minmax':
        vs = [R(x) for x in e[2]]
        if any(v is None for v in vs): return None
        return max(vs) if e[1] else min(vs)
    if k == 'like':
        kind, neg, a, b = e[1], e[2], R(e[3]), R(e[4])
        if a is None or b is None:
            # `not x.startswith(y)` / `y not in x` are translated through `negate`-like NULL handling: treated as a comparison
            return None
        r = a.startswith(b) if kind == 'startswith' else a.endswith(b) if kind == 'endswith' else (b in a)
        return (not r) if neg else r
    if k == 'upper':
        a = R(e[1]); return None if a is None else a.upper()
    if k == 'lower':
        a = R(e[1]); return None if a is None else a.lower()
    if k == 'slice':
        a = R(e[1]); lo = None if e[2] is None else R(e[2]); hi = None if e[3] is None else R(e[3])
        if a is None or (e[2] is not None and lo is None) or (e[3] is not None and hi is None): return None
        return a[lo:hi]
    if k == 'between':
        a, lo, hi = R(e[1]), R(e[2]), R(e[3])          # lo <= a <= hi, a chain of two comparisons
        c1 = None if (lo is None or a is None) else (lo <= a)
        c2 = None if (a is None or hi is None) else (a <= hi)
        return _and3(c1, c2)
    raise ValueError(k)


def keeps(e, row, params, k3=False):
    """Does `if e` keep the row?"""
    v = ref(e, row, params, k3)
    if ty_of_ext(e) == 'cond': return v is True
    return bool(v)


def ty_of_ext(e):
    """ty_of extended to the search-only node kinds."""
    return ty_of(e, True)


def none_free(e, row, params):
    """No attribute / parameter used by e is None (then e can also be given to CPython's eval as is)."""
    return all(row[a] is not None for a in attrs_of(e)) and all(params[i] is not None for i in params_of(e))


def plain_python(e, row, params):
    """CPython evaluation of the source text over an object with the row's attributes (no None rules involved)."""
    class Obj(object): pass
    o = Obj()
    for kk, v in row.items(): setattr(o, kk, v)
    g = {'p': o, 'coalesce': lambda *a: next((x for x in a if x is not None), None),
         'between': lambda x, a, b: a <= x <= b}
    for i, v in params.items(): g['x%d' % i] = v
    return eval(src(e), g)


# hazards: the complement of the theorems (mirror of `safe` in Proofs) -------------------------------------------------

def hazards(e, row, params, dialect='sqlite'):
    """Keys of the known-bad operator instances met while evaluating e on this row (Pony's reading, no short-circuit)."""
    out = set()
    def walk(x):
        for c in children(x): walk(c)
        k = x[0]
        if k == 'arith' and x[1] in ('//', '%', '/'):
            try:
                a, b = ref(x[2], row, params, True), ref(x[3], row, params, True)
            except RefError:
                out.add('zero-division'); return
            if a is None or b is None: return
            a, b = int(a), int(b)
            if b == 0: out.add('zero-division'); return
            exact = a % b == 0
            same = (a >= 0) == (b >= 0)
            if x[1] == '/' and not exact: out.add('truediv-of-ints-is-integer-division')
            if x[1] == '//' and not exact and (dialect == 'mysql' or not same):
                out.add('floordiv-truncates-toward-zero' if dialect != 'mysql' else 'mysql-floordiv-is-decimal-division')
            if x[1] == '%' and not exact and not same: out.add('mod-takes-sign-of-dividend')
    try:
        walk(e)
    except RefError:
        out.add('zero-division')
    return out


# ---------------------------------------------------------------------------------------------- generators

INT_LEAF_ATTRS = ('a', 'b', 'r')
STR_LEAF_ATTRS = ('s', 'u')
BOOL_LEAF_ATTRS = ('f', 'g')
STR_POOL = ('', 'a', 'b', 'ab', 'ba', 'abc')
INT_POOL = (0, 1, 2, 3, 7)
# needles / haystacks for the LIKE family: the escape character `!` and the wildcards `%` `_` must be matched literally
LIKE_POOL = ('a', 'ab', '', '!', 'a!', '!a', 'a!b', '%', 'a%', '_', 'a_b', '!%', '!!', 'b')


class Gen(object):
    """Type-directed random generator of well-formed (wf) typed expressions. Parameter values are allocated on the fly:
    self.params : index -> value, self.ptypes : index -> type name or None."""
    def __init__(self, rng, ext=False, none_params=True, pools=None):
        self.pools = pools or {'int': INT_LEAF_ATTRS, 'str': STR_LEAF_ATTRS, 'bool': BOOL_LEAF_ATTRS}
        self.rng = rng
        self.ext = ext          # also produce the search-only node kinds
        self.none_params = none_params
        self.params = {}
        self.ptypes = {}

    def reset(self):
        self.params, self.ptypes = {}, {}

    def new_param(self, t):
        i = len(self.params)
        rng = self.rng
        if t == 'int': v = rng.choice((-7, -3, -2, -1, 0, 1, 2, 3, 5))
        elif t == 'str': v = rng.choice(STR_POOL)
        elif t == 'bool': v = rng.choice((True, False))
        else: v = None
        self.params[i] = v; self.ptypes[i] = t
        return ('param', i, t)

    def leaf(self, t, force_attr):
        rng = self.rng
        pool = self.pools[t]
        if force_attr or rng.random() < 0.6: return ('attr', rng.choice(pool))
        if rng.random() < 0.4: return self.new_param(t)
        if t == 'int': return ('int', rng.choice(INT_POOL))
        if t == 'str': return ('str', rng.choice(STR_POOL))
        return ('bool', rng.choice((True, False)))

    def value(self, t, d, force_attr=False):
        """An expression of value type t, depth <= d; force_attr: must mention an attribute."""
        rng = self.rng
        if d <= 1 or rng.random() < 0.25: return self.leaf(t, force_attr)
        forms = {'int': ['arith', 'arith', 'arith', 'neg', 'abs', 'len', 'if', 'coalesce', 'minmax'],
                 'str': ['concat', 'concat', 'if', 'coalesce', 'minmax'],
                 'bool': ['if', 'coalesce']}[t]
        if self.ext and t == 'str': forms = forms + ['upper', 'lower']      # slices: property C25
        f = rng.choice(forms)
        if f == 'arith':
            op = rng.choice(ARITH[:5] if rng.random() < 0.93 else ARITH)
            ta, tb = rng.choice((('int', 'int'), ('int', 'int'), ('int', 'bool'), ('bool', 'int')))
            a, b = self.pair(lambda fa: self.value(ta, d - 1, fa), lambda fa: self.value(tb, d - 1, fa))
            return ('arith', op, a, b)
        if f in ('neg', 'abs'): return (f, self.value('int', d - 1, True))
        if f == 'len': return ('len', self.value('str', d - 1, True))
        if f == 'concat':
            a, b = self.pair(lambda fa: self.value('str', d - 1, fa), lambda fa: self.value('str', d - 1, fa))
            return ('concat', a, b)
        if f == 'if':
            kind = rng.choice(('cond', 'cond', 'str', 'bool', 'int'))
            mk = [lambda fa: (self.cond(d - 1, fa) if kind == 'cond' else self.value(kind, d - 1, fa)),
                  lambda fa: self.value(t, d - 1, fa), lambda fa: self.value(t, d - 1, fa)]
            c, x, y = self.several(mk)
            return ('if', c, x, y)
        if f == 'coalesce':
            n = rng.choice((2, 2, 3))
            return ('coalesce', tuple(self.several([lambda fa: self.value(t, d - 1, fa)] * n)))
        if f == 'minmax':
            n = rng.choice((2, 2, 3))
            return ('minmax', rng.random() < 0.5, tuple(self.several([lambda fa: self.value(t, d - 1, fa)] * n)))
        if f in ('upper', 'lower'): return (f, self.value('str', d - 1, True))
        if f == 'slice':
            lo = rng.choice((None, ('int', rng.choice((0, 1, 2))), self.new_param('int')))
            hi = rng.choice((None, ('int', rng.choice((0, 1, 2, 3))), self.new_param('int')))
            return ('slice', self.value('str', d - 1, True), lo, hi)
        raise ValueError(f)

    def pair(self, mka, mkb):
        a, b = self.several([mka, mkb])
        return a, b

    def several(self, makers):
        """Children of one operator node: at least one of them mentions an attribute."""
        forced = self.rng.randrange(len(makers))
        out = [mk(i == forced) for i, mk in enumerate(makers)]
        return out

    def cond(self, d, force_attr=True):
        rng = self.rng
        forms = ['cmp', 'cmp', 'cmp', 'none', 'in']
        if d > 2: forms += ['and', 'or', 'not', 'not', 'and', 'or']
        if self.ext: forms += ['like', 'between', 'cmpc']
        f = rng.choice(forms)
        if f == 'cmp':
            tys = rng.choice((('int', 'int'), ('int', 'int'), ('str', 'str'), ('int', 'bool'), ('bool', 'int'), ('bool', 'bool')))
            op = rng.choice(CMPS[:6])
            a, b = self.pair(lambda fa: self.value(tys[0], d - 1, fa), lambda fa: self.value(tys[1], d - 1, fa))
            return ('cmp', op, a, b)
        if f == 'none':
            t = rng.choice(VT)
            x = self.value(t, d - 1, True)
            n = ('none',) if rng.random() < 0.6 or not self.none_params else self.new_param(None)
            op = rng.choice(('==', '!=', 'is', 'is not'))
            return ('cmp', op, x, n) if rng.random() < 0.8 else ('cmp', op, n, x)
        if f == 'in':
            t = rng.choice(('int', 'int', 'str'))
            n = rng.choice((0, 1, 2, 3))
            pool = INT_POOL if t == 'int' else STR_POOL
            items = tuple((t, rng.choice(pool)) for _ in range(n))
            return ('in', rng.random() < 0.5, self.value(t, d - 1, True), items)
        if f in ('and', 'or'):
            a, b = self.pair(lambda fa: self.operand(d - 1, fa), lambda fa: self.operand(d - 1, fa))
            return (f, a, b)
        if f == 'not': return ('not', self.operand(d - 1, True))
        if f == 'like':
            kind = rng.choice(('startswith', 'endswith', 'contains'))
            shape = rng.choice(('literal', 'param', 'param', 'attr', 'expr'))
            if shape == 'literal': b = ('str', rng.choice(LIKE_POOL))
            elif shape == 'param':
                b = self.new_param('str'); self.params[b[1]] = rng.choice(LIKE_POOL)
            elif shape == 'attr': b = ('attr', 'u')
            else: b = ('concat', ('attr', 'u'), ('str', rng.choice(LIKE_POOL)))
            return ('like', kind, rng.random() < 0.3, self.value('str', d - 1, True), b)
        if f == 'cmpc':
            a = self.cond(max(2, d - 1), True)
            b = self.cond(max(2, d - 1), True) if rng.random() < 0.5 else ('attr', rng.choice(BOOL_LEAF_ATTRS))
            if rng.random() < 0.5: a, b = b, a
            return ('cmpc', rng.choice(('==', '!=')), a, b)
        if f == 'between':
            return ('between', self.value('int', d - 1, True), self.leaf('int', False), self.leaf('int', False))
        raise ValueError(f)

    def operand(self, d, force_attr):
        """Operand of and / or / not: a condition or a value tested for truth."""
        rng = self.rng
        if rng.random() < 0.65: return self.cond(d, True)
        return self.value(rng.choice(VT), d, True)

    def filter_expr(self, d):
        return self.operand(d, True)


def random_row(rng, null_rate=0.3):
    row = {'id': None}
    for name, (i, t, n) in ATTRS.items():
        if name == 'id' or '.' in name: continue
        if n and rng.random() < null_rate: row[name] = None
        elif t == 'int': row[name] = rng.choice((-7, -3, -2, -1, 0, 1, 2, 3, 7))
        elif t == 'str': row[name] = rng.choice(STR_POOL)
        else: row[name] = rng.choice((True, False))
    return row


def standard_rows():
    """A fixed table that covers None / negative / zero / positive and empty / non-empty combinations."""
    rows = []
    ints = (None, -7, -2, 0, 1, 3)
    strs = (None, '', 'a', 'ab', 'b')
    k = 0
    for a in ints:
        for b in (None, -2, 0, 2):
            for f in (None, True, False):
                s = strs[k % len(strs)]; u = ('', 'a', 'ab', 'abc')[k % 4]
                rows.append({'a': a, 'b': b, 'r': (-3, 0, 2, 7)[k % 4], 's': s, 'u': u if u else 'b', 'f': f, 'g': bool(k % 2)})
                k += 1
    return rows


def shrink_candidates(e):
    """Smaller expressions of the same type to try when minimising a failing input."""
    t = ty_of_ext(e)
    out = []
    for c in children(e):
        if ty_of_ext(c) == t: out.append(c)
    cs = children(e)
    for i, c in enumerate(cs):
        for c2 in shrink_candidates(c):
            if ty_of_ext(c2) == ty_of_ext(c): out.append(replace_child(e, i, c2))
    if e[0] in ('and', 'or') and t == 'cond':
        out += [c for c in cs if ty_of_ext(c) in VT]
    return out


def replace_child(e, i, new):
    k = e[0]
    if k in ('arith', 'cmp', 'cmpc'):
        l = list(e); l[2 + i] = new; return tuple(l)
    if k in ('neg', 'abs', 'len', 'not', 'upper', 'lower'): return (k, new)
    if k in ('concat', 'and', 'or'):
        l = list(e); l[1 + i] = new; return tuple(l)
    if k == 'in': return (k, e[1], new, e[3])
    if k == 'if':
        l = list(e); l[1 + i] = new; return tuple(l)
    if k == 'coalesce':
        a = list(e[1]); a[i] = new; return (k, tuple(a))
    if k == 'minmax':
        a = list(e[2]); a[i] = new; return (k, e[1], tuple(a))
    if k == 'like':
        l = list(e); l[3 + i] = new; return tuple(l)
    if k in ('slice', 'between'):
        idx = [j for j in range(1, len(e)) if e[j] is not None][i]
        l = list(e); l[idx] = new; return tuple(l)
    raise ValueError(k)


def to_json(e):
    if isinstance(e, tuple): return [to_json(x) for x in e]
    return e

def from_json(j):
    if isinstance(j, list): return tuple(from_json(x) for x in j)
    return j


# ---------------------------------------------------------------------------------------------- bounded enumeration

def enum_small():
    """Every expression of depth <= 2 over a small leaf alphabet (wf and typed), as (expr, params) pairs; params are the
    values of the external names used (x0: int -3, x1: str 'a', x2: bool True, x3: None)."""
    P = {0: -3, 1: 'a', 2: True, 3: None}
    leaves = {
        'int': [('attr', 'a'), ('attr', 'r'), ('int', 2), ('int', 0), ('param', 0, 'int')],
        'str': [('attr', 's'), ('attr', 'u'), ('str', 'ab'), ('str', ''), ('param', 1, 'str')],
        'bool': [('attr', 'f'), ('attr', 'g'), ('bool', True), ('param', 2, 'bool')],
    }
    nones = [('none',), ('param', 3, None)]
    out = []
    def add(e):
        if ty_of(e) is not None and wf(e): out.append(e)
    for t in VT:
        for l in leaves[t]:
            if l[0] == 'attr': add(l)
    I, S, B = leaves['int'], leaves['str'], leaves['bool']
    for op in ARITH:
        for a in I + B:
            for b in I + B: add(('arith', op, a, b))
    for a in I: add(('neg', a)); add(('abs', a))
    for a in S:
        add(('len', a))
        for b in S: add(('concat', a, b))
    for op in CMPS[:6]:
        for a in I + B:
            for b in I + B: add(('cmp', op, a, b))
        for a in S:
            for b in S: add(('cmp', op, a, b))
    for op in ('==', '!=', 'is', 'is not'):
        for a in I + S + B:
            for n in nones:
                add(('cmp', op, a, n)); add(('cmp', op, n, a))
    allv = I + S + B
    for a in allv:
        add(('not', a))
        for b in allv:
            add(('and', a, b)); add(('or', a, b))
    for neg in (False, True):
        for a in I:
            for items in ((), (('int', 2),), (('int', 0), ('int', 7))): add(('in', neg, a, items))
        for a in S:
            for items in ((), (('str', 'ab'),), (('str', ''), ('str', 'a'))): add(('in', neg, a, items))
    for t in VT:
        for c in S[:2] + B[:2]:
            for x in leaves[t][:3]:
                for y in leaves[t][:3]: add(('if', c, x, y))
        for x in leaves[t]:
            for y in leaves[t]:
                add(('coalesce', (x, y)))
                if t != 'bool':
                    add(('minmax', False, (x, y))); add(('minmax', True, (x, y)))
    return out, P


def enum_depth3(rng, base, n):
    """n expressions of depth 3 built from depth-2 conditions / values of enum_small (sampled with rng)."""
    conds = [e for e in base if ty_of(e) == 'cond']
    ints = [e for e in base if ty_of(e) == 'int' and depth(e) == 2]
    out = []
    while len(out) < n:
        k = rng.randrange(8)
        if k == 0: e = ('not', rng.choice(conds))
        elif k == 1: e = ('and', rng.choice(conds), rng.choice(conds))
        elif k == 2: e = ('or', rng.choice(conds), rng.choice(conds))
        elif k == 3: e = ('not', ('and', rng.choice(conds), rng.choice(conds)))
        elif k == 4: e = ('cmp', rng.choice(CMPS[:6]), rng.choice(ints), rng.choice(ints))
        elif k == 5: e = ('if', rng.choice(conds), rng.choice(ints), rng.choice(ints))
        elif k == 6: e = ('not', ('or', rng.choice(conds), ('not', rng.choice(conds))))
        else: e = ('arith', rng.choice(ARITH[:5]), rng.choice(ints), rng.choice(ints))
        if ty_of(e) is not None and wf(e): out.append(e)
    return out


def like_rows():
    """Rows whose strings contain the LIKE escape character and wildcards (used by the search tables)."""
    out = []
    hays = ('a!b', 'a!', '!', 'ab', 'a%b', 'a_b', 'axb', None, '', '!!', 'b!a')
    us = ('!', 'a!', 'a', '%', '_', 'b')
    for k, s_ in enumerate(hays):
        out.append({'a': k, 'b': None, 'r': k, 's': s_, 'u': us[k % len(us)], 'f': None, 'g': bool(k % 2)})
    return out


def like_sweep():
    """Small exhaustive scope for StringMixin._like: kind x negation x needle shape x needle value (haystack = p.s)."""
    out = []
    for kind in ('startswith', 'endswith', 'contains'):
        for neg in (False, True):
            for v in ('!', 'a!', '!a', 'a!b', '%', 'a%', '_', 'a_b', 'a', ''):
                out.append((('like', kind, neg, ('attr', 's'), ('str', v)), {}))
                out.append((('like', kind, neg, ('attr', 's'), ('param', 0, 'str')), {0: v}))
                out.append((('like', kind, neg, ('attr', 's'), ('concat', ('attr', 'u'), ('str', v))), {}))
                out.append((('like', kind, neg, ('attr', 's'), ('concat', ('param', 0, 'str'), ('attr', 'u'))), {0: v}))
            out.append((('like', kind, neg, ('attr', 's'), ('attr', 'u')), {}))
    return out


# ---------------------------------------------------------------------------------------------- LIKE family (Model/C01Like.v)

_LK = {'startswith': 'KStarts', 'endswith': 'KEnds', 'contains': 'KContains'}


def lx_hay(x):
    if x[0] == 'COALESCE' and len(x) == 3 and x[2] == ['VALUE', '']: return '(LCoalesceEmpty (LX %s))' % qx(x[1])
    return '(LX %s)' % qx(x)


def lx_pat(x):
    if x[0] == 'VALUE' and isinstance(x[1], str): return '(LLit %s)' % cstr(x[1])
    if x[0] == 'REPLACE' and len(x) == 4 and x[2][0] == 'VALUE' and x[3][0] == 'VALUE' and isinstance(x[2][1], str) and len(x[2][1]) == 1:
        inner = lx_pat(x[1]) if x[1][0] == 'REPLACE' else '(LX %s)' % qx(x[1])
        return '(LReplace %s %d %s)' % (inner, ord(x[2][1]), cstr(x[3][1]))
    if x[0] == 'CONCAT': return '(LConcat [%s])' % '; '.join(lx_pat(y) for y in x[1:])
    raise Unmodelled('LIKE pattern %r' % (x[0],))


def lcond(x):
    """The condition StringMixin._like produced (Pony's list AST) -> Coq term of type lcond."""
    if x[0] == 'OR' and len(x) == 3 and x[2][0] == 'IS_NULL':
        return '(LOrNull %s %s)' % (lcond(x[1]), lx_hay(x[2][1]))
    if x[0] in ('LIKE', 'NOT_LIKE') and len(x) in (3, 4):
        if len(x) == 4 and x[3] != ['VALUE', '!']: raise Unmodelled('ESCAPE %r' % (x[3],))
        return '(LLike %s %s %s %s)' % ('true' if x[0] == 'NOT_LIKE' else 'false', lx_hay(x[1]), lx_pat(x[2]), 'true' if len(x) == 4 else 'false')
    raise Unmodelled('LIKE condition %r' % (x[0],))


def like_model_term(prov, e, nullable=None):
    """Coq term `like_of d k neg hay needle` for a tree ('like', kind, neg, hay, needle)."""
    return '(like_of %s %s %s %s %s)' % (DN[prov], _LK[e[1]], 'true' if e[2] else 'false', coq(e[3], nullable), coq(e[4], nullable))
